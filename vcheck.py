"""Command line for the checks (see ./check)."""
import argparse
import importlib
import os
import sys


def main(argv):
    ap = argparse.ArgumentParser()
    ap.add_argument("prop")
    ap.add_argument("tier", nargs="?", default=None)
    ap.add_argument("--replay")
    ap.add_argument("--count", type=int)
    ap.add_argument("--jobs", type=int)
    ap.add_argument("--seed", type=int)
    a = ap.parse_args(argv)
    if os.environ.get("TORNADO_VERIF") != "1" or "PYTHONHASHSEED" not in os.environ:
        print("HARNESS-ERROR: run through ./check", file=sys.stderr)
        return 2
    import tornado
    want = os.path.abspath(os.environ.get("VERIF_REPO", "/repo")) + "/"
    if not os.path.abspath(tornado.__file__).startswith(want):
        print(f"HARNESS-ERROR: tornado not imported from {want}", file=sys.stderr)
        return 2
    from sim import runner
    mod = importlib.import_module("props." + a.prop.lower())
    if a.replay:
        return runner.replay(mod, a.replay)
    if a.tier == "digests":
        return runner.digests(mod, os.environ.get("VERIF_TIER") or "quick",
                              int(os.environ.get("VERIF_SEED", "0") or 0),
                              a.count or 200, a.jobs or 1)
    tier = a.tier or os.environ.get("VERIF_TIER") or "quick"
    if tier not in ("quick", "thorough"):
        print("HARNESS-ERROR: tier must be quick or thorough", file=sys.stderr)
        return 2
    seed = a.seed if a.seed is not None else int(os.environ.get("VERIF_SEED", "0") or 0)
    return runner.run_check(mod, tier, seed, count=a.count, jobs=a.jobs)


if __name__ == "__main__":
    try:
        rc = main(sys.argv[1:])
    except SystemExit:
        raise
    except BaseException:
        import traceback
        traceback.print_exc()
        rc = 2
    sys.exit(rc)
