"""Small additions to props/httprig.py used by C05 and C32 (httprig itself is shared, read-only).

RecordingApp numbers connections by id(server_conn).  If a connection object is freed
and a later one is allocated at the same address inside one run, both get the same
number, and the number that ends up in the event log depends on allocator history
(breaks replay).  KeepRecordingApp keeps every connection object alive for the run.
"""

from props import httprig


class KeepRecordingApp(httprig.RecordingApp):
    def __init__(self, inner, log):
        super().__init__(inner, log)
        self._keep = []

    def _cid(self, server_conn):
        self._keep.append(server_conn)
        return super()._cid(server_conn)


def start_server(env, app, *, port=80, ip="127.0.0.1", **server_kwargs):
    """Same contract as httprig.start_server, with a KeepRecordingApp."""
    from tornado.httpserver import HTTPServer
    rapp = KeepRecordingApp(app, env.log)
    server = HTTPServer(rapp, **server_kwargs)
    ls = env.net.listen(ip, port)
    server.add_socket(ls)
    return server, ls, rapp
