"""C16 - WebSocket close handshake is orderly and reported exactly once.

Rigs (knobs.mode): raw_client (raw frame peer -> real WebSocketHandler),
raw_server (real websocket_connect client -> raw frame peer), real (real client
<-> real handler; both ends are judged).

A scenario is a timed script of operations on virtual time: the Tornado
application closes (code, reason) / writes; the peer sends messages, close
frames (empty, 1 byte, code, code+reason, reason that is not UTF-8), pings,
FIN / half-close / RST; the raw peer answers Tornado's close frame immediately,
late (around the 5 s closing timeout), or never, and answers Tornado's pings
immediately, late (around the ping timeout) or never.  Timers fire late by the
"late" tape.

Oracle per Tornado side, from the frames it put on the wire (send_tap, with
send times), the time it closed its socket, and its application callbacks:
  close.multiple        more than one close frame
  data_after_close      a data frame after its close frame
  close.echo            the peer's close (with a code) arrived before this side sent its close
                        frame, yet that frame carries neither the peer's code nor a close the
                        local application / ping timeout had asked for
  teardown.missing/late the socket is still open at quiescence / later than 5 s (+ lateness)
                        after its own close frame; teardown.slow: both closes exchanged (sync
                        application) and the socket stays open
  teardown.early        socket closed before the 5 s closing timeout without the peer's close
                        frame, FIN or RST having arrived
  notify.count          on_close / read_message()->None (callback None) not exactly once
  notify.code           close code / reason reported to the application differ from the peer's
                        close frame although this side demonstrably processed it
  write_after_close     write_message after close() or after the close notification did not
                        fail with WebSocketClosedError
  close.unhandled_exception  a task / callback died with an exception during the close sequence
  close.raised          close() with sendable arguments raised
  close.echo_missing    the peer's close frame was processed (the application was told its code)
                        but this side never sent a close frame
  close.frame_missing   an accepted close() on a fully open connection put no close frame on the wire
  write_rejected_while_open  write_message raised WebSocketClosedError although neither side had
                        started to close
  write_failed.wrong_exception  a write_message call, or the future it returned (what an awaiting
                        application sees), failed with anything but WebSocketClosedError
A local close() whose arguments cannot be sent (reason > 123 bytes, code outside 0..65535)
raises on the unchanged tree and leaves the connection fully open; the model treats it as if
it had not happened (it is not a "local close" for any rule above).
"""

import gc
import struct

from ref import ws_codec as W
from sim.env import SimEnv, UNIT

from . import _speedups
from . import _wsrig as R

ID = "C16"
LEVEL = "exploration"
QUICK_N = 40000
THOROUGH_N = 1500000
CHUNK = 250
RULE = ("gen(seed): rig (raw peer as client / raw peer as server / real client+server), ping interval "
        "and timeout (off, 0.25-1 s), pong policy of the raw peer (immediately, delayed around the "
        "timeout, withheld), its reply to Tornado's close frame (echo now, echo around the 5 s closing "
        "timeout, never, FIN), async on_message pacing, and a timed op script drawn from templates "
        "(peer closes first, local close first, crossing closes, disconnect, ping timeout, mixed, "
        "silent disconnect = peer RST/FIN while the frame loop is parked in a busy application and "
        "the application then writes and awaits the returned future) "
        "with in-flight messages, application writes before/after close, close() calls whose arguments "
        "are rejected (too-long reason, out-of-range code; also as try-bad/retry-good pairs), sleeps "
        "placed at the 5 s and "
        "ping deadlines -1/0/+1 tick; peer close payloads: empty, 1 byte, code, code+reason, "
        "code+non-UTF-8 reason; tapes: late (timer lateness), defer, recv_cap, delay. non-trivial = "
        "handshake completed AND a close sequence actually started (a close frame was sent by "
        "either side, or the peer disconnected) AND at least one of: both sides sent a close frame, "
        "virtual time crossed a closing/ping deadline, a message or async on_message was in flight "
        "at that moment, a write was attempted after close; distinct = scenario hash")
COMPONENTS = {
    "real": ["tornado.websocket.WebSocketHandler/WebSocketProtocol13 (close, _abort, periodic_ping)",
             "tornado.websocket.websocket_connect/WebSocketClientConnection", "tornado.web.Application",
             "tornado.httpserver.HTTPServer", "tornado.simple_httpclient", "tornado.tcpclient",
             "tornado.iostream.IOStream", "tornado.ioloop.IOLoop timers (add_timeout/call_later)",
             "asyncio.sleep / Task.cancel"],
    "stub": ["event loop poller+virtual clock with timer lateness (SimLoop)", "sockets/network (SimNet)",
             "remote frame peer (props/_wsrig.RawWS + ref/ws_codec.py)"],
}
ASSUMPTIONS = [
    "a close frame whose payload is 1 byte or whose reason is not UTF-8 is a protocol error of the "
    "peer: no echo and no particular code are required, only single notification and teardown",
    "echo is required only when the peer's close frame had arrived before this side's close frame "
    "was written AND no local close()/ping-timeout close explains the frame that was written",
    "the reported code/reason are checked only when this side demonstrably processed the peer's "
    "close frame (it echoed it, or it tore the connection down before the 5 s timeout with no "
    "FIN/RST from the peer)",
    "timer lateness allowance = sum of the late and cost tapes + 8 ticks",
    "a close() that raises for unsendable arguments leaves the connection untouched (what the "
    "unchanged tree does); close.echo_missing / close.frame_missing are not judged in runs with "
    "send back-pressure or RST, where bytes queued just before stream.close() may never reach the wire",
]

_speedups.ensure()

CLOSING = 5.0  # seconds, hard-coded in WebSocketProtocol13.close
CLOSING_U = int(CLOSING / UNIT)
CODES = [1000, 1001, 1002, 1003, 1008, 1011, 3000, 4000, 4999]
REASONS = ["", "bye", "going away", "grüße \U0001F44B", "r" * 123]
BAD_REASONS = ["ff", "c328", "e282", "62796580", "eda080"]
PING_TIMEOUT_PAYLOAD = W.close_payload(1000, b"ping timed out")
# faults after which a frame handed to the stream may legitimately never reach the wire
# (Tornado closes the stream right after queueing its echo: queued bytes are dropped)
NO_WIRE_GUARANTEE = ("peer_rst_seen", "epipe", "zero_window_stall", "partial_send", "send_eagain")


# ---------------------------------------------------------------------------
# generation


def _close_args(rng):
    k = rng.random()
    if k < 0.25:
        return None, None
    if k < 0.5:
        return rng.choice(CODES), None
    if k < 0.6:
        return None, rng.choice(REASONS[1:4])
    return rng.choice(CODES), rng.choice(REASONS)


def _peer_close_payload(rng, allow_bad=True):
    k = rng.random()
    if k < 0.2:
        return "hex:"
    if k < 0.4:
        return "hex:" + W.close_payload(rng.choice(CODES)).hex()
    if k < 0.75 or not allow_bad:
        return "hex:" + W.close_payload(rng.choice(CODES), rng.choice(REASONS).encode("utf-8")).hex()
    if k < 0.87:
        return "hex:" + bytes([rng.choice([0x03, 0xE8, 0x00, 0xFF])]).hex()  # 1-byte payload
    return "hex:" + (W.close_payload(rng.choice(CODES)) + bytes.fromhex(rng.choice(BAD_REASONS))).hex()


def _bad_close(rng, dt=0):
    """A close() call whose arguments cannot be sent: it must raise and change nothing."""
    k = rng.random()
    if k < 0.5:
        return {"op": "t_close", "dt": dt, "code": rng.choice([None, 1000, 1011, 4000]),
                "reason": rng.choice(["x" * 124, "y" * 200, "\u00e9" * 62])}
    return {"op": "t_close", "dt": dt, "code": rng.choice([65536, 70000, -1, 100000]),
            "reason": rng.choice([None, "bye"])}


def _filler(rng, mode, n):
    ops = []
    for _ in range(n):
        k = rng.random()
        dt = rng.choice([0, 0, 0, -1, 1, 3, 40])
        if k < 0.07:
            ops.append(_bad_close(rng, dt))
        elif k < 0.4:
            ops.append({"op": "p_msg", "dt": dt, "t": rng.choice([1, 2]), "n": rng.choice([0, 5, 126, 300])})
        elif k < 0.75:
            ops.append({"op": "t_write", "dt": dt, "n": rng.choice([0, 5, 126, 300])})
        elif k < 0.85 and mode != "real":
            ops.append({"op": "p_ping", "dt": dt})
        else:
            ops.append({"op": "p_write", "dt": dt, "n": rng.choice([1, 50])})
    return ops


def gen(rng, tier, index):
    mode = rng.choice(["raw_client"] * 4 + ["raw_server"] * 3 + ["real"] * 2)
    raw = mode != "real"
    template = rng.choice(["peer_first", "local_first", "local_first", "crossing", "disconnect",
                           "ping_timeout", "ping_timeout", "mixed", "silent_disconnect"])
    if not raw and template in ("disconnect", "silent_disconnect"):
        template = "crossing"
    ping = None
    pong = []
    if template == "ping_timeout" or rng.random() < 0.25:
        iv = rng.choice([256, 512, 1024])
        to = rng.choice([None, iv // 2, iv // 4, iv, 128])
        ping = [iv, to]
        eff = to if to is not None else iv
        if template == "ping_timeout":
            pong = [rng.choice([0, 1, eff - 1, eff, eff + 1, -1, -1]) for _ in range(rng.randint(1, 4))]
            if all(p >= 0 and p < eff for p in pong):
                pong.append(-1)
        else:
            pong = [rng.choice([0, 0, 1, eff - 1]) for _ in range(rng.randint(0, 3))]
    reply = rng.choice(["echo", "echo", "echo", "none", "none", "late", "late", "fin"])
    reply_dt = rng.choice([1, 100, CLOSING_U - 1, CLOSING_U, CLOSING_U + 1, CLOSING_U - 2, CLOSING_U + 40])
    dl = [0, 0, 1, 2, 100, CLOSING_U - 1, CLOSING_U, CLOSING_U + 1, CLOSING_U + 200]
    ops = _filler(rng, mode, rng.randint(0, 3))
    if template == "peer_first":
        ops.append({"op": "p_close", "dt": rng.choice([0, 1, -1, 5]), "pl": _peer_close_payload(rng)})
        ops += _filler(rng, mode, rng.randint(0, 2))
        if rng.random() < 0.5:
            c, r = _close_args(rng)
            ops.append({"op": "t_close", "dt": rng.choice([0, 0, 1, -1, 10]), "code": c, "reason": r})
    elif template == "local_first":
        c, r = _close_args(rng)
        ops.append({"op": "t_close", "dt": rng.choice([0, 1, -1, 5]), "code": c, "reason": r})
        ops += _filler(rng, mode, rng.randint(0, 2))
        if rng.random() < 0.6:
            ops.append({"op": "p_close", "dt": rng.choice(dl), "pl": _peer_close_payload(rng)})
        elif rng.random() < 0.5 and raw:
            ops.append({"op": rng.choice(["p_fin", "p_half", "p_rst"]), "dt": rng.choice(dl)})
    elif template == "crossing":
        c, r = _close_args(rng)
        a = {"op": "t_close", "dt": rng.choice([0, 0, 1, -1]), "code": c, "reason": r}
        b = {"op": "p_close", "dt": rng.choice([0, 0, 0, 1, 2]), "pl": _peer_close_payload(rng, rng.random() < 0.3)}
        if rng.random() < 0.5:
            a, b = b, a
        ops += [a, b]
        if rng.random() < 0.3:
            c, r = _close_args(rng)
            ops.append({"op": "t_close", "dt": rng.choice([0, 1, 10]), "code": c, "reason": r})
    elif template == "disconnect":
        if rng.random() < 0.4:
            c, r = _close_args(rng)
            ops.append({"op": "t_close", "dt": rng.choice([0, 1, -1]), "code": c, "reason": r})
        ops.append({"op": rng.choice(["p_fin", "p_half", "p_rst"]), "dt": rng.choice([0, 0, 1, -1, 50])})
        ops += _filler(rng, mode, rng.randint(0, 2))
    elif template == "silent_disconnect":
        # the peer goes away while Tornado's frame loop is parked in a busy application, so the
        # library has not noticed yet when the application writes (and awaits) its answers
        for _ in range(1 if mode == "raw_client" else 3):
            ops.append({"op": "p_msg", "dt": 0, "t": rng.choice([1, 2]), "n": rng.choice([0, 5, 126])})
        ops.append({"op": rng.choice(["p_rst", "p_rst", "p_fin"]), "dt": rng.choice([1, 2, 5])})
        for _ in range(rng.choice([1, 2, 2, 3])):
            ops.append({"op": "t_write", "dt": rng.choice([0, 0, 1, 2]), "n": rng.choice([0, 5, 300])})
    elif template == "ping_timeout":
        iv, to = ping
        eff = to if to is not None else iv
        ops.append({"op": "sleep", "dt": rng.choice([iv - 1, iv, iv + 1, iv + eff - 1, iv + eff, iv + eff + 1,
                                                     2 * iv + eff + 3])})
        ops += _filler(rng, mode, rng.randint(0, 3))
        ops.append({"op": "sleep", "dt": rng.choice([1, eff, iv, iv + eff + 2])})
        ops.append({"op": "t_write", "dt": 0, "n": 5})
        if rng.random() < 0.4:
            ops.append({"op": "p_close", "dt": rng.choice(dl), "pl": _peer_close_payload(rng)})
    else:
        for _ in range(rng.randint(1, 4)):
            k = rng.random()
            if k < 0.35:
                c, r = _close_args(rng)
                ops.append({"op": "t_close", "dt": rng.choice(dl), "code": c, "reason": r})
            elif k < 0.7:
                ops.append({"op": "p_close", "dt": rng.choice(dl), "pl": _peer_close_payload(rng)})
            elif raw:
                ops.append({"op": rng.choice(["p_fin", "p_half", "p_rst"]), "dt": rng.choice(dl)})
            ops += _filler(rng, mode, rng.randint(0, 1))
    # the "try: close(code, long_reason) except ValueError: close(code)" pattern
    if rng.random() < 0.2:
        idx = [i for i, o in enumerate(ops) if o["op"] == "t_close" and not _close_args_invalid(
            o.get("code"), o.get("reason"))]
        if idx:
            i = rng.choice(idx)
            ops.insert(i, _bad_close(rng, ops[i].get("dt", 0)))
            ops[i + 1] = dict(ops[i + 1], dt=rng.choice([0, 0, 1]))
    # application writes after the close sequence
    for _ in range(rng.choice([0, 1, 1, 2])):
        ops.append({"op": rng.choice(["t_write", "t_write", "p_write"]),
                    "dt": rng.choice([0, 0, 1, -1, 50, CLOSING_U + 2]), "n": rng.choice([0, 5, 200])})
    tapes = {}
    if rng.random() < 0.3:
        tapes["late"] = [rng.choice([0, 0, 1, 2, 7, 50]) for _ in range(rng.randint(1, 8))]
    if rng.random() < 0.15:
        tapes["defer"] = [rng.choice([0, 1]) for _ in range(10)]
    if rng.random() < 0.15:
        tapes["recv_cap"] = {"v": [rng.choice([0, 1, 2, 3, 10]) for _ in range(rng.randint(1, 6))],
                             "cycle": rng.random() < 0.5}
    if raw and rng.random() < 0.15:
        tapes["delay"] = [rng.choice([0, 1, 3]) for _ in range(8)]
    if rng.random() < 0.1:
        tapes["cost"] = [rng.choice([0, 1]) for _ in range(8)]
    knobs = {"mode": mode, "mask": rng.choice(["c", "python"]), "ping": ping, "pong": pong,
             "reply": reply, "reply_dt": reply_dt,
             "pattern": [rng.choice([0, 0, -1, 1, 5, 300]) for _ in range(rng.randint(0, 3))],
             "client_cb": rng.random() < 0.4, "deflate": rng.random() < 0.25,
             "window": rng.choice([300, 65536, 65536, 65536]), "key": rng.getrandbits(8),
             "template": template}
    if template == "silent_disconnect":
        knobs["pattern"] = [rng.choice([100, 300, 1000]) for _ in range(rng.randint(1, 3))]
        knobs["client_cb"] = False
    return {"property": ID, "version": 1, "knobs": knobs, "ops": ops, "tapes": tapes}


OPS = ("t_close", "t_write", "p_close", "p_msg", "p_ping", "p_write", "p_fin", "p_half", "p_rst", "sleep")


def validate(scn):
    try:
        k = scn["knobs"]
        if k["mode"] not in ("raw_client", "raw_server", "real") or k["mask"] not in ("c", "python"):
            return False
        if k["reply"] not in ("echo", "none", "late", "fin"):
            return False
        pg = k.get("ping")
        if pg is not None:
            if not (isinstance(pg, list) and len(pg) == 2 and isinstance(pg[0], int) and pg[0] >= 16):
                return False
            if pg[1] is not None and not (isinstance(pg[1], int) and 1 <= pg[1] <= pg[0]):
                return False
        if not isinstance(k.get("window"), int) or k["window"] < 200:
            return False
        if not isinstance(k.get("reply_dt"), int) or k["reply_dt"] < 0:
            return False
        for o in scn["ops"]:
            if o["op"] not in OPS or not isinstance(o.get("dt", 0), int) or o.get("dt", 0) < -1:
                return False
            if o["op"] == "p_close" and len(R.expand_data(o["pl"])) > 125:
                return False
            if o["op"] == "t_close":
                c, r = o.get("code"), o.get("reason")
                if c is not None and not (isinstance(c, int) and -10 <= c <= 200000):
                    return False
                if r is not None and (not isinstance(r, str) or len(r.encode("utf-8")) > 400):
                    return False
            if o["op"] in ("p_fin", "p_half", "p_rst") and k["mode"] == "real":
                return False
        lt = scn.get("tapes", {}).get("late")
        if isinstance(lt, dict):
            return False
        return True
    except Exception:
        return False


# ---------------------------------------------------------------------------
# the run


class Side:
    """Everything observed about one Tornado endpoint."""

    def __init__(self, name, rec, is_client):
        self.name = name
        self.rec = rec
        self.is_client = is_client
        self.fd = None
        self.local_closes = []  # (time, expected close payload) - calls that were accepted
        self.rejected_closes = []  # (time, args_were_invalid, exception type) - calls that raised
        self.writes = []  # (time, after_local_close, after_notify, outcome)
        self.close_times = []
        self.ping = None
        self.api = None


def _payload_for(code, reason):
    if code is None and reason is not None:
        code = 1000
    if code is None:
        return b""
    if not 0 <= code <= 65535:
        return None
    return W.close_payload(code, (reason or "").encode("utf-8"))


def _close_args_invalid(code, reason):
    """A close frame for these arguments cannot be built (RFC 6455: 2-byte code, control
    payload <= 125 bytes): close() raises and - on the unchanged tree - has no other effect."""
    pl = _payload_for(code, reason)
    return pl is None or len(pl) > 125


def run(scn, full_log=False):
    knobs = scn["knobs"]
    mode = knobs["mode"]
    raw = mode != "real"
    viol = []
    probes = {}
    state = {"handshake": None, "phase": "start", "peer_close": None, "peer_end": None,
             "peer_closes_sent": 0, "replied": False}

    def probe(name, n=1):
        probes[name] = probes.get(name, 0) + n

    ops = [o for o in scn["ops"] if isinstance(o, dict)]
    ping = knobs.get("ping")
    pi = ping[0] * UNIT if ping else None
    pt = (ping[1] * UNIT if ping[1] is not None else None) if ping else None
    tp = scn.get("tapes") or {}
    slack = (sum(abs(x) for x in (tp.get("late") or []) if isinstance(x, int))
             + sum(abs(x) for x in (tp.get("cost") or []) if isinstance(x, int)) + 8) * UNIT
    topts = {} if knobs.get("deflate") else None

    with _speedups.use(knobs.get("mask", "c")), \
            SimEnv(scn.get("tapes"), max_iters=300_000, max_time=120.0,
                   window=knobs.get("window", 65536), full_log=full_log) as env:
        from tornado.iostream import StreamClosedError
        from tornado.websocket import WebSocketClosedError
        net = env.net
        loop = env.loop
        srec = R.SideRec(env, "server")
        crec = R.SideRec(env, "client")
        S = Side("server", srec, False)
        C = Side("client", crec, True)
        S.ping = C.ping = ping
        box = {"ws": None}
        tap = R.WireTap(env)
        closed_waiters = []

        def watch_close(side, sock):
            side.fd = sock._fd
            orig = sock.close

            def close():
                if not sock.closed:
                    side.close_times.append(loop.time())
                    env.log.ev("tornado_sock_close", side.name)
                    for f in closed_waiters:
                        if not f.done():
                            f.set_result(None)
                return orig()
            sock.close = close

        def on_created(s):
            if C.fd is None:
                watch_close(C, s)
        net.on_socket_created = on_created
        orig_tap = tap._tap

        def tap2(sock, chunk):
            if S.fd is None and sock._fd != C.fd:
                watch_close(S, sock)
            orig_tap(sock, chunk)
        net.send_tap = tap2

        async def wait_sock_closed(side):
            while not side.close_times:
                f = loop.create_future()
                closed_waiters.append(f)
                await f

        def do_write(side, n, who):
            now = loop.time()
            after_local = bool(side.local_closes)
            after_notify = side.rec.closed > 0
            ent = [now, after_local, after_notify, None]
            side.writes.append(ent)
            data = b"w" * n
            try:
                if side.api is None:
                    ent[3] = "no_api"
                    return
                fut = side.api.write_message(data, binary=True)
            except WebSocketClosedError:
                ent[3] = "WebSocketClosedError"
                return
            except Exception as e:  # any other type is never part of the contract
                ent[3] = "raised:" + type(e).__name__
                return
            ent[3] = "accepted"

            def done(f):
                try:
                    f.result()
                except WebSocketClosedError:
                    ent[3] = "future:WebSocketClosedError"
                except Exception as e:
                    ent[3] = "future:" + type(e).__name__
            fut.add_done_callback(done)

        def do_close(side, code, reason):
            invalid = _close_args_invalid(code, reason)
            env.log.ev("local_close", side.name, code, invalid)
            if side.rec.in_flight:
                probe("async_on_message_running_at_close")
            if side.api is not None:
                try:
                    side.api.close(code, reason)
                except (ValueError, struct.error, TypeError, OverflowError) as e:
                    # a rejected close: the connection must stay exactly as it was, so the
                    # call is not recorded as a local close - everything after it is judged
                    # as if it had not happened
                    side.rejected_closes.append((loop.time(), invalid, type(e).__name__))
                    env.log.ev("local_close_rejected", side.name, type(e).__name__)
                    probe("local_close_rejected")
                    return
            if invalid:
                probe("invalid_close_args_on_closing_connection")
            pl = _payload_for(code, reason)
            side.local_closes.append((loop.time(), b"\xff<unsendable>" if pl is None else pl))

        def note_peer_close(payload, when, how="op"):
            state["peer_closes_sent"] += 1
            if state["peer_close"] is None:
                state["peer_close"] = (when, bytes(payload))
                state["peer_close_how"] = how
                if srec.in_flight or crec.in_flight:
                    probe("async_on_message_running_at_close")

        def raw_peer_reply(ws):
            """How the raw peer reacts to Tornado's close frame."""
            def on_frame(f):
                if f.opcode != W.OP_CLOSE or state["replied"]:
                    return
                state["replied"] = True
                how = knobs.get("reply", "echo")
                if state["peer_closes_sent"] or ws.peer.closed or how == "none":
                    return
                if how == "fin":
                    if state["peer_end"] is None:
                        state["peer_end"] = loop.time()
                    ws.peer.close()
                    return
                d = knobs.get("reply_dt", 0) if how == "late" else 0

                def go():
                    if ws.peer.closed or state["peer_closes_sent"]:
                        return
                    pl = f.payload[:2] if len(f.payload) >= 2 else b""
                    ws.send_frame(W.OP_CLOSE, pl)
                    note_peer_close(pl, ws.peer.tx.last_arrival, "reply")
                if d:
                    loop.call_later(d * UNIT, go)
                else:
                    go()
            ws.on_frame = on_frame

        async def run_ops(T, P, ws):
            """T: primary Tornado side; P: the other Tornado side (real mode) or None."""
            for o in ops:
                dt = o.get("dt", 0)
                await R.pace(env, dt)
                kind = o["op"]
                if kind == "sleep":
                    continue
                if kind == "t_close":
                    do_close(T, o.get("code"), o.get("reason"))
                elif kind == "t_write":
                    do_write(T, o.get("n", 0), "T")
                elif kind == "p_write":
                    if P is not None:
                        do_write(P, o.get("n", 0), "P")
                    elif ws is not None and not ws.peer.closed and not state["peer_closes_sent"]:
                        ws.send_frame(W.OP_BIN, b"p" * o.get("n", 0))
                elif kind == "p_msg":
                    data = R.expand_data({"k": "asc", "n": o.get("n", 0), "s": 3})
                    if P is not None:
                        try:
                            if o.get("t") == 1:
                                fut = P.api.write_message(data.decode())
                            else:
                                fut = P.api.write_message(data, binary=True)
                            fut.add_done_callback(lambda f: f.exception())
                        except (WebSocketClosedError, StreamClosedError):
                            pass
                    elif not ws.peer.closed and not state["peer_closes_sent"]:
                        ws.send_frame(1 if o.get("t") == 1 else 2, data)
                elif kind == "p_ping":
                    if ws is not None and not ws.peer.closed and not state["peer_closes_sent"]:
                        ws.send_frame(W.OP_PING, b"pp")
                elif kind == "p_close":
                    pl = R.expand_data(o["pl"])
                    if P is not None:
                        code = int.from_bytes(pl[:2], "big") if len(pl) >= 2 else None
                        reason = pl[2:].decode("utf-8", "replace") if len(pl) > 2 else None
                        do_close(P, code, reason)
                    elif not ws.peer.closed and not state["peer_closes_sent"]:
                        ws.send_frame(W.OP_CLOSE, pl)
                        note_peer_close(pl, ws.peer.tx.last_arrival)
                elif kind in ("p_fin", "p_half", "p_rst") and ws is not None and not ws.peer.closed:
                    if state["peer_end"] is None:
                        state["peer_end"] = loop.time()
                    if kind == "p_fin":
                        ws.peer.close()
                    elif kind == "p_rst":
                        ws.peer.reset()
                    elif not ws.peer.tx.fin_sent:
                        ws.peer.half_close()
                        state["half"] = True

        async def finish(T, ws):
            state["phase"] = "wait_teardown"
            if ws is not None:
                ws.pump()
            if ws is not None and not T.close_times and not state["peer_closes_sent"] \
                    and not ws.peer.closed and not state.get("half") and not T.local_closes \
                    and ws.rx.close_idx is None:
                # the script never started a close sequence: the peer closes normally now
                pl = W.close_payload(1000)
                ws.send_frame(W.OP_CLOSE, pl)
                note_peer_close(pl, ws.peer.tx.last_arrival, "final")
            await wait_sock_closed(T)
            state["phase"] = "wait_notify"
            if ws is not None:
                await ws.peer.wait_eof()
                ws.pump()
                ws.peer.close()
            await T.rec.wait(lambda: T.rec.closed)
            state["phase"] = "settle"
            await loop.idle()

        async def main_raw_client():
            server, ls = R.start_ws_server(env, srec, compression=topts, pattern=knobs.get("pattern"),
                                           ping_interval=pi, ping_timeout=pt)
            peer, ssock = net.raw_connect(ls, window=knobs.get("window", 65536))
            watch_close(S, ssock)
            ws = R.RawWS(env, peer, "client")
            ws.pong_delay = R.Pattern(knobs.get("pong"))
            box["ws"] = ws
            ok = await ws.handshake_client({} if topts is not None else None, knobs.get("key", 1))
            state["handshake"] = ok
            if not ok:
                peer.close()
                await R.stop_server(server)
                return
            ws.make_receiver()
            raw_peer_reply(ws)
            ws.start_reader()
            await srec.wait(lambda: srec.opened or srec.closed)
            S.api = srec.handler
            await run_ops(S, None, ws)
            await finish(S, ws)
            await R.stop_server(server)
            state["phase"] = "done"

        async def main_raw_server():
            started = loop.create_future()

            async def script(ws):
                ok = await ws.handshake_server(
                    lambda offers: {} if topts is not None and any(
                        n == "permessage-deflate" for n, _ in offers) else None)
                state["handshake"] = ok
                if ok:
                    ws.make_receiver()
                    raw_peer_reply(ws)
                    ws.start_reader()
                else:
                    ws.peer.close()
                if not started.done():
                    started.set_result(ok)

            def factory(peer):
                ws = R.RawWS(env, peer, "server")
                ws.pong_delay = R.Pattern(knobs.get("pong"))
                box["ws"] = ws
                box["script"] = loop.create_task(script(ws))

            net.raw_listen(R.HOST, 81, factory)
            with R.client_class_patch(crec):
                fut = R.client_connect(env, crec, port=81, compression=topts, ping_interval=pi,
                                       ping_timeout=pt, callback_mode=knobs.get("client_cb", False))
            try:
                conn = await fut
            except Exception as e:
                state["handshake"] = False
                state["connect_error"] = type(e).__name__
                return
            crec.conn = conn
            C.api = conn
            await started
            if not knobs.get("client_cb"):
                box["reader"] = loop.create_task(reader(conn, crec))
            await run_ops(C, None, box["ws"])
            await finish(C, box["ws"])
            state["phase"] = "done"

        async def reader(conn, rec):
            await R.client_read_loop(env, rec, conn, knobs.get("pattern"))
            m = await conn.read_message()  # a second notification would show up here
            if m is None:
                rec.got_close(conn.close_code, conn.close_reason)

        async def main_real():
            server, ls = R.start_ws_server(env, srec, compression=topts, pattern=knobs.get("pattern"),
                                           ping_interval=pi, ping_timeout=pt)
            with R.client_class_patch(crec):
                fut = R.client_connect(env, crec, port=80, compression=topts,
                                       callback_mode=knobs.get("client_cb", False))
            try:
                conn = await fut
            except Exception as e:
                state["handshake"] = False
                state["connect_error"] = type(e).__name__
                return
            state["handshake"] = True
            crec.conn = conn
            C.api = conn
            C.ping = None
            await srec.wait(lambda: srec.opened or srec.closed)
            S.api = srec.handler
            if not knobs.get("client_cb"):
                box["reader"] = loop.create_task(reader(conn, crec))
            await run_ops(S, C, None)
            state["phase"] = "wait_teardown"
            if not S.local_closes and not C.local_closes:
                do_close(C, 1000, None)
            await wait_sock_closed(S)
            await wait_sock_closed(C)
            state["phase"] = "wait_notify"
            await srec.wait(lambda: srec.closed)
            await crec.wait(lambda: crec.closed)
            state["phase"] = "settle"
            await loop.idle()
            await R.stop_server(server)
            state["phase"] = "done"

        status = env.run({"raw_client": main_raw_client, "raw_server": main_raw_server,
                          "real": main_real}[mode]())
        net.send_tap = None
        gc.collect(0)  # "Task exception was never retrieved" surfaces here (this run's objects are all young: gc is off during a run)

        # ------------------------------------------------------------ oracle
        ws = box["ws"]
        if ws is not None:
            ws.pump()
        end_time = loop.time()

        def frames_of(side):
            if side.fd is None:
                return [], 0
            head, frames, trailing = tap.frames_after_head(side.fd)
            hl = (len(head) + 4) if head is not None else 0
            return [(f, tap.time_of(side.fd, hl + f.end)) for f in frames], trailing

        def judge(side, other_frames, peer_close, peer_end):
            """peer_close: (arrival time, payload) of the first close frame the other end sent;
            peer_end: time the other end's FIN/RST was issued (None if it never disconnected)."""
            name = side.name

            def bad(rule, msg, disc=""):
                viol.append({"rule": rule, "key": f"{rule}/{mode}/{name}" + (f"/{disc}" if disc else ""),
                             "msg": f"[{name}] " + msg})

            frames, trailing = frames_of(side)
            closes = [(i, f, t) for i, (f, t) in enumerate(frames) if f.opcode == W.OP_CLOSE]
            t_c = side.close_times[0] if side.close_times else None
            t_s = closes[0][2] if closes else None
            T = closes[0][1] if closes else None
            # R1
            if len(closes) > 1:
                bad("close.multiple", f"{len(closes)} close frames sent: "
                                      f"{[(c[1].payload[:2].hex(), c[2]) for c in closes]}")
            # R2
            if closes:
                later = [f for f, t in frames[closes[0][0] + 1:] if f.opcode in (0, 1, 2)]
                if later:
                    bad("data_after_close", f"{len(later)} data frame(s) written after the close frame "
                                            f"(payload {T.payload[:20]!r}); first: opcode {later[0].opcode} "
                                            f"{later[0].length} bytes",
                        "ping_timeout" if T.payload == PING_TIMEOUT_PAYLOAD else "")
            pc_valid = pc_code = pc_reason = None
            t_a = None
            if peer_close is not None:
                t_a, pl = peer_close
                if len(pl) >= 2:
                    pc_code = int.from_bytes(pl[:2], "big")
                    try:
                        pc_reason = pl[2:].decode("utf-8")
                        pc_valid = True
                    except UnicodeDecodeError:
                        pc_valid = False
                elif len(pl) == 0:
                    pc_valid = True
                else:
                    pc_valid = False
            # discriminator for keys: the kind of (invalid) close payload the peer sent, if any
            pck = ""
            if pc_valid is False:
                pck = "one_byte_close" if len(peer_close[1]) == 1 else "close_reason_not_utf8"
            own = [p for (t, p) in side.local_closes if t_s is not None and t <= t_s]
            if side.ping and side.ping[0]:
                own.append(PING_TIMEOUT_PAYLOAD)
            # R3 echo
            echoed = False
            if T is not None and pc_valid and pc_code is not None and t_a is not None and t_a <= t_s:
                tcode = int.from_bytes(T.payload[:2], "big") if len(T.payload) >= 2 else None
                if tcode == pc_code and T.payload not in own:
                    echoed = True
                elif T.payload not in own:
                    bad("close.echo", f"peer's close (code {pc_code}) arrived at {t_a}, this side's close "
                                      f"frame written at {t_s} carries {T.payload[:20]!r}: neither the "
                                      f"peer's code nor a locally requested close")
            # the 5 s run from the moment this side *decided* to close: the close() call when the
            # frame on the wire is the application's; otherwise the frame's send time, usable
            # only if nothing delayed its way to the socket
            t_ref = None
            if T is not None:
                mine = [t for (t, p) in side.local_closes if p == T.payload and t <= t_s]
                if mine:
                    t_ref = min(mine)
                elif not any(loop.faults.get(k) for k in ("zero_window_stall", "partial_send",
                                                          "send_eagain")):
                    t_ref = t_s
            # R4 teardown
            if t_c is None:
                bad("teardown.missing", f"socket never closed (run status {status}, phase {state['phase']}, "
                                        f"own close frame at {t_s}, peer close {peer_close and peer_close[0]}, "
                                        f"now {end_time})",
                    pck or ("after_own_close" if t_s is not None else "no_close_sent"))
            else:
                if t_s is not None and t_c > t_s + CLOSING + slack:
                    bad("teardown.late", f"socket closed at {t_c}, own close frame at {t_s}: "
                                         f"{t_c - t_s:.4f}s > 5s + {slack:.4f}s lateness allowance")
                sync_app = not any(isinstance(x, int) and x for x in knobs.get("pattern") or ())
                quiet_io = not any(k in tp for k in ("recv_cap", "defer", "delay", "cost"))
                if (t_s is not None and t_a is not None and pc_valid and sync_app and quiet_io
                        and t_a < t_s + CLOSING - slack and t_c > max(t_s, t_a) + slack + 16 * UNIT):
                    bad("teardown.slow", f"both close frames exchanged by {max(t_s, t_a)} but the socket "
                                         f"stayed open until {t_c}")
                if t_ref is not None and t_c < t_ref + CLOSING - UNIT / 2:
                    justified = (t_a is not None and t_a <= t_c) or (peer_end is not None and peer_end <= t_c)
                    if not justified:
                        bad("teardown.early", f"socket closed at {t_c}, {t_c - t_ref:.4f}s after this side "
                                              f"started closing, although neither a close frame nor FIN/RST from "
                                              f"the peer had arrived (peer close {t_a}, peer end {peer_end})")
                if t_s is not None and abs(t_c - (t_s + CLOSING)) <= slack + UNIT and \
                        (t_a is None or t_a > t_c - UNIT):
                    probe("closing_timeout_elapsed")
            # R5 notify once
            n = side.rec.closed
            if n != 1:
                bad("notify.count", f"close notification fired {n} times (run status {status}, phase "
                                    f"{state['phase']}; peer close payload "
                                    f"{peer_close[1][:24]!r} valid={pc_valid})" if peer_close else
                    f"close notification fired {n} times (run status {status}, phase {state['phase']})",
                    ("0" if n == 0 else "many") + ("/" + pck if pck else ""))
            # R6 code and reason
            if n >= 1 and pc_valid and t_a is not None and t_c is not None:
                # a graceful FIN that follows the close frame in the byte stream cannot pre-empt it
                fin_after = (not raw) and not any(loop.faults.get(k) for k in
                                                  ("close_with_unread", "peer_rst_seen", "epipe"))
                processed = echoed or (t_ref is not None and t_a <= t_c and t_c < t_ref + CLOSING - UNIT / 2
                                       and (peer_end is None or peer_end > t_c or fin_after))
                if processed:
                    got = (side.rec.close_code, side.rec.close_reason)
                    want = (pc_code, pc_reason if pc_reason else None)
                    if got != want:
                        bad("notify.code", f"application was told {got!r}, the peer's close frame said "
                                           f"{want!r}")
                    else:
                        probe("peer_code_reported")
            # R8 a close() call that raised although its arguments were fine
            for (tr, invalid, exc) in side.rejected_closes:
                if not invalid:
                    bad("close.raised", f"close() with valid arguments raised {exc} at {tr}", exc)
            # R9 the peer's close frame was processed while the connection was up (the application
            # was told its code), yet this side never sent a close frame of its own
            if (T is None and pc_valid and pc_code is not None and t_a is not None and t_c is not None
                    and t_a <= t_c and (peer_end is None or peer_end > t_c)
                    and side.rec.closed >= 1 and side.rec.close_code == pc_code
                    and not any(loop.faults.get(k) for k in NO_WIRE_GUARANTEE)):
                bad("close.echo_missing", f"peer's close frame (code {pc_code}, arrived {t_a}) was processed "
                                          f"and reported to the application, but this side never sent a "
                                          f"close frame before closing the socket at {t_c}",
                    "after_rejected_close" if side.rejected_closes else "")
            # R10 an accepted local close() on a connection that was fully open must start the
            # handshake: a close frame has to reach the wire
            if T is None and side.local_closes:
                t_l = side.local_closes[0][0]
                open_then = ((t_a is None or t_a > t_l) and (peer_end is None or peer_end > t_l)
                             and (t_c is None or t_c > t_l) and not side.ping
                             and not any(loop.faults.get(k) for k in NO_WIRE_GUARANTEE))
                if open_then:
                    bad("close.frame_missing", f"close() accepted at {t_l} on an open connection, but no "
                                               f"close frame was ever written (socket closed at {t_c})",
                        "after_rejected_close" if any(tr <= t_l for tr, _, _ in side.rejected_closes)
                        else "")
            # R11 a write on a connection nobody has started to close must not fail as "closed"
            for (tw, after_local, after_notify, outcome) in side.writes:
                if after_local or after_notify or outcome != "WebSocketClosedError" or side.ping:
                    continue
                untouched = ((t_a is None or t_a > tw) and (peer_end is None or peer_end > tw)
                             and (t_c is None or t_c > tw))
                if T is not None:
                    first_local = min((t for t, _ in side.local_closes), default=None)
                    untouched = untouched and first_local is not None and first_local > tw
                if untouched:
                    bad("write_rejected_while_open", f"write_message at {tw} raised WebSocketClosedError "
                                                     f"although neither side had started to close",
                        "after_rejected_close" if any(tr <= tw for tr, _, _ in side.rejected_closes)
                        else "")
            # R12 a write either succeeds or fails with WebSocketClosedError - from the call or
            # from the future it returned (what an application that awaits it sees)
            for (tw, after_local, after_notify, outcome) in side.writes:
                if outcome and outcome.split(":")[0] in ("raised", "future") \
                        and not outcome.endswith(":WebSocketClosedError") and outcome != "WebSocketClosedError":
                    unnoticed = (peer_end is not None and peer_end <= tw and not after_notify
                                 and (t_c is None or t_c >= tw))
                    bad("write_failed.wrong_exception",
                        f"write_message at {tw} failed with {outcome} instead of WebSocketClosedError "
                        f"(peer disconnected at {peer_end}, socket closed at {t_c}, "
                        f"after close()={after_local}, after notification={after_notify})",
                        outcome.replace(":", "_") + ("/peer_gone_unnoticed" if unnoticed else ""))
                elif outcome == "future:WebSocketClosedError":
                    probe("awaited_write_failed_with_WebSocketClosedError")
                    if peer_end is not None and peer_end <= tw and not after_notify and not after_local:
                        probe("write_after_unnoticed_peer_disconnect")
            # R7 writes after close
            for (tw, after_local, after_notify, outcome) in side.writes:
                if after_local or after_notify:
                    probe("write_after_close_attempt")
                    if outcome not in ("WebSocketClosedError", "future:WebSocketClosedError"):
                        bad("write_after_close", f"write_message at {tw} after "
                                                 f"{'close()' if after_local else 'the close notification'}"
                                                 f": {outcome}", outcome.split(":")[0])
            return {"t_s": t_s, "t_c": t_c, "t_a": t_a, "nclose": len(closes), "frames": len(frames)}

        info = {}
        if state["handshake"] is not True:
            viol.append({"rule": "handshake.failed", "key": f"handshake.failed/{mode}",
                         "msg": f"handshake did not complete: {ws.why if ws else ''} "
                                f"{state.get('connect_error', '')} status {status}"})
        elif raw:
            side = S if mode == "raw_client" else C
            info[side.name] = judge(side, None, state["peer_close"], state["peer_end"])
        else:
            fs, _ = frames_of(S)
            fc, _ = frames_of(C)

            def first_close(frames):
                for f, t in frames:
                    if f.opcode == W.OP_CLOSE:
                        return (t, f.payload)
                return None
            info["server"] = judge(S, fc, first_close(fc), C.close_times[0] if C.close_times else None)
            info["client"] = judge(C, fs, first_close(fs), S.close_times[0] if S.close_times else None)
        if status == "step_cap":
            viol.append({"rule": "run.step_cap", "key": "run.step_cap", "msg": f"{loop.iterations} iterations"})
        elif status.startswith("error"):
            viol.append({"rule": "harness.main_raised", "key": "harness.main_raised",
                         "msg": f"{status}: {getattr(env, 'main_exception', None)!r} phase {state['phase']}"})
        for m, e in env.loop_errors:
            if m and "_finish_request" in m:
                probe("handshake_finish_request_after_detach")  # known wart, not a close-sequence matter
                continue
            viol.append({"rule": "close.unhandled_exception",
                         "key": f"close.unhandled_exception/{mode}/{e}",
                         "msg": f"{m} ({e})"})
            break
        for r in env.errors():
            probe("error_logged:%s:%s" % (r[0], r[3]))

        # ------------------------------------------------------------ stats
        st = env.stats()
        probe("mode_" + mode)
        probe("template_" + str(knobs.get("template")))
        pc = state["peer_close"]
        if pc is not None:
            pl = pc[1]
            if len(pl) == 1:
                probe("peer_close_1_byte")
            elif len(pl) == 0:
                probe("peer_close_empty")
            else:
                try:
                    pl[2:].decode("utf-8")
                    probe("peer_close_code_reason" if len(pl) > 2 else "peer_close_code_only")
                except UnicodeDecodeError:
                    probe("peer_close_reason_not_utf8")
        if state["peer_end"] is not None:
            probe("peer_disconnect")
        both = 0
        crossed = False
        for name, i in info.items():
            if i["nclose"]:
                probe("tornado_sent_close")
            if i["t_s"] is not None and i["t_a"] is not None:
                both += 1
                side = S if name == "server" else C
                if abs(i["t_s"] - i["t_a"]) <= 2 * UNIT and side.local_closes and (
                        not raw or state.get("peer_close_how") == "op") and any(
                        abs(t - i["t_a"]) <= 2 * UNIT for t, _ in side.local_closes):
                    probe("crossing_closes")
                if abs(i["t_a"] - (i["t_s"] + CLOSING)) <= 2 * UNIT:
                    probe("peer_close_at_closing_deadline")
            if i["t_s"] is not None and i["t_c"] is not None and i["t_c"] - i["t_s"] >= CLOSING - UNIT:
                crossed = True
        for side in (S, C):
            frames, _ = frames_of(side)
            if any(f.opcode == W.OP_CLOSE and f.payload == PING_TIMEOUT_PAYLOAD for f, t in frames):
                probe("ping_timeout_close")
                crossed = True
            if any(f.opcode == W.OP_PING for f, t in frames):
                probe("tornado_sent_ping")
        if st["faults"].get("timer_late"):
            probe("timer_late_fired")
        started = bool(state["peer_close"] or state["peer_end"] is not None
                       or any(i["nclose"] for i in info.values()))
        wac = probes.get("write_after_close_attempt", 0)
        inflight = srec.max_in_flight > 0 or len(srec.messages) + len(crec.messages) > 0
        nontrivial = bool(state["handshake"] is True and started
                          and (both or crossed or wac or inflight))
        st["probes"].update(probes)
        outcome = {"status": status, "phase": state["phase"], "info": info,
                   "closed": [srec.closed, crec.closed]}
        return {"violations": viol, "nontrivial": nontrivial, "stats": st,
                "log_head": env.log.head, "log_full": env.log.full, "outcome": outcome}
