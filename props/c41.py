"""C41 - the fork_processes supervisor restarts exactly the failed workers.

The real tornado.process.fork_processes runs against a scripted process table
(sim/procs.py): os.fork hands out fake pids, os.wait replays a generated exit
history (exit 0, exit != 0, killed by signal with/without core flag, pids the
supervisor never forked, pids of workers it already reaped, reused pids),
sys.exit raises SystemExit, cpu_count is scripted.  The same scenario is run
once in the PARENT role and once in the CHILD role of every fork the parent
made (that fork returns 0 there).

Oracle: a supervisor model that *monitors the observed fork/wait trace* step by
step (so it stays meaningful when the code under test diverges): ids 0..n-1 are
forked once before the first wait; after a wait that reports a live worker with
an abnormal status exactly one fork follows (the restart) unless the restart
budget is exceeded, in which case RuntimeError must follow with no further
action; nothing follows a normal exit or an unknown pid; sys.exit(0) exactly
when no worker is left; otherwise the supervisor must be back in os.wait().
The id a fork carries is observed in the child role: fork_processes must
return the id the model assigned to that fork (same id as the dead worker for
restarts) and task_id() must agree, and the child must not fork/wait/exit.
"""

import random as _random

from sim.env import SimEnv
from sim.procs import (Installed, ProcWorld, ProcessExit, ScriptEnd, SeamBreach,
                       decode_status, event_ok, exit_status, signal_status)

ID = "C41"
LEVEL = "exploration"
QUICK_N = 20000
THOROUGH_N = 800000
CHUNK = 500
RULE = ("gen(seed): n in 1..3 (given directly or as None/0/-1 + scripted cpu_count), max_restarts "
        "0..3, a wait history aimed at the budget edge (abnormal exits = budget-1..budget+2, mixed "
        "with normal exits, foreign pids, stale pids, optional drain of normal exits), pid-reuse "
        "tape; parent role + one child role per observed fork. non-trivial = the parent consumed "
        ">=1 wait result that is not a plain normal exit of a live worker (abnormal exit, foreign or "
        "stale pid) AND >=1 child-role replay ran; distinct = distinct scenario hash")
COMPONENTS = {
    "real": ["tornado.process.fork_processes/start_child/task_id/_reseed_random/cpu_count"],
    "stub": ["os.fork/os.wait/os.urandom/os.getpid (sim.procs.ProcWorld)", "sys.exit (raises "
             "SystemExit, recorded)", "multiprocessing.cpu_count", "pids and wait statuses "
             "(real Linux encoding, decoded by the real os.W* macros)"],
}
ASSUMPTIONS = [
    "a process is an invocation of fork_processes in a role: parent, or child of the k-th fork "
    "(that fork returns 0); module state a fork would copy (process._task_id, random state) is "
    "reset per role",
    "os.wait() never raises EINTR (PEP 475) - the code has no handling for it; a wait with no "
    "children raises ChildProcessError as the kernel does; an exhausted history means the "
    "supervisor blocks in wait forever, which is legal only while workers are alive",
    "fork never fails; max_restarts=None (=100) is not explored (budgets 0..3 per the quantifier)",
]

SIGS = [1, 2, 3, 6, 9, 11, 13, 15, 64]
CODES = [1, 1, 1, 2, 3, 127, 128, 255]


def _status(rng, kind):
    if kind == "zero":
        return exit_status(0)
    if kind == "code":
        return exit_status(rng.choice(CODES) if rng.random() < 0.6 else rng.randint(1, 255))
    return signal_status(rng.choice(SIGS), rng.random() < 0.3)


def _abnormal(rng):
    j = rng.randint(0, 2)
    if rng.random() < 0.5:
        return ["x", j, rng.choice(CODES) if rng.random() < 0.6 else rng.randint(1, 255)]
    return ["s", j, rng.choice(SIGS), 1 if rng.random() < 0.3 else 0]


def _unknown(rng):
    st = _status(rng, rng.choice(["zero", "code", "sig"]))
    if rng.random() < 0.5:
        return ["f", st]
    return ["t", rng.randint(0, 3), st]


def gen(rng, tier, index):
    n = rng.choice([1, 1, 2, 2, 2, 3, 3, 3])
    arg = 0 if rng.random() < 0.8 else rng.choice([1, 2, 3])
    mr = rng.choice([0, 1, 2, 3])
    wide = tier == "thorough" and rng.random() < 0.3
    a = rng.choice([0, max(0, mr - 1), mr, mr, mr + 1, mr + 1, mr + 2, rng.randint(0, mr + 2)])
    body = [_abnormal(rng) for _ in range(a)]
    body += [["x", rng.randint(0, 2), 0] for _ in range(rng.randint(0, n + (2 if wide else 0)))]
    body += [_unknown(rng) for _ in range(rng.choice([0, 0, 1, 1, 2, 3]) + (3 if wide else 0))]
    rng.shuffle(body)
    if rng.random() < 0.7:
        body += [["x", rng.randint(0, 2), 0] for _ in range(n + rng.randint(0, 1))]
        if rng.random() < 0.2:
            body.insert(rng.randint(0, len(body)), _unknown(rng))
    reuse = []
    if rng.random() < 0.3:
        reuse = [rng.choice([0, 0, 1, 1, 2, 3]) for _ in range(n + mr + 2)]
    if rng.random() < 0.08:
        # fault: wait() fails with ECHILD while workers are still in the supervisor's table
        body.insert(rng.randint(0, len(body)), ["e"])
    return {"property": ID, "version": 1, "n": n, "arg": arg, "max_restarts": mr,
            "events": body, "reuse": reuse, "tapes": {}}


def validate(scn):
    try:
        return (isinstance(scn["n"], int) and 1 <= scn["n"] <= 4
                and scn["arg"] in (0, 1, 2, 3)
                and isinstance(scn["max_restarts"], int) and 0 <= scn["max_restarts"] <= 8
                and isinstance(scn["events"], list) and all(event_ok(e) for e in scn["events"])
                and all(isinstance(r, int) and r >= 0 for r in scn.get("reuse", [])))
    except Exception:
        return False


def _abn(status):
    k, v = decode_status(status)
    return k == "signal" or (k == "exit" and v != 0)


def _invoke(tp, arg, mr):
    """One process: call fork_processes, classify how it ended."""
    try:
        out = ("returned", tp.fork_processes(arg, mr))
    except SystemExit as e:
        out = ("exit", e.code if (e.code is None or isinstance(e.code, int)) else repr(e.code))
    except ScriptEnd:
        out = ("blocked",)
    except ProcessExit as e:
        out = ("_exit", e.code)
    except SeamBreach:
        raise
    except Exception as e:
        out = ("raised", type(e).__name__, str(e)[:60])
    return out, tp.task_id()


def monitor(n, mr, trace, outcome, bad, probe):
    """Supervisor model run over the observed trace.  Returns the expected id per fork."""
    live = {}  # pid -> id (model's view)
    pending = list(range(n))  # ids that must be forked next, in order
    fork_ids = []
    restarts = 0
    finished = None  # None | "exit0" | "raise"
    wait_error = False
    last = "start"
    nonplain = 0
    for ent in trace:
        what = ent[0]
        if what == "fork":
            if finished is not None or not pending:
                why = ("after_budget_exceeded" if finished == "raise" else
                       "after_all_exited" if finished == "exit0" else "after_" + last)
                bad("supervisor.unexpected_fork", f"fork #{len(fork_ids)} (pid {ent[1]}) {why}: "
                    f"no worker was due to be (re)started", f"supervisor.unexpected_fork/{why}")
                fork_ids.append(None)
                if ent[1]:
                    live[ent[1]] = None
                continue
            wid = pending.pop(0)
            fork_ids.append(wid)
            if ent[1]:
                if ent[1] in live:
                    bad("harness.pid_collision", f"pid {ent[1]} handed out while alive")
                live[ent[1]] = wid
            if last == "abnormal":
                probe("restart")
        elif what == "wait":
            if pending:
                bad("supervisor.missing_start", f"waited while worker id(s) {pending} were due to be "
                    f"{'re' if last == 'abnormal' else ''}started",
                    "supervisor.missing_start/" + ("restart" if last == "abnormal" else "initial"))
                pending = []
            if finished is not None:
                bad("supervisor.continued_after_end", f"os.wait() after the supervisor should have "
                    f"{'failed' if finished == 'raise' else 'exited'}",
                    "supervisor.continued_after_end/" + finished)
            pid, status = ent[1], ent[2]
            if pid not in live:
                last = "unknown_pid"
                nonplain += 1
                probe("unknown_pid_" + ent[3])
                continue
            wid = live.pop(pid)
            if _abn(status):
                nonplain += 1
                last = "abnormal"
                restarts += 1
                probe("abnormal_signal" if decode_status(status)[0] == "signal" else "abnormal_code")
                if status & 0x80 and decode_status(status)[0] == "signal":
                    probe("signal_with_core_flag")
                if restarts > mr:
                    if finished is None:
                        finished = "raise"
                        probe("budget_exceeded")
                        if not live:
                            probe("budget_exceeded_by_last_worker")
                elif wid is not None:
                    pending.append(wid)
                    if restarts == mr:
                        probe("restart_exactly_at_budget")
            else:
                last = "normal_exit"
            if not live and not pending and finished is None:
                finished = "exit0"
        elif what == "wait_error":
            # injected fault: the kernel has no children left although the model's table has.
            # Nothing more can be learned about the workers; what remains checkable is the
            # statement's "exits successfully only after every worker exited normally".
            if pending:
                bad("supervisor.missing_start", f"waited while worker id(s) {pending} were due",
                    "supervisor.missing_start/" + ("restart" if last == "abnormal" else "initial"))
                pending = []
            if finished is not None:
                bad("supervisor.continued_after_end", "os.wait() after the supervisor should have "
                    f"{'failed' if finished == 'raise' else 'exited'}",
                    "supervisor.continued_after_end/" + finished)
            else:
                wait_error = True
                nonplain += 1
                probe("wait_failed_with_workers_in_table")
            last = "wait_error"
            break
        elif what in ("wait_echild", "wait_blocks"):
            if pending:
                bad("supervisor.missing_start", f"waited while worker id(s) {pending} were due",
                    "supervisor.missing_start/" + ("restart" if last == "abnormal" else "initial"))
                pending = []
        elif what == "sys_exit":
            pass
    kind = outcome[0]
    if wait_error and kind in ("exit", "raised", "_exit"):
        # after the wait failure the supervisor may fail in any way, but must not report success
        if kind == "raised" or outcome[1] not in (0, None):
            probe("supervisor_failed_after_wait_error")
        else:
            bad("supervisor.exit_too_early", f"sys.exit({outcome[1]!r}) after os.wait() failed with "
                f"ECHILD: worker(s) {sorted(x for x in live.values() if x is not None)} were never "
                "seen to exit normally", "supervisor.exit_too_early/wait_error")
    elif kind == "exit":
        if finished == "exit0" and not pending:
            probe("exit0_reached")
            if outcome[1] not in (0, None):
                bad("supervisor.exit_code", f"sys.exit({outcome[1]!r}) after a clean shutdown")
        elif finished == "raise":
            bad("supervisor.exit_after_budget_exceeded", "sys.exit instead of failing: restart "
                f"budget {mr} was exceeded ({restarts} abnormal exits)")
        else:
            bad("supervisor.exit_too_early", f"sys.exit({outcome[1]!r}) while worker(s) "
                f"{sorted(x for x in live.values() if x is not None)} alive / {pending} due to be "
                f"restarted", "supervisor.exit_too_early/" + ("pending" if pending else "live"))
    elif kind == "raised":
        if outcome[1] != "RuntimeError" or "restart" not in outcome[2]:
            bad("supervisor.unexpected_exception", f"{outcome[1]}: {outcome[2]} (after {last})",
                f"supervisor.unexpected_exception/{outcome[1]}/after_{last}")
        elif finished != "raise":
            bad("supervisor.gave_up_early", f"RuntimeError after {restarts} abnormal exit(s) with "
                f"max_restarts={mr}", "supervisor.gave_up_early")
    elif kind == "blocked":
        probe("blocked_in_wait_at_end_of_history")
        if finished is not None:
            pass  # already reported as continued_after_end when the wait was seen
    elif kind == "returned":
        bad("supervisor.parent_returned", f"fork_processes returned {outcome[1]!r} in the parent")
    else:
        bad("supervisor.unexpected_end", repr(outcome))
    return fork_ids, restarts, finished, nonplain


def run(scn, full_log=False):
    from tornado import process as tp

    n = scn["n"]
    mr = scn["max_restarts"]
    arg = {0: n, 1: None, 2: 0, 3: -1}[scn["arg"]]
    events = scn["events"]
    reuse = scn.get("reuse", [])
    viol = []
    probes = {}
    outcome = {}

    def bad(rule, msg, key=None):
        viol.append({"rule": rule, "key": key or rule, "msg": msg})

    def probe(name, k=1):
        probes[name] = probes.get(name, 0) + k

    with SimEnv(scn.get("tapes"), full_log=full_log) as env:
        log = env.log
        world = ProcWorld(log, events=events, reuse=reuse, child_at=None, cpus=n)
        with Installed(world, env.breaches) as inst:
            # ---- parent role -----------------------------------------------------------
            log.ev("role", "parent")
            pout, ptid = _invoke(tp, arg, mr)
            log.ev("outcome", *pout)
            ptrace = list(world.trace)
            fork_ids, restarts, finished, nonplain = monitor(n, mr, ptrace, pout, bad, probe)
            if ptid is None:
                probe("parent_task_id_none")  # documented, but not part of the C41 statement
            outcome["parent"] = pout
            outcome["forks"] = len(world.forks)
            faults = dict(world.faults)
            if scn["arg"]:
                probe("num_processes_from_cpu_count")
            if world.faults.get("pid_reused"):
                probe("pid_reused")
            # ---- child roles -----------------------------------------------------------
            nforks = len(world.forks)
            children = []
            for k in range(min(nforks, 16)):
                inst.reset_process_state()
                cw = inst.use(ProcWorld(log, events=events, reuse=reuse, child_at=k, cpus=n))
                log.ev("role", k)
                r0 = _random.getstate()[1][:3]
                cout, ctid = _invoke(tp, arg, mr)
                log.ev("outcome", *cout)
                log.ev("task_id", ctid)
                children.append((cout, ctid))
                probe("child_role_runs")
                restart = k >= n
                tag = "restart" if restart else "initial"
                if restart:
                    probe("child_role_of_restart")
                if cw.urandom_calls and _random.getstate()[1][:3] != r0:
                    probe("child_reseeded_random")
                # identical history up to the fork
                idx = [i for i, e in enumerate(cw.trace) if e[0] == "fork"]
                if len(idx) <= k or cw.trace[idx[k]] != ("fork", 0):
                    bad("harness.child_role_not_reached", f"fork #{k} not reached in the child role")
                    continue
                pidx = [i for i, e in enumerate(ptrace) if e[0] == "fork"][k]
                if cw.trace[:idx[k]] != ptrace[:pidx]:
                    bad("harness.role_divergence", f"child role {k}: history before the fork differs "
                        "from the parent role")
                    continue
                after = cw.trace[idx[k] + 1:]
                want = fork_ids[k] if k < len(fork_ids) else None
                if cout[0] != "returned":
                    bad("child.did_not_return", f"child of fork #{k} (expected id {want}): "
                        f"fork_processes ended with {cout!r}; actions after fork: {after[:4]}",
                        f"child.did_not_return/{tag}/{cout[0]}")
                    continue
                if after:
                    bad("child.acted_as_parent", f"child of fork #{k} went on to {after[:4]}",
                        f"child.acted_as_parent/{tag}")
                if want is None:
                    continue  # the parent-side violation was already reported
                if cout[1] != want:
                    bad("child.wrong_task_id", f"child of fork #{k} ({tag}): fork_processes returned "
                        f"{cout[1]!r}, the model says id {want}", f"child.wrong_task_id/{tag}")
                if ctid != cout[1]:
                    bad("child.task_id_disagrees", f"child of fork #{k}: returned {cout[1]!r} but "
                        f"task_id()={ctid!r}", f"child.task_id_disagrees/{tag}")
            outcome["children"] = children
        # every id 0..n-1 started exactly once initially is implied by the monitor
        # (pending list); make the count explicit for the evidence
        if finished == "exit0":
            probe("clean_shutdown")
        st = env.stats()
        for k_, v in faults.items():
            st["faults"][k_] = st["faults"].get(k_, 0) + v
        st["probes"].update(probes)
        nontrivial = nonplain >= 1 and len(outcome.get("children", ())) >= 1
        return {"violations": viol, "nontrivial": nontrivial, "stats": st,
                "log_head": env.log.head, "log_full": env.log.full, "outcome": outcome}
