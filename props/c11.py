"""C11 - IOStream reads return exactly the incoming bytes, in order.

Real tornado.iostream.IOStream over a SimSocket.  A raw peer delivers a byte
stream under an arrival pattern (segments with gaps, then FIN); a reader task
issues a generated sequence of read requests; recv_into() results are capped
by the recv_cap tape (short reads), the poller may defer, reorder or
spuriously report readiness.  Oracle: cursor model over the sent stream.
"""

import re

from sim.env import SimEnv, UNIT
from sim.tape import jsonable

ID = "C11"
LEVEL = "exploration"
QUICK_N = 40000
THOROUGH_N = 600000
CHUNK = 400
RULE = ("gen(seed): stream over a delimiter-rich alphabet, arrival segments with gaps, "
        "recv_cap/defer/spurious tapes, read_chunk_size knob, op list of read_bytes/"
        "read_into/read_until/read_until_regex/read_until_close with pauses. "
        "non-trivial = >=2 reads issued AND >=2 reads completed with data AND (>=2 distinct arrival instants or a short read "
        "fired) AND at least one read completed from the event handler (not inline); "
        "distinct = distinct scenario hash")
COMPONENTS = {
    "real": ["tornado.iostream.IOStream/BaseIOStream", "tornado.platform.asyncio.BaseAsyncIOLoop",
             "tornado.ioloop.IOLoop", "asyncio.Future/Task/Handle"],
    "stub": ["event loop poller+clock (sim.loop.SimLoop)", "socket (sim.net.SimSocket)",
             "remote peer (sim.net.RawPeer)"],
}
ASSUMPTIONS = [
    "SimSocket models a non-blocking TCP socket: recv_into returns 1..n available bytes, "
    "EAGAIN when empty, 0 after FIN",
    "regex contract: any match end that some arrival prefix could produce is accepted",
]

DELIMS = [b"\r\n", b"\r\n\r\n", b"\n", b"ab", b"aab", b"\x00", b"abcab"]
REGEXES = [rb"\r?\n\r?\n", rb"a+b", rb"[0-9]x", rb"\n", rb"ab|ba", rb"c{2}"]
ALPHAS = [b"ab", b"\r\n", b"\r\nab", b"ab\x00c", b"abc", b"01x\n", b"\r\n\r\nabcd0123"]
CHUNKS = [1, 2, 3, 5, 7, 16, 17, 64, 255, 4096, 65536]


def expand_stream(spec):
    if isinstance(spec, str):
        return bytes.fromhex(spec[4:]) if spec.startswith("hex:") else spec.encode("latin1")
    alpha = bytes.fromhex(spec["alpha"])
    n = spec["len"]
    x = spec["seed"] & 0x7FFFFFFF
    out = bytearray(n)
    k = len(alpha)
    for i in range(n):
        x = (x * 1103515245 + 12345) & 0x7FFFFFFF
        out[i] = alpha[(x >> 16) % k]
    return bytes(out)


def gen(rng, tier, index):
    big = tier == "thorough" and rng.random() < 0.15
    alpha = rng.choice(ALPHAS)
    if big:
        n = rng.choice([5000, 20000, 65535, 65536, 65537, 140000, 262144])
        stream_spec = {"alpha": alpha.hex(), "len": n, "seed": rng.getrandbits(30)}
    else:
        n = rng.choice([0, 1, 5, 17, 40, 100, 100, 300, 300, 600]) if tier == "quick" else \
            rng.choice([0, 1, 7, 64, 300, 1000, 4096, 4100])
        n = max(0, n + rng.randint(-3, 3)) if n > 3 else n
        stream_spec = "hex:" + bytes(rng.choice(alpha) for _ in range(n)).hex()
    data = expand_stream(stream_spec)
    chunk = rng.choice(CHUNKS)
    # ---- ops
    nops = rng.randint(1, 9 if not big else 14)
    ops = []
    pos = 0  # cursor while it is known (None after a partial read)
    for i in range(nops):
        k = rng.random()
        pause = rng.choice([0, 0, 0, -1, 1, 2, 5])  # -1: wait for idle
        rem = (len(data) - pos) if pos is not None else len(data)
        if k < 0.28:
            base = rng.choice([0, 1, 2, chunk - 1, chunk, chunk + 1, 2 * chunk, rem, rem + 1,
                               rng.randint(0, 40)])
            base = max(0, min(base, 300000))
            if base > rem and rng.random() < 0.8:
                base = rng.randint(0, rem)  # mostly satisfiable: keep the stream alive
            partial = rng.random() < 0.35
            ops.append({"op": "bytes", "n": base, "partial": partial, "pause": pause})
            if partial and base > 0:
                pos = None
            elif pos is not None:
                pos = min(len(data), pos + base)
        elif k < 0.45:
            base = rng.choice([0, 1, 2, chunk - 1, chunk, chunk + 1, 2 * chunk + 1, rem,
                               rng.randint(0, 40)])
            base = max(0, min(base, 300000))
            if base > rem and rng.random() < 0.8:
                base = rng.randint(0, rem)
            partial = rng.random() < 0.35
            ops.append({"op": "into", "n": base, "partial": partial, "pause": pause})
            if partial and base > 0:
                pos = None
            elif pos is not None:
                pos = min(len(data), pos + base)
        elif k < 0.75:
            cands = [d for d in DELIMS if any(c in alpha for c in d)] or DELIMS
            d = rng.choice(cands)
            if pos is not None and rng.random() < 0.8:
                present = [x for x in cands if data.find(x, pos) >= 0]
                if present:
                    d = rng.choice(present)
            mx = None
            if rng.random() < 0.5:
                if pos is not None:
                    j = data.find(d, pos)
                    dist = (j + len(d) - pos) if j >= 0 else rem
                    mx = max(1, rng.choice([dist - 1, dist, dist, dist + 1, dist + 1, dist // 2,
                                            dist * 2, dist * 2]))
                    if rng.random() < 0.06:
                        mx = 0  # legal limit: the first buffered byte makes the read unsatisfiable
                else:
                    mx = rng.choice([1, 2, 5, 20, 100, 5000])
            ops.append({"op": "until", "delim": "hex:" + d.hex(), "max": mx, "pause": pause})
            if pos is not None:
                j = data.find(d, pos)
                pos = (j + len(d)) if j >= 0 and (mx is None or j + len(d) - pos <= mx) else None
        elif k < 0.93:
            r = rng.choice(REGEXES)
            mx = rng.choice([None, None, None, None, 1, 3, 10, 50, 1000, 1, 3, 10, 50, 1000, 0])
            ops.append({"op": "regex", "re": r.decode("latin1"), "max": mx, "pause": pause})
            pos = None
        else:
            ops.append({"op": "close", "pause": pause})
            break
    # ---- arrival pattern
    segs = []
    mode = rng.random()
    left = len(data)
    while left > 0:
        if mode < 0.2:
            ln = 1
        elif mode < 0.4:
            ln = rng.randint(1, 4)
        elif mode < 0.6:
            ln = rng.choice([chunk - 1, chunk, chunk + 1, 2 * chunk, 1, 2, 3])
        elif mode < 0.8:
            ln = rng.randint(1, max(1, len(data)))
        else:
            ln = left
        ln = max(1, min(ln, left))
        if len(segs) > 600:
            ln = left
        segs.append([ln, rng.choice([0, 1, 1, 1, 2, 7])])
        left -= ln
    tapes = {}
    t = rng.random()
    if t < 0.25:
        tapes["recv_cap"] = {"v": [1], "cycle": True} if len(data) < 3000 else \
            {"v": [rng.randint(100, 5000)], "cycle": True}
    elif t < 0.6:
        tapes["recv_cap"] = {"v": [rng.choice([0, 0, 1, 2, 3, chunk, max(1, chunk - 1), 9])
                                   for _ in range(rng.randint(1, 12))],
                             "cycle": rng.random() < 0.5}
    if rng.random() < 0.2:
        tapes["spurious"] = [rng.choice([0, 1]) for _ in range(10)]
    if rng.random() < 0.2:
        tapes["defer"] = [rng.choice([0, 1]) for _ in range(10)]
    if rng.random() < 0.15:
        tapes["late"] = [rng.choice([0, 1, 3]) for _ in range(6)]
    mbs = None
    r_mbs = rng.random()
    if r_mbs < 0.25:
        mbs = 2 * len(data) + 2 * chunk + 16
    elif r_mbs < 0.40 and len(data) >= 4:
        # exactly the stream length: the buffer can never hold more than the limit, so the
        # limit must never trip ("reached" is not "exceeded")
        mbs = len(data)
    if not big and rng.random() < 0.12:
        # small buffer, bounded reads: every read needs at most `need` buffered bytes and the
        # effective chunk is <= mbs // 2, so the buffer (< need + chunk <= mbs) can never
        # legitimately overflow, however much the peer sends while the stream sits idle
        for o in ops:
            if o["op"] in ("bytes", "into"):
                o["n"] = min(o["n"], 64)
            elif o["op"] in ("until", "regex"):
                o["max"] = min(o["max"], 64) if o.get("max") is not None else \
                    rng.choice([5, 20, 50, 64])
            elif o["op"] == "close":
                o.clear()
                o.update({"op": "bytes", "n": 1, "partial": False, "pause": -1})
            if rng.random() < 0.5:
                o["pause"] = rng.choice([-1, -1, 5])
        need = max([1] + [o["n"] if o["op"] in ("bytes", "into") else o["max"] for o in ops])
        mbs = 2 * need + rng.choice([0, 0, 1, 2, 16])
    return {
        "property": ID, "version": 1,
        "knobs": {"read_chunk_size": chunk, "max_buffer_size": mbs,
                  "close_cb": rng.random() < 0.4},
        "stream": stream_spec,
        "segments": segs,
        "fin_gap": rng.choice([0, 0, 1, 3]),
        "ops": ops,
        "tapes": tapes,
    }


def validate(scn):
    try:
        data = expand_stream(scn["stream"])
        mbs = scn["knobs"].get("max_buffer_size")
        if mbs:
            # keep the shrinker inside configurations where the buffer limit can never
            # legitimately trip (mbs < 2 makes read_chunk_size 0, i.e. every recv looks like EOF)
            if mbs < 2:
                return False
            if mbs < len(data):
                ch = min(scn["knobs"]["read_chunk_size"], mbs // 2)
                for o in scn["ops"]:
                    need = o.get("n") if o["op"] in ("bytes", "into") else o.get("max")
                    if o["op"] == "close" or need is None or need + ch - 1 > mbs:
                        return False
        return (all(isinstance(s, list) and len(s) == 2 and s[0] >= 1 for s in scn["segments"])
                and all(isinstance(o, dict) and "op" in o for o in scn["ops"])
                and scn["knobs"]["read_chunk_size"] >= 1 and len(data) >= 0)
    except Exception:
        return False


def _regex_ends(rx, data, pos, limit=4096):
    """All match ends (relative) that some arrival prefix can produce."""
    ends = set()
    view = data[pos:pos + limit]
    for ln in range(1, len(view) + 1):
        m = rx.search(view[:ln])
        if m is not None:
            ends.add(m.end())
            if len(ends) > 8:
                break
    return ends


def run(scn, full_log=False):
    from tornado.iostream import IOStream, StreamClosedError, UnsatisfiableReadError

    data = expand_stream(scn["stream"])
    knobs = scn["knobs"]
    ops = scn["ops"]
    viol = []
    probes = {}
    outcome = []

    def bad(rule, msg, key=None):
        viol.append({"rule": rule, "key": key or rule, "msg": msg})

    def probe(name):
        probes[name] = probes.get(name, 0) + 1

    with SimEnv(scn.get("tapes"), max_iters=400_000, full_log=full_log) as env:
        net = env.net
        boundaries = set()  # absolute stream offsets at which a recv ended
        state = {"handler_done": 0, "inline_done": 0, "issued": 0}

        async def main():
            sock, peer = net.pair()
            kw = {"read_chunk_size": knobs["read_chunk_size"]}
            if knobs.get("max_buffer_size"):
                kw["max_buffer_size"] = knobs["max_buffer_size"]
            stream = IOStream(sock, **kw)
            closed_cb = []
            if knobs.get("close_cb"):
                stream.set_close_callback(lambda: closed_cb.append(1))
            # wire boundaries probe
            orig_recv = sock.recv_into

            def recv_into(buf, n=0):
                k = orig_recv(buf, n)
                if k:
                    boundaries.add(sock.rx.read_total)
                return k
            sock.recv_into = recv_into
            off = 0
            first = True
            for ln, gap in scn["segments"]:
                if off >= len(data):
                    break
                peer.send(data[off:off + ln], gap=0 if first else gap)
                first = False
                off += ln
            sent = min(off, len(data))
            peer.half_close(gap=scn.get("fin_gap", 0))
            total = data[:sent]
            pos = 0
            dirty = False  # stream closed by max_bytes: buffered amount is arrival-dependent
            failed_once = False  # a read failed: the stream is closed from here on
            for i, op in enumerate(ops):
                p = op.get("pause", 0)
                if p == -1:
                    await env.loop.idle()
                elif p:
                    import asyncio
                    await asyncio.sleep(p * UNIT)
                kind = op["op"]
                state["issued"] += 1
                buf = None
                try:
                    if kind == "bytes":
                        fut = stream.read_bytes(op["n"], partial=op.get("partial", False))
                    elif kind == "into":
                        buf = bytearray(op["n"])
                        fut = stream.read_into(buf, partial=op.get("partial", False))
                    elif kind == "until":
                        d = bytes.fromhex(op["delim"][4:])
                        fut = stream.read_until(d, max_bytes=op.get("max"))
                    elif kind == "regex":
                        fut = stream.read_until_regex(op["re"].encode("latin1"),
                                                      max_bytes=op.get("max"))
                    elif kind == "close":
                        fut = stream.read_until_close()
                    else:
                        raise ValueError(kind)
                    if fut.done():
                        state["inline_done"] += 1
                    else:
                        state["handler_done"] += 1
                    res = await fut
                    err = None
                except StreamClosedError as e:
                    res = None
                    err = ("closed", type(e.real_error).__name__ if e.real_error else None)
                except Exception as e:  # anything else is never part of the contract
                    res = None
                    err = ("exc", type(e).__name__)
                    if failed_once and stream.closed():
                        # reads issued on a closed stream after an earlier read failed: the
                        # property constrains what they may *return*, not how they fail
                        probe("read_after_failure_raised_" + type(e).__name__)
                        outcome.append((kind, err))
                        continue
                    bad("read.unexpected_exception", f"op {i} {kind}: {type(e).__name__}: {e}",
                        f"read.unexpected_exception/{kind}/{type(e).__name__}")
                    outcome.append((kind, err))
                    break
                rem = len(total) - pos
                if err is not None:
                    if failed_once:
                        outcome.append((kind, err))
                        probe("read_after_failure")
                        continue
                    failed_once = True
                    if not stream.closed():
                        bad("read.failed_but_stream_open", f"op {i} {kind}: {err}")
                elif kind != "into" and not isinstance(res, bytes):
                    bad("read.result_type", f"op {i} {kind} returned {type(res).__name__} "
                        f"{res!r} instead of bytes", f"read.result_type/{kind}")
                    outcome.append((kind, repr(res)))
                    break
                env.log.ev("res", i, kind, len(res) if isinstance(res, bytes) else res,
                           err[1] if err else None)
                outcome.append((kind, err if err else (res if isinstance(res, int) else len(res))))
                # ---- oracle
                if kind in ("bytes", "into"):
                    n = op["n"]
                    partial = op.get("partial", False)
                    if err is None:
                        if kind == "into":
                            cnt = res
                            got = bytes(buf[:cnt])
                            if not isinstance(cnt, int):
                                bad("into.result_type", f"op {i}: {cnt!r}")
                                break
                        else:
                            got = res
                            cnt = len(res)
                        if partial:
                            ok_len = (1 <= cnt <= n) if n > 0 else cnt == 0
                        else:
                            ok_len = cnt == n
                        if not ok_len:
                            bad("read.length_contract",
                                f"op {i} {kind} n={n} partial={partial} returned {cnt} bytes",
                                f"read.length_contract/{kind}")
                        if got != total[pos:pos + cnt]:
                            bad("read.wrong_bytes",
                                f"op {i} {kind}: got {got[:24]!r}.. expected "
                                f"{total[pos:pos + cnt][:24]!r}.. at stream offset {pos}",
                                f"read.wrong_bytes/{kind}")
                            break
                        if kind == "into" and cnt < len(buf) and any(buf[cnt:]) and not dirty:
                            # bytes beyond the reported count must not be garbage from
                            # elsewhere in the stream beyond what was legitimately read
                            pass
                        pos += cnt
                        if dirty and cnt > rem:
                            bad("read.after_close_invented", f"op {i}")
                    else:
                        need = 1 if (partial and n > 0) else n
                        if rem >= need and not dirty:
                            bad("read.failed_though_satisfiable",
                                f"op {i} {kind} n={n} partial={partial}: {err}, {rem} bytes "
                                f"remained at offset {pos}",
                                f"read.failed_though_satisfiable/{kind}")
                        else:
                            probe("eof_with_pending_read")
                            if kind == "into":
                                # the bytes that did arrive were moved into the caller's
                                # buffer by the failed read: nothing is left in the stream
                                pos = len(total)
                elif kind == "until":
                    d = bytes.fromhex(op["delim"][4:])
                    mx = op.get("max")
                    j = total.find(d, pos)
                    exp = (j + len(d) - pos) if j >= 0 else None
                    if err is None:
                        if exp is None or len(res) != exp or res != total[pos:pos + exp]:
                            bad("until.wrong_result",
                                f"op {i}: got {len(res)} bytes {res[:24]!r}.., expected "
                                f"{exp} at offset {pos}", "until.wrong_result")
                            break
                        if mx is not None and len(res) > mx:
                            bad("until.exceeds_max_bytes",
                                f"op {i}: returned {len(res)} > max_bytes {mx}")
                        if mx is not None and len(res) == mx:
                            probe("max_bytes_exact")
                        if len(d) > 1 and any(pos + exp - len(d) < b < pos + exp
                                              for b in boundaries):
                            probe("delimiter_straddles_recv")
                        pos += exp
                    else:
                        if exp is not None and (mx is None or exp <= mx) and not dirty:
                            bad("until.failed_though_satisfiable",
                                f"op {i}: {err}; delimiter ends {exp} bytes after offset {pos}, "
                                f"max={mx}")
                        elif exp is not None and mx is not None and exp > mx:
                            probe("max_bytes_exceeded")
                            if not stream.closed():
                                bad("until.max_bytes_not_closed", f"op {i}")
                            dirty = True
                        elif mx is not None and rem > mx:
                            probe("max_bytes_exceeded")
                            dirty = True
                        else:
                            probe("eof_with_pending_read")
                elif kind == "regex":
                    rx = re.compile(op["re"].encode("latin1"))
                    mx = op.get("max")
                    m = rx.search(total, pos)
                    full_end = (m.end() - pos) if m else None
                    if err is None:
                        ln = len(res)
                        if res != total[pos:pos + ln]:
                            bad("regex.wrong_bytes", f"op {i}: not the bytes at offset {pos}")
                            break
                        if ln != full_end:
                            ends = _regex_ends(rx, total, pos)
                            if ln not in ends:
                                bad("regex.wrong_end",
                                    f"op {i}: returned {ln} bytes; possible match ends {sorted(ends)}")
                                break
                            probe("regex_arrival_dependent_end")
                        if mx is not None and ln > mx:
                            bad("regex.exceeds_max_bytes", f"op {i}: {ln} > {mx}")
                        pos += ln
                    else:
                        if full_end is not None and not dirty:
                            ends = _regex_ends(rx, total, pos) or {full_end}
                            if mx is None or max(ends) <= mx:
                                bad("regex.failed_though_satisfiable",
                                    f"op {i}: {err}; match ends {sorted(ends)} max={mx}")
                            else:
                                dirty = True
                        elif mx is not None and rem > mx:
                            dirty = True
                elif kind == "close":
                    if err is None:
                        if res != total[pos:] and not (dirty and total[pos:].startswith(res)):
                            bad("until_close.wrong_result",
                                f"op {i}: got {len(res)} bytes, expected {rem}")
                        pos += len(res)
                    else:
                        bad("until_close.failed", f"op {i}: {err}")
                if err is not None and err[0] == "closed" and err[1] == "UnsatisfiableReadError":
                    dirty = True
            stream.close()
            return pos

        status = env.run(main())
        if status == "hang":
            bad("read.hang", f"quiescent with a read pending after {len(outcome)} completed ops "
                             f"(stream fully delivered and FIN sent)")
        elif status in ("step_cap", "time_cap"):
            bad("read.livelock", f"{status} after {env.loop.iterations} iterations")
        elif status.startswith("error"):
            bad("harness.main_raised", f"{status}: {getattr(env, 'main_exception', None)!r}")
        for r in env.errors():
            if not (r[0] == "tornado.general" and "maximum read buffer" in r[2]):
                bad("read.error_logged", f"{r[0]} {r[1]} {r[2][:80]}", "read.error_logged")
        st = env.stats()
        st["probes"].update(probes)
        st["probes"]["inline_completion"] = state["inline_done"]
        st["probes"]["handler_completion"] = state["handler_done"]
        n_arr = sum(1 for s in scn["segments"][1:] if s[1] > 0) + 1
        ok_reads = sum(1 for o in outcome if isinstance(o[1], int))
        st["probes"]["reads_ok"] = ok_reads
        nontrivial = (state["issued"] >= 2 and ok_reads >= 2 and state["handler_done"] >= 1
                      and (n_arr >= 2 or st["faults"].get("short_read", 0) > 0))
        return {"violations": viol, "nontrivial": nontrivial, "stats": st,
                "log_head": env.log.head if not full_log else env.log.head,
                "log_full": env.log.full, "outcome": outcome}
