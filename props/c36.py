"""C36 - future combinators always settle and report the right outcome.

Real tornado.gen.multi / WaitIterator / with_timeout and
tornado.concurrent.chain_future on a SimLoop.  A scenario names up to four
distinct input futures (asyncio.Future or concurrent.futures.Future), the
outcome of each (result / exception / cancelled) and a *completion script*:
which inputs are already done before the combinator is called and in which
order, loop-iteration spacing and virtual-time spacing the others complete.
The clock is perturbed by the `late` (timers fire late) and `cost` (time passes
while callbacks run) tapes.

Oracle = the outcome tables of the property statement, evaluated from the
output futures' final states, plus liveness: when every input is done and the
loop has gone idle the output must be done; whatever is still pending at
quiescence is reported as never settling (main() itself never waits on an
output, so a stuck output can never look like a harness hang).

Readings of the statement that the oracle relies on (none demands more than
the statement):

* "CancelledError" is asyncio.CancelledError or concurrent.futures.CancelledError;
  an output that is itself cancelled counts as carrying CancelledError, and so does an input
  that failed *with* a CancelledError without being in the cancelled state (outcome "cx":
  set_exception(CancelledError()); the future of an inner multi / @gen.coroutine whose own
  input was cancelled).
* A combinator call that raises synchronously (only possible with inputs that
  are already done) is treated as an output settled with that exception, for
  multi and with_timeout (`await multi(...)` cannot tell the difference).  For
  chain_future the output is the caller's target future, so a synchronous raise
  is reported (chain.call_raised) and the target is still judged.
* with_timeout: D = call time + delay on the loop clock, t = loop time at which
  the input became done.  t < D (or input done before the call): input's outcome
  required; t > D: TimeoutError required; t == D: either (equal instants have no
  defined order).  TimeoutError before D is always a violation.
* WaitIterator completion order is a partial order: inputs already done at
  construction are unordered among themselves; two inputs completed in the same
  loop iteration or in adjacent ones, the earlier an asyncio future and the later
  a concurrent one, are unordered (an asyncio future announces completion through
  call_soon, i.e. one iteration later, a concurrent one synchronously; no
  done-callback can observe their relative order).  All other pairs are ordered.
* WaitIterator with the same future passed twice is a separate sub-batch
  (tag dup_args): "exactly once" is per distinct future, any position of that
  future is a matching index.
* Keys end in a tag naming the known defect condition *only when that
  condition is met by the run* (e.g. multi: an asyncio-cancelled input that is
  not preceded, in argument order, by an input failing with an Exception), so
  any other way of breaking the same rule gets a different key.
"""

import asyncio
import collections
import concurrent.futures as cfut
import datetime

from sim.env import SimEnv, UNIT

ID = "C36"
LEVEL = "exploration"
QUICK_N = 160000
THOROUGH_N = 6000000
CHUNK = 1000
RULE = ("gen(seed): combinator in {multi list/dict, WaitIterator args/kwargs x next()/async-for x consumer giving up on a pending "
        "next() (cancel / asyncio.wait_for) and calling next() again, "
        "with_timeout abs/timedelta x 1-2 wrappers, chain_future x target pending/done/cancelled/"
        "settled-in-between}; <=4 distinct inputs (asyncio|concurrent, result|exception|cancelled|failed with "
        "set_exception(CancelledError()); for multi also the future of an inner gen.multi / "
        "@gen.coroutine / Task over such an input; optionally a second WaitIterator alive at the "
        "same time over disjoint or overlapping inputs, possibly left undrained, "
        "completed directly or via call_soon), argument list with duplicates, the caller mutating "
        "the list/dict it passed to multi after the call (del/add/clear/reorder), inputs already done "
        "before the call, completion script of steps separated by 0 / 1 iteration / idle / k time "
        "units, deadlines placed at completion time -1/0/+1 units, consumer pauses, late+cost tapes. "
        "non-trivial (measured from completion stamps) = multi/WaitIterator: >=2 distinct inputs "
        "completed after the call in different loop iterations; with_timeout/chain_future: the "
        "input/source completed after the call (callback path, not the inline one); "
        "distinct = scenario hash")
COMPONENTS = {
    "real": ["tornado.gen.multi/multi_future", "tornado.gen.WaitIterator", "tornado.gen.with_timeout",
             "tornado.concurrent.chain_future/future_add_done_callback/future_set_*",
             "tornado.ioloop.IOLoop.add_future/add_timeout/remove_timeout/_run_callback",
             "tornado.platform.asyncio.BaseAsyncIOLoop", "asyncio.Future/Task/Handle/TimerHandle",
             "concurrent.futures.Future"],
    "stub": ["event loop poller+clock (sim.loop.SimLoop)", "wall clock (tornado.ioloop.time proxy)"],
}
ASSUMPTIONS = [
    "concurrent.futures inputs are completed from the loop thread (call_soon or the driver task); "
    "cross-thread completion belongs to C38/C40",
    "asyncio guarantees: call_soon FIFO, timers never early, done-callbacks via call_soon",
    "a synchronous raise out of multi()/with_timeout() counts as an output settled with that exception",
]

EXC_TYPES = (ValueError, KeyError, RuntimeError, OSError)
QUIET = (ValueError, KeyError)
COMBS = ("multi", "wait", "timeout", "chain")
CANCELS = ("cancel", "cx")  # cancelled state / failed with set_exception(CancelledError())
EPS = 2.0**-18  # s; only matters for timedelta deadlines that are off the 2**-10 grid


# ----------------------------------------------------------------------------
# generation


def _steps(rng, order, first_gaps, gaps):
    steps = []
    i = 0
    while i < len(order):
        k = 1 if rng.random() < 0.6 else rng.randint(1, 3)
        steps.append({"gap": rng.choice(first_gaps if not steps else gaps),
                      "fire": order[i:i + k]})
        i += k
    return steps


def gen(rng, tier, index):
    r = rng.random()
    comb = "multi" if r < 0.30 else "wait" if r < 0.62 else "timeout" if r < 0.86 else "chain"
    cancel_on = rng.random() < 0.30
    cf_on = rng.random() < 0.45
    scn = {"property": ID, "version": 1, "comb": comb}

    def mk_input():
        o = rng.random()
        out = "res" if o < 0.6 else "exc"
        if cancel_on and rng.random() < 0.4:
            out = "cancel" if rng.random() < 0.7 else "cx"
        return {"k": "cf" if cf_on and rng.random() < 0.4 else "aio", "o": out,
                "via": 1 if rng.random() < 0.3 else 0}

    gaps = [1, 1, 1, -1, 2, 2, 3, 5]
    tapes = {}
    if rng.random() < 0.25:
        tapes["late"] = [rng.choice([0, 1, 2]) for _ in range(6)]
    if rng.random() < 0.2:
        tapes["cost"] = [rng.choice([0, 0, 1]) for _ in range(10)]
    scn["tapes"] = tapes

    if comb in ("multi", "wait"):
        n = rng.choice([0, 1, 2, 2, 3, 3, 3, 4, 4, 4]) if rng.random() < 0.9 else 4
        inputs = [mk_input() for _ in range(n)]
        args = list(range(n))
        rng.shuffle(args)
        dup = n >= 1 and rng.random() < (0.22 if comb == "multi" else 0.12)
        if dup:
            for _ in range(rng.randint(1, 2)):
                if len(args) < 4:
                    args.insert(rng.randint(0, len(args)), rng.choice(args))
                else:
                    args[rng.randrange(4)] = rng.choice(args)
        args2 = None
        if comb == "multi" and rng.random() < 0.4:
            # children that are themselves futures of an inner multi / @gen.coroutine / Task
            for sp in inputs:
                if rng.random() < 0.4:
                    sp["w"] = rng.choice(["multi", "coro", "task"])
        if comb == "wait" and n >= 2 and not dup and rng.random() < 0.3:
            # a second WaitIterator alive at the same time: disjoint or overlapping inputs
            if rng.random() < 0.5:
                cut = rng.randint(1, n - 1)
                args, args2 = args[:cut], args[cut:]
            else:
                args2 = rng.sample(args, rng.randint(1, len(args)))
        scn["inputs"] = inputs
        scn["args"] = args
        if comb == "multi" and rng.random() < 0.2:
            # the caller mutates the list/dict it passed, after the call, at step `at`
            scn["mutate"] = {"op": rng.choice(["del", "add", "clear", "reorder"]),
                             "at": rng.choice([0, 0, 1])}
        scn["form"] = "dict" if rng.random() < 0.4 else "list"
        scn["quiet"] = 1 if rng.random() < 0.3 else 0
        used = sorted(set(args) | set(args2 or ()))
        pre = [i for i in used if rng.random() < 0.2]
        rng.shuffle(pre)
        rest = [i for i in used if i not in pre]
        rng.shuffle(rest)
        scn["pre"] = pre
        scn["steps"] = _steps(rng, rest, [0, 1, 1, -1, 2], gaps)
        if comb == "wait":
            scn["consumer"] = {
                "mode": "next" if rng.random() < 0.7 else "aiter",
                "pauses": [rng.choice([0, 0, 0, 1, -1, 2, 3, 6]) for _ in range(len(args) + 3)],
            }
            if args2 is not None:
                scn["args2"] = args2
                scn["consumer2"] = {"pauses": [rng.choice([0, 0, 1, -1, 2, 3])
                                               for _ in range(len(args2) + 1)]}
                if rng.random() < 0.25:
                    scn["consumer2"]["stop_after"] = rng.randint(0, len(args2))
            if scn["consumer"]["mode"] == "next" and rng.random() < 0.35:
                # the consumer gives up on some next() calls: >0 = asyncio.wait_for(fut, k units),
                # -1 = cancel the returned future at once, -2/-3 = after 1/2 iterations
                scn["consumer"]["abandon"] = [rng.choice([0, 0, 1, 1, 2, 3, -1, -2, -3])
                                              for _ in range(len(args) + 2)]
    elif comb == "timeout":
        inputs = [mk_input()]
        scn["inputs"] = inputs
        pre = [0] if rng.random() < 0.12 else []
        scn["pre"] = pre
        steps = []
        t = 0
        for _ in range(rng.randint(0, 2)):  # empty steps: time passes before the completion
            g = rng.choice([1, 2, 3, 4])
            steps.append({"gap": g, "fire": []})
            t += max(0, g - 1)
        g = rng.choice([0, 1, -1, 2, 2, 3, 5])
        t += max(0, g - 1)
        if not pre:
            steps.append({"gap": g, "fire": [0]})
        if rng.random() < 0.3:
            steps.append({"gap": rng.choice([1, 2, 4]), "fire": []})
        scn["steps"] = steps
        dls = []
        for _ in range(1 if rng.random() < 0.75 else 2):
            d = rng.choice([t - 1, t, t, t + 1, t + 1, 0, 1, t + 4, t + 40])
            dls.append({"form": "td" if rng.random() < 0.5 else "abs", "delay": max(0, d)})
        scn["deadlines"] = dls
        if any(d["form"] == "td" for d in dls) or rng.random() < 0.2:
            scn["scale"] = 64  # timedelta is exact for multiples of 2**-4 s only
        scn["quiet"] = 1 if rng.random() < 0.3 else 0
    else:
        inputs = [mk_input()]
        scn["inputs"] = inputs
        tp = rng.random()
        target = {"k": "cf" if cf_on and rng.random() < 0.35 else "aio",
                  "pre": "pending" if tp < 0.6 else "done" if tp < 0.8 else "cancelled"}
        scn["target"] = target
        pre = [0] if rng.random() < 0.2 else []
        scn["pre"] = pre
        steps = []
        if rng.random() < 0.3:
            steps.append({"gap": rng.choice([0, 1, 2]), "fire": []})
        fire = [] if pre else [0]
        if target["pre"] == "pending" and rng.random() < 0.3:
            tok = rng.choice([-1, -2])
            if rng.random() < 0.5:
                steps.append({"gap": rng.choice([0, 1, 2]), "fire": [tok]})
            else:
                fire = [tok] + fire
        steps.append({"gap": rng.choice([0, 1, 1, -1, 2, 3]), "fire": fire})
        scn["steps"] = steps
    return scn


def validate(scn):
    try:
        if scn.get("comb") not in COMBS:
            return False
        inputs = scn["inputs"]
        n = len(inputs)
        for sp in inputs:
            if sp["k"] not in ("aio", "cf") or sp["o"] not in ("res", "exc", "cancel", "cx"):
                return False
            if sp.get("w") not in (None, "multi", "coro", "task"):
                return False
        if scn["comb"] in ("multi", "wait"):
            if len(scn["args"]) > 4 or any(not (0 <= a < n) for a in scn["args"]):
                return False
            a2 = scn.get("args2")
            if a2 is not None and (not isinstance(a2, list) or len(a2) > 4
                                   or any(not (0 <= a < n) for a in a2)):
                return False
        elif n < 1:
            return False
        if scn["comb"] == "timeout" and not scn.get("deadlines"):
            return False
        if scn["comb"] == "chain" and scn["target"]["pre"] not in ("pending", "done", "cancelled"):
            return False
        for st in scn.get("steps", ()):
            if not isinstance(st, dict) or not isinstance(st.get("fire", []), list):
                return False
        return True
    except Exception:
        return False


# ----------------------------------------------------------------------------
# helpers


class LoopThreadBlocked(Exception):
    """Raised instead of blocking: see _CF."""


class _CF(cfut.Future):
    """concurrent.futures.Future whose blocking waits cannot block the simulation.

    Everything runs on the loop thread, which is also the only thread that will ever complete
    the future: result()/exception() on a pending future without timeout would block it for
    ever (in production: the IOLoop thread stuck in Condition.wait).  The run records that as a
    violation (`<combinator>.blocks_loop_thread`) and raises instead of deadlocking the worker.
    """

    blocked = None  # set per run: callable(kind)

    def result(self, timeout=None):
        if not self.done():
            if self.blocked is not None:
                self.blocked("result")
            raise LoopThreadBlocked("result() called on a pending concurrent future")
        return super().result(0)

    def exception(self, timeout=None):
        if not self.done():
            if self.blocked is not None:
                self.blocked("exception")
            raise LoopThreadBlocked("exception() called on a pending concurrent future")
        return super().exception(0)


def _is_cancel_exc(e):
    return isinstance(e, (asyncio.CancelledError, cfut.CancelledError))


def _nv(v):
    """Normalise a result value to plain hashable data."""
    if isinstance(v, (list, tuple)):
        return tuple(_nv(x) for x in v)
    if isinstance(v, dict):
        return ("dict",) + tuple(sorted((k, _nv(x)) for k, x in v.items()))
    if isinstance(v, (int, str)) or v is None:
        return v
    return ("obj", type(v).__name__)


def _nexc(e):
    from tornado.util import TimeoutError as TTimeout
    if _is_cancel_exc(e):
        return ("cancel",)
    if isinstance(e, TTimeout):
        return ("timeout",)
    return ("exc", type(e).__name__, _nv(e.args))


def _ename(oc):
    return oc[1] if oc[0] == "exc" else {"cancel": "CancelledError",
                                         "timeout": "TimeoutError"}.get(oc[0], oc[0])


def _state(f):
    if f is None:
        return ("none",)
    if not f.done():
        return ("pending",)
    if f.cancelled():
        return ("cancel",)
    e = f.exception()
    if e is not None:
        return _nexc(e)
    return ("res", _nv(f.result()))


# ----------------------------------------------------------------------------
# the run


def run(scn, full_log=False):
    from tornado import gen
    from tornado.concurrent import chain_future

    # per-run reset of process-global state (DESIGN 3.8): runs share a worker process, so a
    # class-level container on WaitIterator (there is one, `_unfinished = {}`, never mutated on
    # the unchanged tree) must not carry anything from an earlier scenario into this one
    for v in vars(gen.WaitIterator).values():
        if isinstance(v, (dict, list, set, collections.deque)):
            v.clear()

    comb = scn.get("comb")
    scale = scn.get("scale", 1)
    scale = scale if isinstance(scale, int) and 1 <= scale <= 4096 else 1
    inputs = scn.get("inputs", [])
    n = len(inputs)
    viol = []
    probes = {}

    def bad(rule, msg, tag=None):
        viol.append({"rule": rule, "key": rule + ("/" + tag if tag else ""), "msg": msg})

    def probe(name, k=1):
        probes[name] = probes.get(name, 0) + k

    def expected_of(i):
        sp = inputs[i]
        if sp["o"] == "res":
            # the future of an inner multi([base]) carries a one-element list
            return ("res", (("r", i),)) if sp.get("w") == "multi" else ("res", ("r", i))
        if sp["o"] == "exc":
            return ("exc", EXC_TYPES[i % 4].__name__, (("in", i),))
        return ("cancel",)

    with SimEnv(scn.get("tapes"), max_iters=20_000, full_log=full_log) as env:
        loop = env.loop
        futs = []   # what the combinator is given (a base future or a wrapper around it)
        bases = []  # what the driver completes
        stamps = {}  # i -> (iteration, seq, loop time)
        S = {"seq": 0, "stop": False, "t_call": None, "it_call": None, "called": False,
             "early": None}
        outs = []  # output futures (multi: 1, timeout: per wrapper, chain: target)
        sync = []  # per output: normalised exception raised synchronously by the call, or None
        tinfo = []  # timeout: per wrapper (D, settle_cb_time)
        # per WaitIterator: yields = (kind, outcome, current_index, ident, seq_at)
        W = {"it": None, "task": None, "overrun": False, "ctor": None, "lost": [], "yields": [],
             "args": scn.get("args"), "cs": scn.get("consumer") or {}, "stopped": False, "no": 0}
        WS = [W]
        if comb == "wait" and isinstance(scn.get("args2"), list):
            WS.append({"it": None, "task": None, "overrun": False, "ctor": None, "lost": [],
                       "yields": [], "args": scn["args2"], "cs": scn.get("consumer2") or {},
                       "stopped": False, "no": 1})
        yields = W["yields"]
        chain = {"b_at_a": None, "ext": None}

        blocked = []

        def new_cf():
            f = _CF()
            f.blocked = blocked.append
            return f

        def complete(i):
            f = bases[i]
            if f.done():
                return
            if comb == "chain" and outs:
                chain["b_at_a"] = _state(outs[0])
            o = inputs[i]["o"]
            try:
                if o == "res":
                    f.set_result(("r", i))
                elif o == "exc":
                    f.set_exception(EXC_TYPES[i % 4](("in", i)))
                elif o == "cx":
                    # failed WITH a CancelledError, not in the cancelled state
                    f.set_exception(cfut.CancelledError() if inputs[i]["k"] == "cf"
                                    else asyncio.CancelledError())
                else:
                    f.cancel()
            except BaseException as e:
                # a concurrent.futures.Future runs its callbacks inside set_*(); it swallows
                # Exception only, so a BaseException from a combinator's callback lands here
                # (in production: in the executor's worker thread)
                probe("completer_saw_" + type(e).__name__)
                env.log.ev("completer_saw", i, type(e).__name__)
            if futs[i] is f:
                stamp(i)
            env.log.ev("complete", i, o, loop.iterations)

        def stamp(i):
            S["seq"] += 1
            stamps.setdefault(i, (loop.iterations, S["seq"], loop.time()))

        def wrap(i):
            """Replace input i by the future of an inner combinator / coroutine over it."""
            kind = inputs[i].get("w")
            base = bases[i]
            if kind == "multi":
                f = gen.multi([base])
            elif kind == "coro":
                @gen.coroutine
                def c():
                    r = yield base
                    return r
                f = c()
            elif kind == "task":
                async def t():
                    return await (asyncio.wrap_future(base) if inputs[i]["k"] == "cf" else base)
                f = asyncio.ensure_future(t())
            else:
                return
            futs[i] = f
            probe("input_wrapped_" + kind)
            # registered before the combinator's own callback: runs just before it
            if f.done():
                stamp(i)
            else:
                f.add_done_callback(lambda _f: stamp(i))

        def fire(tok, direct=False):
            if isinstance(tok, bool) or not isinstance(tok, int):
                return
            if tok >= 0:
                if tok >= n:
                    return
                if inputs[tok].get("via") and not direct:
                    loop.call_soon(complete, tok)
                else:
                    complete(tok)
            elif comb == "chain" and outs and n >= 1 and not bases[0].done():
                b = outs[0]
                if b.done():
                    return
                if tok == -1:
                    b.set_result("T")
                    chain["ext"] = ("res", "T")
                else:
                    b.cancel()
                    chain["ext"] = ("cancel",)
                probe("chain_target_settled_between")

        def mutate_container():
            """The caller changes its own list/dict after multi() returned: the result must
            still be the call-time sequence / mapping."""
            ch = S.get("children")
            op = (scn.get("mutate") or {}).get("op")
            if ch is None or S.get("mutated") or op not in ("del", "add", "clear", "reorder"):
                return
            S["mutated"] = True
            if outs and outs[0] is not None and not outs[0].done():
                probe("multi_container_mutated_while_pending")
            extra = loop.create_future()
            extra.set_result("X")
            if isinstance(ch, dict):
                if op == "del" and ch:
                    del ch[next(iter(ch))]
                elif op == "add":
                    ch["zz"] = extra
                elif op == "clear":
                    ch.clear()
                elif op == "reorder" and ch:
                    k = next(iter(ch))
                    ch[k] = ch.pop(k)
            else:
                if op == "del" and ch:
                    del ch[0]
                elif op == "add":
                    ch.insert(0, extra)
                elif op == "clear":
                    ch.clear()
                elif op == "reorder" and ch:
                    ch.append(ch.pop(0))

        def observe():
            # premature settling: output done while an input it depends on is not
            if comb == "multi" and outs and outs[0] is not None and S["early"] is None:
                if outs[0].done() and any(not futs[a].done() for a in scn["args"]):
                    S["early"] = _state(outs[0])

        async def gap(g):
            if g == 0 or isinstance(g, bool) or not isinstance(g, int):
                return
            if g == 1:
                await asyncio.sleep(0)
            elif g < 0:
                await loop.idle()
            else:
                await asyncio.sleep(min(g - 1, 4096) * scale * UNIT)

        def ident(f):
            for j, x in enumerate(futs):
                if x is f:
                    return j
            return -1

        def backlog(W):
            # inputs (with multiplicity collapsed) done but not yet handed out
            done = sum(1 for a in set(W["args"]) if futs[a].done())
            return done - sum(1 for y in W["yields"] if y[0] == "y")

        async def consumer(W):
            cs = W["cs"]
            pauses = cs.get("pauses") or []
            it = W["it"]
            yields = W["yields"]
            cap = 3 * len(W["args"]) + 4
            stop_after = cs.get("stop_after")
            stop_after = stop_after if isinstance(stop_after, int) and \
                not isinstance(stop_after, bool) and stop_after >= 0 else None

            def rec(kind, oc):
                yields.append((kind, oc, it.current_index, ident(it.current_future), S["seq"]))
                env.log.ev("yield", W["no"], kind, oc, _nv(it.current_index),
                           ident(it.current_future))

            k = 0
            if cs.get("mode") == "aiter":
                probe("wait_aiter")
                while True:
                    try:
                        async for r in it:
                            rec("y", ("res", _nv(r)))
                            k += 1
                            if k > cap:
                                W["overrun"] = True
                                return
                            await gap(pauses[k] if k < len(pauses) else 0)
                        return
                    except asyncio.CancelledError:
                        if S["stop"]:
                            raise
                        rec("y", ("cancel",))
                    except Exception as e:
                        rec("y", _nexc(e))
                    k += 1
                    if k > cap:
                        W["overrun"] = True
                        return
            abandon = cs.get("abandon") or []
            after_abandon = False
            while not it.done():
                if stop_after is not None and k >= stop_after:
                    W["stopped"] = True  # the consumer walks away from an undrained iterator
                    probe("wait_consumer_left_undrained")
                    return
                await gap(pauses[k] if k < len(pauses) else 0)
                bl = backlog(W)
                if after_abandon:
                    after_abandon = False
                    if bl > 0:
                        probe("wait_input_settled_between_abandon_and_next")
                cur = it.current_future
                try:
                    fut = it.next()
                except asyncio.CancelledError:
                    rec("sync", ("cancel",))
                except Exception as e:
                    rec("sync", _nexc(e))
                else:
                    if bl <= 0:
                        probe("wait_next_before_completion")
                    else:
                        probe("wait_next_after_completion")
                        if bl >= 2:
                            probe("wait_two_finished_between_next")
                    ab = abandon[k] if k < len(abandon) else 0
                    ab = ab if isinstance(ab, int) and not isinstance(ab, bool) else 0
                    gave_up = False
                    try:
                        if ab > 0 and not fut.done():
                            try:
                                r = await asyncio.wait_for(fut, min(ab, 64) * scale * UNIT)
                            except asyncio.TimeoutError:
                                gave_up = True
                        elif ab < 0 and not fut.done():
                            for _ in range(min(-ab - 1, 4)):
                                await asyncio.sleep(0)
                            if fut.cancel():
                                gave_up = True
                            else:
                                r = await fut
                        else:
                            r = await fut
                        oc = ("res", _nv(r)) if not gave_up else None
                    except asyncio.CancelledError:
                        if S["stop"]:
                            raise
                        oc = ("cancel",)
                    except Exception as e:
                        oc = _nexc(e)
                    if gave_up:
                        if after_abandon is False:
                            after_abandon = True
                        idn = ident(it.current_future)
                        if it.current_future is cur:
                            probe("wait_next_abandoned")
                            rec("ab", None)
                        elif not fut.cancelled() or (0 <= idn < n and inputs[idn]["o"] in CANCELS):
                            # the iterator handed an input to this call while the consumer was
                            # giving up (asyncio.wait_for's own race): it is in the future
                            probe("wait_abandon_raced_with_delivery")
                            rec("y", _state(fut))
                        else:
                            # the iterator committed an input to this call (popped it, moved
                            # current_future) but had not transferred the outcome when the
                            # consumer gave up: nobody can ever get it
                            probe("wait_abandon_lost_committed_input")
                            W["lost"].append(idn)
                            rec("ab", None)
                    else:
                        rec("y", oc)
                k += 1
                if k > cap:
                    W["overrun"] = True
                    return

        def call():
            S["t_call"] = loop.time()
            S["it_call"] = loop.iterations
            S["called"] = True
            quiet = QUIET if scn.get("quiet") else ()
            if comb == "multi":
                args = scn["args"]
                if scn.get("form") == "dict":
                    children = {"k%d" % p: futs[a] for p, a in enumerate(args)}
                else:
                    children = [futs[a] for a in args]
                S["children"] = children
                try:
                    outs.append(gen.multi(children, quiet_exceptions=quiet))
                    sync.append(None)
                except BaseException as e:
                    outs.append(None)
                    sync.append(_nexc(e))
            elif comb == "wait":
                for w in WS:
                    args = w["args"]
                    try:
                        if scn.get("form") == "dict" and args:
                            w["it"] = gen.WaitIterator(**{"k%d" % p: futs[a]
                                                          for p, a in enumerate(args)})
                        else:
                            w["it"] = gen.WaitIterator(*[futs[a] for a in args])
                    except BaseException as e:
                        w["ctor"] = _nexc(e)
                    else:
                        w["task"] = loop.create_task(consumer(w))
                if len(WS) > 1:
                    probe("wait_two_iterators")
                    if set(WS[0]["args"]) & set(WS[1]["args"]):
                        probe("wait_two_iterators_shared_input")
            elif comb == "timeout":
                for dl in scn.get("deadlines", [])[:2]:
                    d = max(0, int(dl.get("delay", 0))) * scale
                    if dl.get("form") == "td":
                        # exact only when d is a multiple of 64 units (timedelta counts in us);
                        # otherwise D is off the grid and EPS below absorbs Tornado's float
                        # rounding of time() + seconds - time()
                        arg = datetime.timedelta(seconds=d * UNIT)
                        cell = [S["t_call"] + arg.total_seconds(), None]
                    else:
                        arg = loop.wall() + d * UNIT
                        cell = [S["t_call"] + d * UNIT, None]
                    tinfo.append(cell)
                    try:
                        o = gen.with_timeout(arg, futs[0], quiet_exceptions=quiet)
                    except BaseException as e:
                        outs.append(None)
                        sync.append(_nexc(e))
                    else:
                        outs.append(o)
                        sync.append(None)
                        o.add_done_callback(lambda f, cell=cell: cell.__setitem__(1, loop.time()))
            elif comb == "chain":
                tg = scn.get("target", {})
                b = new_cf() if tg.get("k") == "cf" else loop.create_future()
                if tg.get("pre") == "done":
                    b.set_result("T")
                    chain["ext"] = ("res", "T")
                elif tg.get("pre") == "cancelled":
                    b.cancel()
                    chain["ext"] = ("cancel",)
                outs.append(b)
                if futs[0].done():
                    chain["b_at_a"] = _state(b)
                try:
                    chain_future(futs[0], b)
                    sync.append(None)
                except BaseException as e:
                    sync.append(_nexc(e))

        async def main():
            for sp in inputs:
                bases.append(new_cf() if sp["k"] == "cf" else loop.create_future())
            futs.extend(bases)
            for i in scn.get("pre", []):
                fire(i, direct=True)
            if comb == "multi":
                for i in range(n):
                    try:
                        wrap(i)
                    except BaseException as e:
                        bad("multi.inner_call_raised", f"building the {inputs[i].get('w')} wrapper "
                            f"of input {i} raised {_nexc(e)}", "other")
            pre_done = [f.done() for f in futs]
            S["pre_done"] = pre_done
            call()
            mut_at = (scn.get("mutate") or {}).get("at", 0)
            for si, st in enumerate(scn.get("steps", [])):
                if comb == "multi" and si == mut_at:
                    mutate_container()
                await gap(st.get("gap", 0))
                observe()
                for tok in st.get("fire", []):
                    fire(tok)
                observe()
            if comb == "multi":
                mutate_container()
            await loop.idle()
            observe()
            left = [i for i in range(n) if not bases[i].done()]
            if left:
                await asyncio.sleep(0)
                for i in left:
                    fire(i, direct=True)
                await loop.idle()
                observe()
            # all inputs done, loop idle: the liveness instant
            S["at_idle"] = [_state(o) for o in outs]
            S["consumer_done_at_idle"] = W["task"].done() if W["task"] is not None else None

        try:
            status = env.run(main())
        except BaseException as e:  # a BaseException from a callback tore through run_forever
            status = "error:" + type(e).__name__
            env.main_exception = e
        S["stop"] = True
        if blocked:
            bad(f"{comb}.blocks_loop_thread", f"{blocked[0]}() without timeout called on a "
                f"still-pending concurrent.futures input from the loop thread ({len(blocked)}x): "
                f"the IOLoop thread would block for ever", "other")
        if status != "done":
            bad("harness.main_" + status.split(":")[0],
                f"driver did not finish: {status} {getattr(env, 'main_exception', None)!r}")
        final = [_state(o) for o in outs]
        for j, st in enumerate(final):
            env.log.ev("final", j, st, sync[j] if j < len(sync) else None)

        # ---------------------------------------------------------------- tags
        cancelled_inputs = [i for i in range(n) if inputs[i]["o"] in CANCELS]
        pre_done = S.get("pre_done", [False] * n)
        if cancelled_inputs:
            probe("input_cancelled")
        if any(sp["k"] == "cf" for sp in inputs):
            probe("input_cf")
        if any(pre_done):
            probe("input_predone")

        def after_call(i):
            return i in stamps and not pre_done[i]

        def judge_wait(W):
            yields = W["yields"]
            args = W["args"]
            distinct = []
            for a in args:
                if a not in distinct:
                    distinct.append(a)
            dup = len(distinct) < len(args)
            kw = scn.get("form") == "dict" and bool(args)
            probe("wait_kwargs" if kw else "wait_args")
            tags = []
            if dup:
                tags.append("dup_args")
                probe("wait_dup_args")
            if any(inputs[a]["o"] in CANCELS for a in distinct):
                tags.append("input_cancelled")
            tag = "+".join(tags) if tags else "other"
            task = W["task"]
            if W["ctor"] is not None:
                bad("waititer.constructor_raised", f"WaitIterator(...) raised {W['ctor']}",
                    _ename(W["ctor"]) + "/" + tag)
            seen = {}
            ys = [y for y in yields if y[0] == "y"]
            for kind, oc, cidx, idn, _seq in yields:
                if kind == "ab":
                    continue
                if kind == "sync":
                    bad("waititer.next_raised", f"next() raised {oc} synchronously "
                        f"(yields so far {len(seen)})", _ename(oc) + "/" + tag)
                    continue
                if idn < 0 or idn not in distinct:
                    bad("waititer.current_future_wrong",
                        f"after a yield of {oc} current_future is not one of the inputs", tag)
                    continue
                if oc != expected_of(idn):
                    bad("waititer.wrong_outcome", f"yield {oc} with current_future=input {idn} "
                        f"whose outcome is {expected_of(idn)}", tag)
                poss = [("k%d" % p if kw else p) for p, a in enumerate(args) if a == idn]
                if cidx not in poss:
                    bad("waititer.wrong_index", f"current_index {cidx!r} for input {idn}, "
                        f"passed at {poss}", tag)
                seen[idn] = seen.get(idn, 0) + 1
            if W["overrun"]:
                bad("waititer.too_many_yields", f"{len(yields)} yields for {len(args)} args", tag)
            for i, c in seen.items():
                if c > 1:
                    bad("waititer.yielded_twice", f"input {i} yielded {c} times", tag)
            missing = [i for i in distinct if i not in seen]
            if W["stopped"]:
                missing = []  # the consumer walked away on purpose; only its yields are judged
            if task is not None and not task.done():
                bad("waititer.never_finishes",
                    f"consumer still waiting at quiescence after {len(ys)} yields; all inputs done; "
                    f"not yet yielded: {missing}", tag)
            elif missing:
                dtag = tag
                if all(i in W["lost"] and inputs[i]["k"] == "cf" for i in missing):
                    dtag = "cf_input_committed_to_abandoned_next"
                bad("waititer.input_dropped", f"iterator reported done() but inputs {missing} "
                    f"were never yielded (got {[y[3] for y in ys]}; next() calls given up: "
                    f"{sum(1 for y in yields if y[0] == 'ab')})", dtag)
            # completion order (partial order, see module doc)
            order = [y[3] for y in ys if y[3] in stamps]
            for x in range(len(order)):
                for y in range(x + 1, len(order)):
                    a, b = order[x], order[y]  # a yielded before b
                    if a == b or pre_done[a] and pre_done[b]:
                        continue
                    sa, sb = stamps[a], stamps[b]
                    if pre_done[b] and not pre_done[a]:
                        wrong = True
                    elif pre_done[a]:
                        wrong = False
                    elif sb[1] < sa[1]:
                        # b completed first.  An asyncio future announces completion through
                        # call_soon (one iteration later), a concurrent one synchronously: a
                        # concurrent `a` finishing no later than the iteration in which asyncio
                        # `b`'s callback runs may legitimately be seen first.
                        wrong = not (inputs[b]["k"] == "aio" and inputs[a]["k"] == "cf"
                                     and sa[0] <= sb[0] + 1)
                        if not wrong:
                            probe("wait_unordered_mixed_kinds")
                    else:
                        wrong = False
                    if wrong:
                        bad("waititer.wrong_order", f"input {a} yielded before input {b} which "
                            f"completed earlier (stamps {sa[:2]} vs {sb[:2]})", tag)
            if len({stamps[i][0] for i in distinct if after_call(i)}) >= 2:
                probe("wait_completions_in_distinct_iterations")

        # ---------------------------------------------------------------- oracles
        if status == "done" and comb == "multi":
            args = scn["args"]
            probe("multi_" + ("dict" if scn.get("form") == "dict" else "list"))
            if len(set(args)) < len(args):
                probe("multi_dup_args")
            if scn.get("quiet"):
                probe("multi_quiet")
            exp = None
            nfail = 0
            for a in args:
                e = expected_of(a)
                if e[0] != "res":
                    nfail += 1
                    if exp is None:
                        exp = e
                        first_failed = a
            if nfail >= 2:
                probe("multi_two_failures")
            if exp is None:
                vals = [expected_of(a)[1] for a in args]
                if scn.get("form") == "dict":
                    exp = ("res", ("dict",) + tuple(("k%d" % p, v) for p, v in enumerate(vals)))
                else:
                    exp = ("res", tuple(vals))
            elif any(i != first_failed and i in stamps and first_failed in stamps
                     and stamps[i][1] < stamps[first_failed][1] and inputs[i]["o"] != "res"
                     for i in set(args)):
                probe("multi_first_failed_completed_later")
            if len(args) >= 2 and exp[0] == "res":
                order = sorted(set(args), key=lambda i: stamps[i][1])
                if order != [a for k, a in enumerate(args) if a not in args[:k]]:
                    probe("multi_completion_order_differs_from_arg_order")
            # defect condition: an asyncio-cancelled argument not preceded by an Exception failure
            defect = False
            for a in args:
                if inputs[a]["o"] == "cancel" and inputs[a]["k"] == "aio":
                    defect = True
                    break
                if inputs[a]["o"] != "res":
                    break
            tag = "input_cancelled" if defect else "other"
            got = final[0] if sync[0] is None else sync[0]
            if (not defect and sync[0] == ("cancel",) and all(pre_done[a] for a in args)
                    and any(inputs[a]["o"] == "cancel" and inputs[a]["k"] == "aio" for a in args)):
                # every input already done, an Exception failure first, an asyncio-cancelled
                # input later: the callback runs inside multi() and its CancelledError escapes
                # to the caller instead of the first failure being reported
                tag = "input_cancelled_all_done"
            if sync[0] is not None:
                probe("sync_raise")
            if S.get("at_idle", [None])[0] == ("pending",) or got == ("pending",):
                if got == ("pending",):
                    bad("multi.never_settles",
                        f"multi({scn.get('form')}) over args {args} still pending at quiescence; "
                        f"all inputs done: {[expected_of(a) for a in args]}", tag)
                else:
                    bad("multi.settles_late", f"pending at idle, {got} at quiescence", tag)
            elif got != exp:
                bad("multi.wrong_outcome", f"args {args} ({scn.get('form')}): got {got}, "
                    f"expected {exp}", tag)
            if S["early"] is not None:
                bad("multi.settles_early", f"output {S['early']} while an input was still pending",
                    tag)

        elif status == "done" and comb == "wait":
            for W in WS:
                judge_wait(W)

        elif status == "done" and comb == "timeout":
            exp_in = expected_of(0)
            t_obs = stamps[0][2]
            spurious_budget = 0
            if len(outs) >= 2:
                probe("timeout_two_wrappers")
            for j in range(len(outs)):
                D, t_cb = tinfo[j]
                form = scn["deadlines"][j].get("form")
                probe("timeout_td" if form == "td" else "timeout_abs")
                got = final[j] if sync[j] is None else sync[j]
                if sync[j] is not None:
                    probe("sync_raise")
                if pre_done[0] or t_obs < D - EPS:
                    allowed = (exp_in,)
                    probe("timeout_input_first")
                elif t_obs > D + EPS:
                    allowed = (("timeout",),)
                    probe("timeout_deadline_first")
                else:
                    allowed = (exp_in, ("timeout",))
                    probe("timeout_tie")
                defect = (exp_in == ("cancel",) and exp_in in allowed
                          and not (pre_done[0] and inputs[0]["k"] == "aio"))
                tag = "input_cancelled" if defect else "other"
                if got == ("pending",):
                    bad("timeout.never_settles",
                        f"with_timeout({form}, delay {scn['deadlines'][j].get('delay')}u) pending at "
                        f"quiescence; input {exp_in} done at +{(t_obs - S['t_call']) / UNIT:g}u, "
                        f"deadline +{(D - S['t_call']) / UNIT:g}u", tag)
                    continue
                if S["at_idle"][j] == ("pending",):
                    bad("timeout.settles_late", f"pending at idle, {got} at quiescence", tag)
                if got not in allowed:
                    bad("timeout.wrong_outcome",
                        f"with_timeout({form}): got {got}, allowed {allowed}; input done at "
                        f"+{(t_obs - S['t_call']) / UNIT:g}u, deadline +{(D - S['t_call']) / UNIT:g}u",
                        tag)
                if got == ("timeout",):
                    if t_cb is not None and t_cb < D - EPS:
                        bad("timeout.fires_early", f"TimeoutError observed at "
                            f"+{(t_cb - S['t_call']) / UNIT:g}u, deadline +{(D - S['t_call']) / UNIT:g}u",
                            tag)
                    if t_cb is not None and t_cb > D + EPS:
                        probe("timeout_fired_late")
                    # documented: an input failing after the timeout is logged unless quiet or
                    # asyncio.CancelledError (concurrent.futures.CancelledError is an Exception)
                    if exp_in[0] == "exc" and not (scn.get("quiet") and exp_in[1] in
                                                   [q.__name__ for q in QUIET]):
                        spurious_budget += 1
                    elif exp_in == ("cancel",) and inputs[0]["k"] == "cf":
                        spurious_budget += 1
                    if t_obs > D + EPS:
                        probe("timeout_then_input_completes")
            nlog = sum(1 for r in env.records if r[0] == "tornado.application"
                       and r[1] == "ERROR" and "after timeout" in r[2])
            if nlog:
                probe("timeout_log_after_timeout", nlog)
            if nlog > spurious_budget:
                bad("timeout.spurious_error_log",
                    f"{nlog} 'Exception in Future ... after timeout' log(s) but only "
                    f"{spurious_budget} wrapper(s) timed out on a failing input "
                    f"(outcomes {final}, input {exp_in})", "other")

        elif status == "done" and comb == "chain":
            exp_in = expected_of(0)
            tg = scn.get("target", {})
            probe("chain_target_" + str(tg.get("pre")))
            if tg.get("k") == "cf":
                probe("chain_cf_target")
            if inputs[0]["k"] == "cf":
                probe("chain_cf_source")
            b_at_a = chain["b_at_a"]
            got = final[0]
            defect = exp_in == ("cancel",) and b_at_a == ("pending",)
            tag = "source_cancelled" if defect else "other"
            if sync[0] is not None:
                probe("sync_raise")
                bad("chain.call_raised", f"chain_future(a, b) raised {sync[0]} "
                    f"(a already done: {pre_done[0]})",
                    _ename(sync[0]) + "/" + tag)
            if b_at_a == ("pending",):
                if got == ("pending",):
                    bad("chain.never_settles", f"target still pending at quiescence; source "
                        f"{inputs[0]['k']} finished with {exp_in}", tag)
                elif got != exp_in:
                    bad("chain.wrong_outcome", f"target {got}, source {exp_in}", tag)
                elif S["at_idle"][0] == ("pending",):
                    bad("chain.settles_late", "pending at idle, done at quiescence", tag)
            else:
                probe("chain_target_already_done")
                if got != b_at_a or got != chain["ext"]:
                    bad("chain.overwrote_done_target", f"target was {b_at_a} when the source "
                        f"finished, is {got} at quiescence", tag)

        # ------------------------------------------------ callback errors (any combinator)
        any_cancel = bool(cancelled_inputs)
        cb_errs = [r[3] for r in env.records if r[0] == "tornado.application" and r[1] == "ERROR"
                   and r[2].startswith("Exception in callback")]
        cb_errs += [e[1] for e in env.loop_errors
                    if e[1] is not None and str(e[0]).startswith("Exception in callback")]
        for t in cb_errs:
            if t == "CancelledError" and any_cancel:
                probe("callback_died_on_cancelled_input")
            elif t == "KeyError" and comb == "wait" and len(set(scn["args"])) < len(scn["args"]):
                bad(f"{comb}.callback_error", "a done-callback raised KeyError", "KeyError/dup_args")
            else:
                bad(f"{comb}.callback_error", f"a done-callback raised {t}", str(t) + "/other")

        # ------------------------------------------------ nontrivial (measured)
        if comb in ("multi", "wait"):
            its = {stamps[i][0] for i in set(scn["args"]) if after_call(i)}
            nontrivial = len(its) >= 2
        else:
            nontrivial = n >= 1 and after_call(0)
        for v in viol:
            probe("viol:" + v["key"])
        # retrieve exceptions so nothing is logged at teardown
        for f in list(futs) + list(bases) + [o for o in outs if o is not None]:
            if f.done() and not f.cancelled():
                f.exception()
        st = env.stats()
        st["probes"].update(probes)
        return {"violations": viol, "nontrivial": bool(nontrivial and status == "done"),
                "stats": st, "log_head": env.log.head, "log_full": env.log.full,
                "outcome": {"final": final, "sync": sync, "yields": [[list(y[:4]) for y in w["yields"]] for w in WS]}}
