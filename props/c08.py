"""C08 - the HTTP client decodes any response stream exactly as a strict reader does.

Real tornado.simple_httpclient.SimpleAsyncHTTPClient -> TCPClient -> IOStream ->
HTTP1Connection on the simulated network.  A raw server peer reads the request
and then delivers a generated response stream (valid and near-valid HTTP/1.x)
under a segmentation, short-read / delay / readiness tapes, optionally before the
request has been fully sent, ended by FIN (possibly early: truncation) or RST.

Oracle: ref.http_response.read_response (strict RFC 9112 reader) gives the expected
(code, reason, header multimap, body) or reject / incomplete.  fetch(raise_error=False)
must return exactly that, or fail when the reference refuses the stream.
"""

import zlib

from ref.http_response import read_response, client_view_headers, headers_multimap
from sim.env import SimEnv, UNIT

ID = "C08"
LEVEL = "exploration"
QUICK_N = 80000
THOROUGH_N = 2000000
CHUNK = 400
RULE = ("gen(seed): response stream from a grammar (status-line variants, 0-2 interim 1xx, "
        "CL/chunked/close-delimited/none framing, 204/304/HEAD, gzip valid/truncated/garbage, "
        "malformed CL/TE/chunk/header variants, trailing bytes), truncated at a structural offset "
        "or not, ended by FIN or RST, cut into segments with gaps; recv_cap/delay/defer/spurious/"
        "late/send_cap tapes; knobs method, decompress, streaming_callback, header_callback, "
        "max_body_size, max_header_size, eager response.  non-trivial = the response reached the "
        "client in >=2 arrival instants or a short read fired, AND the stream is not a plain "
        "bodiless OK (has a body, an interim response, or the reference refuses/flags it); "
        "distinct = distinct scenario hash")
COMPONENTS = {
    "real": ["tornado.simple_httpclient.SimpleAsyncHTTPClient/_HTTPConnection",
             "tornado.httpclient.AsyncHTTPClient.fetch/HTTPResponse",
             "tornado.http1connection.HTTP1Connection/_GzipMessageDelegate",
             "tornado.httputil.HTTPHeaders/parse_response_start_line",
             "tornado.tcpclient.TCPClient/_Connector", "tornado.netutil.DefaultLoopResolver",
             "tornado.iostream.IOStream", "tornado.ioloop.IOLoop", "asyncio.Future/Task"],
    "stub": ["event loop poller+clock (sim.loop.SimLoop)", "sockets (sim.net.SimSocket)",
             "getaddrinfo", "HTTP server (sim.net.RawPeer script)", "time.time"],
}
ASSUMPTIONS = [
    "ref/http_response.py is the strict reader: RFC 9112 6.3 framing in order, plus bare LF, "
    "obs-fold and leading empty lines (leniencies Tornado documents and the RFC allows)",
    "where Tornado is knowingly stricter than the RFC (Result.either: chunk extensions, trailers, "
    "1xx/204 with body headers, OWS before a Content-Length list comma, >=2 leading empty lines, "
    "empty Transfer-Encoding list element, chunk-size line > 64 bytes or ended by bare LF) both "
    "'fails' and 'returns exactly the reference result' are accepted",
    "a connection reset after a complete, self-delimited response may or may not fail the fetch "
    "(the RST discards unread bytes); a reset or FIN before completion must fail it",
    "an empty reason phrase is reported as the library's standard phrase for the code",
    "with decompress_response a consumed 'Content-Encoding: gzip' is renamed to "
    "X-Consumed-Content-Encoding (documented Tornado behaviour)",
]

# --------------------------------------------------------------------------
# generation


def _gz(data, level=6):
    c = zlib.compressobj(level, zlib.DEFLATED, 31)
    return c.compress(data) + c.flush()


def _payload(rng, n):
    mode = rng.random()
    if mode < 0.4:
        return bytes(rng.choice(b"abcdefgh\r\n01") for _ in range(n))
    if mode < 0.7:
        return (b"hello world " * (n // 12 + 1))[:n]
    return bytes(rng.getrandbits(8) for _ in range(n))


PLAIN_HEADERS = [
    b"Content-Type: text/plain", b"Server: sim/1.0", b"X-A: 1", b"x-lower: v",
    b"Set-Cookie: a=1", b"Set-Cookie: b=2; Path=/", b"ETag: \"abc\"", b"X-Empty:",
    b"X-Spaces:   a  b\t c  ", b"X-Obs: caf\xe9", b"X-A: 2", b"Vary: Accept-Encoding",
    b"X-Fold: a\r\n  b", b"X-Fold2: a\r\n\tb\r\n c", b"Connection: close",
    b"Date: Mon, 01 Jan 2024 00:00:00 GMT", b"X-Colon: a:b:c", b"Location: /elsewhere",
]
BAD_HEADERS = [
    b"NoColonHere", b"X-Sp : v", b": empty-name", b"X-Nul: a\x00b", b"X-Cr: a\rb",
    b"X(paren): v", b"X-Del: a\x7fb", b"X-Ctl: \x01", b"X-Tr: v\r", b"\rX-Lead: v",
    b"X\xe9: v", b"X-Fold: a\r\n \x00",
]
STATUS_MUTATIONS = [
    "double_sp", "tab_sep", "no_reason_sp", "http2", "lower_http", "two_digit", "four_digit",
    "crcr", "lead_crcr", "ctl_reason", "ver_1_10", "ver_11", "no_sp_reason", "lead_sp",
    "empty", "http09ish", "alpha_code", "trail_sp_version",
]
CODES = [200] * 8 + [201, 206, 404, 500, 301, 302, 204, 204, 304, 304, 599]
REASONS = {200: "OK", 201: "Created", 206: "Partial Content", 404: "Not Found",
           500: "Internal Server Error", 301: "Moved Permanently", 302: "Found",
           204: "No Content", 304: "Not Modified", 599: "Odd", 100: "Continue",
           102: "Processing", 103: "Early Hints"}


def _status_line(rng, version, code, reason, mut):
    v = version.encode()
    c = b"%d" % code
    r = reason.encode("latin1")
    if mut is None:
        return v + b" " + c + b" " + r, b""
    if mut == "double_sp":
        return v + b"  " + c + b" " + r, b""
    if mut == "tab_sep":
        return v + b"\t" + c + b" " + r, b""
    if mut == "no_reason_sp":
        return v + b" " + c, b""
    if mut == "http2":
        return b"HTTP/2.0 " + c + b" " + r, b""
    if mut == "lower_http":
        return b"http/1.1 " + c + b" " + r, b""
    if mut == "two_digit":
        return v + b" 20 " + r, b""
    if mut == "four_digit":
        return v + b" 2000 " + r, b""
    if mut == "crcr":
        return v + b" " + c + b" " + r + b"\r", b""
    if mut == "lead_crcr":
        return v + b" " + c + b" " + r, b"\r\r\n"
    if mut == "ctl_reason":
        return v + b" " + c + b" O\x01K", b""
    if mut == "ver_1_10":
        return b"HTTP/1.10 " + c + b" " + r, b""
    if mut == "ver_11":
        return b"HTTP/11 " + c + b" " + r, b""
    if mut == "no_sp_reason":
        return v + b" " + c + r, b""
    if mut == "lead_sp":
        return b" " + v + b" " + c + b" " + r, b""
    if mut == "empty":
        return b"", b""
    if mut == "http09ish":
        return b"<html>hello</html>", b""
    if mut == "alpha_code":
        return v + b" 2x0 " + r, b""
    if mut == "trail_sp_version":
        return v + b" " + c + b" " + r + b" \t", b""
    return v + b" " + c + b" " + r, b""


def _chunked(rng, body, parts, mutate):
    """Append chunked-coded ``body`` to parts; returns nothing."""
    pieces = []
    left = body
    k = rng.choice([1, 1, 2, 3, 5])
    while left and len(pieces) < k - 1:
        n = rng.randint(1, max(1, len(left)))
        pieces.append(left[:n])
        left = left[n:]
    if left:
        pieces.append(left)
    mut_at = rng.randrange(len(pieces) + 1) if mutate else -1
    kind = rng.choice(["0x", "under", "plus", "lead_sp", "trail_sp", "neg", "empty", "long65",
                       "ext", "ext_bws", "no_term", "lf_term", "bad_term", "size_lf", "long64",
                       "nonhex", "trailer", "bad_trailer", "last_00", "no_final_crlf",
                       "size_too_small", "upper"]) if mutate else None
    for i, p in enumerate(pieces):
        size = b"%x" % len(p)
        if rng.random() < 0.2:
            size = size.upper()
        if rng.random() < 0.15:
            size = b"0" * rng.randint(1, 3) + size
        term = b"\r\n"
        szterm = b"\r\n"
        if i == mut_at:
            if kind == "0x":
                size = b"0x" + size
            elif kind == "under":
                size = size[:1] + b"_" + size[1:] if len(size) > 1 else size + b"_0"
            elif kind == "plus":
                size = b"+" + size
            elif kind == "lead_sp":
                size = b" " + size
            elif kind == "trail_sp":
                size = size + b" "
            elif kind == "neg":
                size = b"-" + size
            elif kind == "empty":
                size = b""
            elif kind == "long65":
                size = b"0" * (63 - len(size)) + size
            elif kind == "long64":
                size = b"0" * (62 - len(size)) + size
            elif kind == "ext":
                size = size + b";name=value"
            elif kind == "ext_bws":
                size = size + b" ; q"
            elif kind == "no_term":
                term = b""
            elif kind == "lf_term":
                term = b"\n"
            elif kind == "bad_term":
                term = b"XY"
            elif kind == "size_lf":
                szterm = b"\n"
            elif kind == "nonhex":
                size = b"g" + size
            elif kind == "size_too_small":
                size = b"%x" % max(0, len(p) - 1)
            elif kind == "upper":
                size = size.upper()
        parts.append(("csize", size + szterm))
        parts.append(("cdata", p))
        parts.append(("cterm", term))
    last = b"0"
    tail = b"\r\n"
    trailer = b""
    if mut_at == len(pieces):
        if kind == "trailer":
            trailer = b"X-Trailer: v\r\n"
        elif kind == "bad_trailer":
            trailer = b"no colon\r\n"
        elif kind == "last_00":
            last = b"000"
        elif kind == "no_final_crlf":
            tail = b""
        elif kind == "ext":
            last = b"0;x=y"
        elif kind == "size_lf":
            last = b"0\n"[:1]
            parts.append(("clast", b"0\n"))
            parts.append(("cfinal", b"\n" if rng.random() < 0.5 else b"\r\n"))
            return
        elif kind == "bad_term":
            tail = b"XY"
        elif kind == "lf_term":
            tail = b"\n"
    parts.append(("clast", last + b"\r\n"))
    if trailer:
        parts.append(("ctrailer", trailer))
    parts.append(("cfinal", tail))


def gen(rng, tier, index):
    thorough = tier == "thorough"
    method = rng.choice(["GET"] * 13 + ["HEAD"] * 3 + ["POST"] * 4)
    decompress = rng.random() < 0.55
    parts = []
    mutated = False

    def eol_for(style):
        if style == 0:
            return b"\r\n"
        if style == 1:
            return b"\n"
        return b"\n" if rng.random() < 0.3 else b"\r\n"

    style = rng.choice([0] * 17 + [1, 2, 2])
    # ---- interim responses
    n_interim = rng.choice([0] * 14 + [1, 1, 2])
    for _ in range(n_interim):
        code = rng.choice([100, 102, 103, 103])
        lines = [b"HTTP/1.1 %d %s" % (code, REASONS[code].encode())]
        if rng.random() < 0.5:
            lines.append(b"Link: </style.css>; rel=preload")
        r = rng.random()
        if r < 0.12:
            lines.append(b"Content-Length: 0")
        elif r < 0.2:
            lines.append(b"Content-Length: 5")
        elif r < 0.26:
            lines.append(b"Transfer-Encoding: chunked")
        elif r < 0.30:
            lines.append(b"Content-Encoding: gzip")
        e = eol_for(style)
        parts.append(("interim", b"".join(ln + e for ln in lines) + e))
    # ---- final response head
    code = rng.choice(CODES)
    version = "HTTP/1.0" if rng.random() < 0.1 else "HTTP/1.1"
    rr = rng.random()
    if rr < 0.7:
        reason = REASONS[code]
    elif rr < 0.8:
        reason = ""
    elif rr < 0.9:
        reason = "Custom  Reason\tx"
    else:
        reason = "caf\xe9 ok"
    smut = rng.choice(STATUS_MUTATIONS) if rng.random() < 0.10 else None
    mutated |= smut is not None
    sline, lead = _status_line(rng, version, code, reason, smut)
    lb = rng.random()
    if lb < 0.04:
        lead += b"\r\n"
    elif lb < 0.06:
        lead += b"\n"
    elif lb < 0.08:
        lead += b"\r\n\r\n"
    if lead:
        parts.append(("lead", lead))
    parts.append(("status", sline + eol_for(style)))
    hdrs = [rng.choice(PLAIN_HEADERS) for _ in range(rng.choice([0, 1, 1, 2, 3, 4]))]
    if rng.random() < 0.09:
        hdrs.insert(rng.randrange(len(hdrs) + 1), rng.choice(BAD_HEADERS))
        mutated = True
    if rng.random() < 0.02:
        hdrs.insert(0, b" leading-fold")
        mutated = True
    # ---- body
    n = rng.choice([0, 1, 2, 5, 17, 40, 100, 300, 1000])
    if thorough and rng.random() < 0.06:
        n = rng.choice([5000, 65535, 65536, 65537, 70000, 140000])
    if n > 3:
        n = max(0, n + rng.randint(-3, 3))
    body = _payload(rng, n)
    wire_body = body
    gz = None
    if rng.random() < 0.35:
        gz = rng.choice(["valid"] * 4 + ["trunc_data", "trunc_data", "trunc_trailer",
                                        "trunc_trailer", "garbage", "garbage", "empty"])
        if thorough and n < 2000 and rng.random() < 0.1:
            body = (b"\x00" * rng.choice([66000, 131000, 70000]))
        z = _gz(body, rng.choice([1, 6, 9]))
        if gz == "trunc_data":
            cut = rng.randint(1, max(1, len(z) - 9)) if rng.random() < 0.7 else len(z) - 9
            z = z[:max(0, cut)]
        elif gz == "trunc_trailer":
            z = z[:len(z) - rng.randint(1, 8)]
        elif gz == "garbage":
            z = z + rng.choice([b"X", b"garbage!", b"\x1f\x8b", b"\r\n"])
        elif gz == "empty":
            z = b""
        wire_body = z
        hdrs.append(b"Content-Encoding: " + rng.choice([b"gzip", b"gzip", b"gzip", b"GZIP",
                                                        b"Gzip", b"identity", b"deflate"]))
        mutated |= gz not in ("valid",)
    nobody = method == "HEAD" or code in (204, 304)
    fr = rng.random()
    if nobody:
        framing = rng.choice(["none", "none", "cl", "cl", "cl0", "chunked", "badcl", "clte"])
    else:
        framing = "cl" if fr < 0.45 else "chunked" if fr < 0.75 else "close" if fr < 0.93 \
            else rng.choice(["badcl", "clte", "badte"])
    send_body = True
    if nobody:
        send_body = rng.random() < 0.35
    body_parts = []
    nb = len(wire_body)
    if framing == "cl" or framing == "cl0":
        val = b"%d" % (0 if framing == "cl0" else nb)
        if rng.random() < 0.16:
            mutated = True
            form = rng.choice(["lead0", "plus", "under", "hex", "dup_same", "dup_sp", "dup_ows",
                               "dup_diff", "two_lines", "two_lines_diff", "empty", "huge", "short",
                               "long", "neg", "sp_inside", "trailing_junk", "tab", "dot"])
            if form == "lead0":
                val = b"0" + val
            elif form == "plus":
                val = b"+" + val
            elif form == "under":
                val = val[:1] + b"_" + val[1:] if len(val) > 1 else val + b"_"
            elif form == "hex":
                val = b"0x%x" % nb
            elif form == "dup_same":
                val = val + b"," + val
            elif form == "dup_sp":
                val = val + b", " + val
            elif form == "dup_ows":
                val = val + b" ," + val
            elif form == "dup_diff":
                val = val + b"," + b"%d" % (nb + 1)
            elif form == "two_lines":
                hdrs.append(b"Content-Length: " + val)
            elif form == "two_lines_diff":
                hdrs.append(b"Content-Length: %d" % (nb + 1))
            elif form == "empty":
                val = b""
            elif form == "huge":
                val = b"1" + b"0" * 30
            elif form == "short":
                val = b"%d" % max(0, nb - rng.randint(1, 3))
            elif form == "long":
                val = b"%d" % (nb + rng.randint(1, 3))
            elif form == "neg":
                val = b"-" + val
            elif form == "sp_inside":
                val = val + b" 0"
            elif form == "trailing_junk":
                val = val + b"abc"
            elif form == "tab":
                val = b"\t" + val + b"\t"
            elif form == "dot":
                val = val + b".0"
        hdrs.insert(rng.randrange(len(hdrs) + 1), b"Content-Length: " + val)
        body_parts.append(("body", wire_body))
    elif framing == "chunked":
        te = b"chunked"
        if rng.random() < 0.14:
            mutated = True
            te = rng.choice([b"Chunked", b"CHUNKED", b"gzip, chunked", b"chunked, chunked",
                             b",chunked", b"identity", b"chunked,", b" chunked ", b"chunked;q=1",
                             b"chunked, gzip", b"x-chunked"])
            if rng.random() < 0.15:
                hdrs.append(b"Transfer-Encoding: chunked")
        hdrs.insert(rng.randrange(len(hdrs) + 1), b"Transfer-Encoding: " + te)
        cm = rng.random() < 0.2
        mutated |= cm
        _chunked(rng, wire_body, body_parts, cm)
    elif framing == "close":
        body_parts.append(("body", wire_body))
    elif framing == "badcl":
        mutated = True
        hdrs.append(b"Content-Length: " + rng.choice([b"abc", b"", b"-1", b"1,2", b"+0", b"0x0"]))
        body_parts.append(("body", wire_body))
    elif framing == "clte":
        mutated = True
        hdrs.append(b"Content-Length: %d" % nb)
        hdrs.append(b"Transfer-Encoding: chunked")
        if rng.random() < 0.5:
            _chunked(rng, wire_body, body_parts, False)
        else:
            body_parts.append(("body", wire_body))
    elif framing == "badte":
        mutated = True
        hdrs.append(b"Transfer-Encoding: " + rng.choice([b"gzip", b"identity", b"", b"chunked x"]))
        body_parts.append(("body", wire_body))
    for h in hdrs:
        e = eol_for(style)
        parts.append(("hdr", h.replace(b"\r\n", e) + e))
    parts.append(("blank", eol_for(style)))
    if send_body:
        parts.extend(p for p in body_parts if p[1])
    if rng.random() < 0.13:
        parts.append(("garbage", rng.choice([b"X", b"GARBAGE", b"\r\n", b"HTTP/1.1 200 OK\r\n"
                                             b"Content-Length: 1\r\n\r\nZ", b"0\r\n\r\n"])))
    stream = b"".join(p[1] for p in parts)
    # structural offsets
    bounds = []
    off = 0
    for _, b in parts:
        off += len(b)
        bounds.append(off)
    # ---- early FIN / RST
    total = len(stream)
    if rng.random() < 0.22 and total:
        b = rng.choice(bounds)
        k = rng.choice([b - 2, b - 1, b, b + 1, rng.randrange(total + 1), total - 1, total - 2])
        k = max(0, min(total, k))
        stream = stream[:k]
    end = {"kind": "rst" if rng.random() < 0.08 else "fin", "gap": rng.choice([0, 0, 1, 3])}
    # ---- segmentation
    segs = []
    mode = rng.random()
    left = len(stream)
    pos = 0
    bset = sorted(set(x for b in bounds for x in (b - 1, b, b + 1) if 0 < x < len(stream)))
    if mode < 0.22 and len(stream) <= 600:
        while left > 0:
            segs.append([1, rng.choice([0, 1, 1, 1, 2])])
            left -= 1
    elif mode < 0.5 and bset:
        cuts = sorted(rng.sample(bset, min(len(bset), rng.randint(1, 6))))
        prev = 0
        for c in cuts + [len(stream)]:
            if c > prev:
                segs.append([c - prev, rng.choice([0, 1, 1, 2, 7])])
                prev = c
    elif mode < 0.8:
        while left > 0:
            ln = rng.randint(1, max(1, min(left, rng.choice([3, 16, 100, 4096, 70000]))))
            if len(segs) > 400:
                ln = left
            segs.append([ln, rng.choice([0, 1, 1, 2, 7])])
            left -= ln
    else:
        segs.append([max(1, left), 0])
    # ---- tapes
    tapes = {}
    t = rng.random()
    if t < 0.2:
        tapes["recv_cap"] = {"v": [1], "cycle": True} if len(stream) < 1500 else \
            {"v": [rng.randint(50, 3000)], "cycle": True}
    elif t < 0.5:
        tapes["recv_cap"] = {"v": [rng.choice([0, 0, 1, 2, 3, 7, 16, 63, 64, 65])
                                   for _ in range(rng.randint(1, 12))],
                             "cycle": rng.random() < 0.5}
    if rng.random() < 0.15:
        tapes["spurious"] = [rng.choice([0, 1]) for _ in range(8)]
    if rng.random() < 0.15:
        tapes["defer"] = [rng.choice([0, 1]) for _ in range(8)]
    if rng.random() < 0.12:
        tapes["late"] = [rng.choice([0, 1, 3]) for _ in range(6)]
    if rng.random() < 0.15:
        tapes["delay"] = [rng.choice([0, 1, 2]) for _ in range(6)]
    if rng.random() < 0.15:
        tapes["send_cap"] = [rng.choice([0, 1, 5, 40, -1]) for _ in range(6)]
    # ---- limits, relative to this response
    mbs = None
    if rng.random() < 0.4:
        base = rng.choice([len(body), len(wire_body), len(body), 0])
        mbs = max(1, base + rng.choice([-1, 0, 0, 1, 1, -base // 2, base, 5]))
        # the two smallest limits: 0 = "no body bytes at all" (empty bodies are still fine)
        r0 = rng.random()
        if r0 < 0.15:
            mbs = 0
        elif r0 < 0.22:
            mbs = 1
    mhs = None
    if rng.random() < 0.2:
        h = bounds[[p[0] for p in parts].index("blank")] if any(p[0] == "blank" for p in parts) \
            else 100
        mhs = max(1, h + rng.choice([-1, 0, 0, 1, -10, 10]))
    eager = rng.random() < 0.15
    req_body = 0
    if method == "POST":
        req_body = rng.choice([0, 1, 10, 500, 3000])
    knobs = {
        "method": method, "decompress": decompress,
        "streaming": rng.random() < 0.4, "header_cb": rng.random() < 0.3,
        "max_body_size": mbs, "max_header_size": mhs,
        "req_body": req_body, "eager": eager,
        "window": rng.choice([16, 64, 300]) if eager and req_body > 100 else 0,
        "no_timeout": rng.random() < 0.03,
    }
    return {
        "property": ID, "version": 1, "knobs": knobs,
        "stream": "hex:" + stream.hex(),
        "segs": segs, "end": end,
        "baseline": rng.random() < 0.25,
        "tapes": tapes,
    }


def validate(scn):
    try:
        s = scn["stream"]
        bytes.fromhex(s[4:])
        if scn["knobs"].get("max_body_size") is not None and scn["knobs"]["max_body_size"] < 0:
            return False
        return (s.startswith("hex:") and isinstance(scn["knobs"], dict)
                and scn["knobs"].get("method") in ("GET", "HEAD", "POST")
                and all(isinstance(x, list) and len(x) == 2 for x in scn["segs"])
                and scn["end"]["kind"] in ("fin", "rst"))
    except Exception:
        return False


def simplify(scn):
    """Extra shrink candidates: drop one header/interim line, drop bytes after the head,
    one segment, no tapes."""
    try:
        data = bytes.fromhex(scn["stream"][4:])
    except Exception:
        return
    if scn.get("segs") and len(scn["segs"]) > 1:
        c = dict(scn)
        c["segs"] = []
        yield c
    if scn.get("tapes"):
        c = dict(scn)
        c["tapes"] = {}
        yield c
    pos = 0
    n = 0
    while n < 40:
        lf = data.find(b"\n", pos)
        if lf < 0:
            break
        c = dict(scn)
        c["stream"] = "hex:" + (data[:pos] + data[lf + 1:]).hex()
        yield c
        pos = lf + 1
        n += 1


# --------------------------------------------------------------------------
# one fetch in one simulated world


def _fetch_once(scn, data, tapes, segs, full_log, want_stats):
    from tornado.simple_httpclient import SimpleAsyncHTTPClient
    from tornado.httpclient import HTTPRequest

    knobs = scn["knobs"]
    end = scn.get("end") or {"kind": "fin", "gap": 0}
    out = {"result": None, "chunks": [], "hdr_lines": 0, "late_calls": 0, "req_seen": False,
           "before_request_done": False, "arrivals": 0}
    window = knobs.get("window") or 65536
    with SimEnv(tapes, max_iters=300_000, window=max(1, window), full_log=full_log) as env:
        loop = env.loop
        req_body = b"q" * max(0, knobs.get("req_body") or 0)
        state = {"done": False, "served": 0}

        def send_response(peer):
            first = True
            off = 0
            n = 0
            for ln, gap in segs:
                if off >= len(data):
                    break
                ln = max(1, ln)
                g = max(0, gap)
                peer.send(data[off:off + ln], gap=0 if first else g)
                if first or g > 0:
                    n += 1
                first = False
                off += ln
            if off < len(data):
                peer.send(data[off:], gap=1)
                n += 1
            out["arrivals"] = n
            gap = max(0, end.get("gap", 0))
            if end.get("kind") == "rst":
                tx = peer.tx
                base = max(tx.last_arrival, loop.time())
                peer.reset(delay=(base - loop.time()) / UNIT + gap)
            else:
                peer.half_close(gap=gap)

        async def script(peer):
            state["served"] += 1
            if state["served"] > 1:
                peer.reset()
                return
            if knobs.get("eager"):
                if knobs.get("window"):
                    peer.auto = False
                send_response(peer)
                hdr_end = peer.received.find(b"\r\n\r\n")
                if hdr_end < 0 or len(peer.received) < hdr_end + 4 + len(req_body):
                    out["before_request_done"] = True
                if not peer.auto:
                    import asyncio
                    await asyncio.sleep(2 * UNIT)
                    peer.auto = True
                    if not peer.closed:
                        peer.consume(None)
                out["req_seen"] = True
                return
            i = await peer.wait_for(b"\r\n\r\n")
            if i < 0:
                return
            await peer.wait_bytes(i + 4 + len(req_body))
            out["req_seen"] = True
            send_response(peer)

        env.net.raw_listen("127.0.0.1", 8080, lambda p: loop.create_task(script(p)))

        async def main():
            kw = {}
            if knobs.get("max_body_size") is not None:
                kw["max_body_size"] = knobs["max_body_size"]
            if knobs.get("max_header_size"):
                kw["max_header_size"] = knobs["max_header_size"]
            client = SimpleAsyncHTTPClient(force_instance=True, **kw)
            rkw = {}
            if knobs.get("streaming"):
                def on_chunk(c):
                    if state["done"]:
                        out["late_calls"] += 1
                    out["chunks"].append(bytes(c))
                rkw["streaming_callback"] = on_chunk
            if knobs.get("header_cb"):
                def on_hdr(line):
                    if state["done"]:
                        out["late_calls"] += 1
                    out["hdr_lines"] += 1
                rkw["header_callback"] = on_hdr
            if knobs.get("no_timeout"):
                rkw["request_timeout"] = 0
            method = knobs.get("method", "GET")
            req = HTTPRequest("http://127.0.0.1:8080/r", method=method,
                              body=req_body if method == "POST" else None,
                              decompress_response=bool(knobs.get("decompress")),
                              follow_redirects=False, **rkw)
            try:
                r = await client.fetch(req, raise_error=False)
                out["result"] = ("ok", r.code, r.reason, list(r.headers.get_all()), r.body)
            except Exception as e:  # any failure is "fails with an error"
                out["result"] = ("fail", type(e).__name__, str(e)[:80])
            state["done"] = True
            env.log.ev("result", out["result"][0], out["result"][1],
                       len(out["result"][4]) if out["result"][0] == "ok" else None)
            await loop.idle()
            client.close()

        out["status"] = env.run(main())
        out["main_exception"] = repr(getattr(env, "main_exception", None))
        out["leaked"] = env.net.leaked()
        out["loop_errors"] = list(env.loop_errors)
        out["cb_errors"] = [r for r in env.records if r[3] == "InvalidStateError"
                            or "InvalidStateError" in r[2]] + \
            [e for e in env.loop_errors if e[1] == "InvalidStateError"]
        if want_stats:
            out["stats"] = env.stats()
            out["log_head"] = env.log.head
            out["log_full"] = env.log.full
    return out


def _summ(o, knobs):
    result = o["result"]
    if result is None:
        return ("none",)
    if result[0] == "ok":
        body = b"".join(o["chunks"]) if knobs.get("streaming") else result[4]
        return ("ok", result[1], result[2], tuple(sorted(
            (k, tuple(v)) for k, v in headers_multimap(result[3]).items())), body)
    return ("fail",)


def run(scn, full_log=False):
    res = _run(scn, full_log)
    viol = res["violations"]
    if any("umbrella" in v for v in viol):
        # Interim responses precede the final one.  Does the same thing go wrong without
        # them?  Then it is not the interim handling: report it under its own key.
        data = bytes.fromhex(scn["stream"][4:])
        start = res["final_start"]
        segs, off = [], 0
        for sg in scn.get("segs") or ():
            ln = max(1, sg[0])
            keep = off + ln - max(off, start)
            if keep > 0:
                segs.append([keep, sg[1]])
            off += ln
        plain = dict(scn, stream="hex:" + data[start:].hex(), segs=segs, baseline=False)
        same = {v["key"] for v in _run(plain, False)["violations"]}
        for v in viol:
            u = v.pop("umbrella", None)
            if u is not None and v["key"] not in same:
                v["rule"] = v["key"] = u
    res.pop("final_start", None)
    return res


def _run(scn, full_log=False):
    from tornado import httputil

    knobs = scn["knobs"]
    data = bytes.fromhex(scn["stream"][4:])
    end = scn.get("end") or {"kind": "fin"}
    method = knobs.get("method", "GET")
    decompress = bool(knobs.get("decompress"))
    mbs = knobs.get("max_body_size")
    mhs = knobs.get("max_header_size") or 65536
    ref = read_response(data, end=end.get("kind", "fin"), method=method, max_header_size=mhs,
                        max_body_size=mbs, decompress=decompress)
    viol = []
    probes = {}
    # What goes wrong only because interim (1xx) responses precede the final one is reported
    # under one umbrella key per symptom (see run()): the handling of interim responses has
    # its own defects, whose secondary symptoms would otherwise pollute every other class.
    if not ref.interim:
        umb = None
    elif any("content-encoding" in headers_multimap(ic[2]) for ic in ref.interim):
        umb = "c08.after_interim_with_content_encoding."
    else:
        umb = "c08.after_interim."

    def bad(rule, msg, key=None):
        # rule == key: the shrinker only keeps candidates that fail with the same *rule*, and a
        # violation must not drift into the class of another (possibly known) defect
        v = {"rule": key or rule, "key": key or rule, "msg": msg}
        if umb is not None and rule.startswith("c08.") and \
                not (key or rule).endswith("incomplete_close_delimited_rst"):
            # (a close-delimited body cut by RST is accepted with or without interim
            # responses in front of it: IOStream reports ECONNRESET as a plain close.  The
            # interim-stripped rerun does not always hit the same race, so that class is
            # never filed under the interim umbrella.)
            v["umbrella"] = umb + rule[4:].split(".")[0]
        viol.append(v)

    def probe(name, k=1):
        probes[name] = probes.get(name, 0) + k

    rst = end.get("kind") == "rst"
    may_fail = bool(ref.either) or (rst and ref.kind == "ok")
    # ---- baseline: same stream, one segment, no perturbation
    base = None
    if (scn.get("baseline") or ref.either) and not rst:
        base = _fetch_once(scn, data, None, [[max(1, len(data)), 0]], False, False)
        probe("baseline_runs")
    o = _fetch_once(scn, data, scn.get("tapes"), scn.get("segs") or [[max(1, len(data)), 0]],
                    full_log, True)
    st = o["stats"]
    res = o["result"]
    tag = "+".join(sorted(ref.either)) or "-"
    fc = f"{ref.framing}/{ref.coding or 'identity'}"
    # ---- liveness / harness
    if o["status"] != "done" or res is None:
        if o["status"] in ("step_cap", "time_cap"):
            bad("c08.livelock", f"{o['status']}")
        elif o["status"].startswith("error"):
            bad("harness.main_raised", f"{o['status']} {o['main_exception']}")
        else:
            nt = "no_timeout" if knobs.get("no_timeout") else "timeout"
            bad("c08.hang", f"fetch neither returned nor failed although the server finished its "
                            f"stream and closed the connection ({ref!r}, request_timeout="
                            f"{0 if knobs.get('no_timeout') else 'default'})",
                f"c08.hang/{nt}")
        res = ("none",)
    # ---- differential
    if res[0] == "ok":
        _, code, reason, hdrs, body = res
        delivered = b"".join(o["chunks"]) if knobs.get("streaming") else body
        over = mbs is not None and len(delivered) > mbs
        if ref.framing is None:
            # refused before the framing was known: name it after what Tornado saw
            gh = headers_multimap(hdrs)
            fc = ("chunked" if "transfer-encoding" in gh else "cl" if "content-length" in gh
                  else "close") + "/" + ("gzip" if "x-consumed-content-encoding" in gh
                                         else "identity")
        if ref.interim and any(code == ic[0] for ic in ref.interim) and \
                (ref.kind != "ok" or code != ref.code):
            bad("c08.interim_code_returned",
                f"fetch returned interim status {code} with {len(delivered)} body bytes; "
                f"reference: {ref!r}")
        elif ref.kind != "ok":
            if not (over and ref.why in ("body_too_large", "decoded_body_too_large")):
                bad("c08.accepted_invalid." + ref.why,
                    f"fetch returned {code} {reason!r} body={len(delivered)}B but the strict "
                    f"reader says {ref.kind}: {ref.why}")
        else:
            exp_reason = ref.reason or httputil.responses.get(ref.code, "Unknown")
            exp_h = client_view_headers(ref, decompress)
            got_h = headers_multimap(hdrs)
            if got_h != exp_h and "content-length" in exp_h and "content-length" in got_h:
                # RFC 9110 8.6: a recipient MAY replace a list of identical values by one
                cl = ",".join(exp_h["content-length"]).split(",")
                if len(cl) > 1 and got_h["content-length"] == [cl[0].strip(" \t")]:
                    exp_h = dict(exp_h)
                    exp_h["content-length"] = got_h["content-length"]
                    probe("content_length_list_normalised")
            if code != ref.code:
                bad("c08.wrong_code", f"got {code}, expected {ref.code}")
            else:
                if reason != exp_reason:
                    bad("c08.wrong_reason", f"got {reason!r}, expected {exp_reason!r}")
                if got_h != exp_h:
                    bad("c08.wrong_headers", f"got {got_h!r}, expected {exp_h!r}")
                if delivered != ref.body:
                    bad("c08.wrong_body",
                        f"got {len(delivered)} bytes {delivered[:24]!r}.., expected "
                        f"{len(ref.body)} bytes {ref.body[:24]!r}.. (framing {ref.framing}, "
                        f"coding {ref.coding}, method {method}, code {code})",
                        f"c08.wrong_body/{fc}/{'head' if method == 'HEAD' else code}")
                if knobs.get("streaming") and body != b"":
                    bad("c08.streaming_body_not_empty", f"response.body has {len(body)} bytes")
        if over:
            bad("c08.body_exceeds_max_body_size",
                f"{len(delivered)} body bytes delivered with max_body_size={mbs} "
                f"(framing {ref.framing}, coding {ref.coding})",
                f"c08.body_exceeds_max_body_size/{fc}")
    elif res[0] == "fail":
        if ref.kind == "ok" and not may_fail:
            feat = "+".join(sorted(ref.lenient)) or "-"
            bad("c08.failed_though_valid",
                f"fetch failed with {res[1]}: {res[2]}; the strict reader accepts: {ref!r}",
                f"c08.failed_though_valid/{fc}/{feat}/{res[1]}")
        if knobs.get("streaming"):
            got = b"".join(o["chunks"])
            if ref.coding is None and not decompress:
                src = ref.body if ref.kind == "ok" else ref.partial
                if not src.startswith(got):
                    probe("streamed_non_body_bytes_before_failure")
            if mbs is not None and len(got) > mbs:
                bad("c08.body_exceeds_max_body_size",
                    f"{len(got)} body bytes streamed with max_body_size={mbs} before failing",
                    f"c08.body_exceeds_max_body_size/{fc}")
    if o["late_calls"]:
        bad("c08.callback_after_completion",
            f"{o['late_calls']} streaming/header callback calls after the fetch completed")
    if o["cb_errors"]:
        bad("c08.double_completion", f"{o['cb_errors'][0]!r}")
    if o["leaked"] and o["status"] == "done":
        bad("c08.socket_leak", f"fds still open after the fetch completed: {o['leaked']}")
    # ---- segmentation independence
    if base is not None and base["result"] is not None and res[0] in ("ok", "fail"):
        a, b = _summ(base, knobs), _summ(o, knobs)
        if a != b:
            bad("c08.segmentation_dependent",
                f"one-segment delivery gave {a[:3]!r}.., this segmentation gave {b[:3]!r}.. "
                f"(ref {ref!r})",
                f"c08.segmentation_dependent/{a[0]}->{b[0]}/{tag}")
    # ---- probes
    probe("ref_" + ref.kind)
    if ref.kind != "ok":
        probe("why_" + ref.why)
    for e in ref.either:
        probe("either_" + e)
    for e in ref.lenient:
        probe("lenient_" + e)
    if ref.interim:
        probe("interim")
        if ref.kind != "ok":
            probe("interim_then_refused")
    if ref.kind == "ok":
        probe("framing_" + ref.framing)
        if ref.coding:
            probe("gzip_decoded")
        if method == "HEAD" and (ref.multimap().get("content-length") or
                                 ref.multimap().get("transfer-encoding")):
            probe("head_with_body_headers")
        if ref.code in (204, 304) and ref.multimap().get("content-length"):
            probe("%d_with_content_length" % ref.code)
        if mbs is not None and len(ref.body) == mbs and ref.body:
            probe("body_exactly_at_limit")
        if knobs.get("max_header_size") and ref.head_len == mhs:
            probe("header_exactly_at_limit")
        if ref.end < len(data):
            probe("bytes_after_message")
    if res[0] == "ok":
        probe("fetch_ok")
    elif res[0] == "fail":
        probe("fetch_fail_" + res[1])
        if res[1] == "HTTPTimeoutError":
            probe("failure_reported_only_by_timeout")
    if may_fail and res[0] == "ok":
        probe("either_accepted")
    if may_fail and res[0] == "fail":
        probe("either_refused")
    if knobs.get("streaming") and o["chunks"]:
        probe("streamed_chunks", len(o["chunks"]))
    if knobs.get("header_cb") and o["hdr_lines"]:
        probe("header_callback_lines", o["hdr_lines"])
    if o["before_request_done"]:
        probe("response_before_request_fully_sent")
    if rst:
        probe("end_rst")
    # where did the arrival boundaries fall?
    off = 0
    first = True
    hdr_end = data.find(b"\r\n\r\n")
    for sg in scn.get("segs") or ():
        ln, gap = max(1, sg[0]), sg[1]
        if not first and gap > 0 and 0 < off < len(data):
            if data[off - 1:off + 1] == b"\r\n":
                probe("arrival_cut_between_cr_and_lf")
            if hdr_end >= 0 and hdr_end < off < hdr_end + 4:
                probe("arrival_cut_inside_header_terminator")
            if ref.framing == "chunked" and off > hdr_end + 4:
                probe("arrival_cut_inside_chunked_body")
        first = False
        off += ln
    if mbs is not None:
        probe("max_body_size_set")
        if mbs == 0:
            probe("max_body_size_zero")
            if ref.kind == "ok" and not ref.body:
                probe("max_body_size_zero_empty_body_ok")
            if ref.why in ("body_too_large", "decoded_body_too_large"):
                probe("max_body_size_zero_refuses_body")
    faults = st["faults"]
    st["probes"].update(probes)
    interesting = (ref.kind != "ok" or bool(ref.body) or bool(ref.interim) or bool(ref.either)
                   or bool(ref.lenient))
    nontrivial = (o["req_seen"] and interesting
                  and (o["arrivals"] >= 2 or faults.get("short_read", 0) > 0))
    outcome = {"ref": repr(ref), "got": [res[0]] + ([res[1]] if len(res) > 1 else [])}
    return {"violations": viol, "nontrivial": bool(nontrivial), "stats": st,
            "log_head": o["log_head"], "log_full": o["log_full"], "outcome": outcome,
            "final_start": ref.final_start}


if __name__ == "__main__":  # developer aid: disagreement classes over N seeds
    import sys
    from collections import Counter
    from sim.runner import sub_rng
    n = int(sys.argv[1]) if len(sys.argv) > 1 else 2000
    tier = sys.argv[2] if len(sys.argv) > 2 else "quick"
    cnt = Counter()
    first = {}
    for i in range(n):
        scn = gen(sub_rng(0, ID, i), tier, i)
        r = run(scn)
        for v in r["violations"]:
            cnt[v["key"]] += 1
            first.setdefault(v["key"], (i, v["msg"]))
    for k, c in cnt.most_common():
        print(c, k, first[k])
