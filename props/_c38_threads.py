"""C38, cross-thread part: IOLoop.add_callback from foreign threads.

1-3 foreign OS threads (baton-scheduled, sim/threads.py) call
``IOLoop.add_callback`` on a running IOLoop backed by a SimLoop while the loop
thread runs its own program (add_callback from the loop thread, sleeps, ticks,
waiting for idleness).  Wake-up path under test:
``BaseAsyncIOLoop.add_callback -> asyncio.get_running_loop() (fails off-thread)
-> BaseEventLoop.call_soon_threadsafe -> SimLoop._write_to_self -> the loop
leaves its poller`` (BatonLoop's block hook).  The ``thread`` tape decides who
runs at every yield point: each foreign step, call_soon_threadsafe, loop
iteration boundaries, the loop going to sleep; in line mode also every source
line of tornado/platform/asyncio.py and tornado/ioloop.py.

Oracle (statement of C38): every callback whose add_callback returned runs
exactly once, on the loop thread, in scheduling order per scheduling thread;
nothing is lost when add_callback races with the loop going idle (the run ends
at quiescence: no thread can run, no timer left).

Used by props/c38.py (mode "threads"): ENABLED / SHARE / gen / run / validate.
Every run executes in a forked child.
"""

import asyncio
import sys

# everything SimEnv patches must be imported before the fork, not once per child
import tornado.httpclient  # noqa: F401
import tornado.simple_httpclient  # noqa: F401
import tornado.tcpclient  # noqa: F401
import tornado.web  # noqa: F401
import tornado.websocket  # noqa: F401
from tornado.ioloop import IOLoop

from sim.env import SimEnv, UNIT
from sim.threads import Baton, BatonAbort, BatonLoop, line_tracer, ForkRunner, DONE, BLOCKED

import os as _os
ENABLED = _os.environ.get("VERIF_C38_THREADS", "1") != "0"  # VERIF_C38_THREADS=0 switches the thread mode off
SHARE = 0.04  # a thread scenario costs 30-50x a single-threaded one
WALL = 30.0
ID = "C38"

RULE_THREADS = ("mode threads: 1-3 foreign threads each issuing 1-6 add_callback calls with pauses, "
                "some of them inside their own running event loop, started at generated points of a loop-thread program (own add_callbacks, raising "
                "callbacks, sleeps, ticks, idle waits), thread-schedule tape (random switch rate or "
                "1-3 placed pre-emptions; line-level in part of thorough). non-trivial = >=1 "
                "foreign add_callback AND >=1 scheduling decision against the default AND the loop "
                "was asleep in its poller when a foreign add_callback arrived at least once")

MAIN_OPS = ("start", "cb", "cb_raise", "sleep", "tick", "idle", "join")
T_OPS = ("cb", "cb_raise", "pause")


def _tape(rng, line):
    n = 200 if not line else 1200
    style = rng.random()
    if style < 0.05:
        return []
    if style < 0.40:
        horizon = rng.choice([8, 20, 50, 120]) * (6 if line else 1)
        t = [0] * horizon
        for _ in range(rng.randint(1, 3)):
            t[rng.randrange(horizon)] = rng.choice([1, 1, 2, 3])
        while t and t[-1] == 0:
            t.pop()
        return t
    p = rng.choice([0.05, 0.15, 0.3, 0.5, 0.7])
    return [rng.choice([1, 1, 2, 3]) if rng.random() < p else 0 for _ in range(n)]


def gen(rng, tier, index):
    line = tier == "thorough" and rng.random() < 0.3
    nth = rng.choice([1, 1, 2, 2, 3])
    threads = []
    for _ in range(nth):
        steps = []
        for _ in range(rng.randint(1, 6)):
            x = rng.random()
            steps.append({"op": "cb" if x < 0.7 else "cb_raise" if x < 0.8 else "pause"})
        if not any(s["op"] != "pause" for s in steps):
            steps.append({"op": "cb"})
        threads.append(steps)
    # a foreign thread may itself be inside its own running event loop (e.g. a coroutine of
    # another asyncio loop handing work to this IOLoop): asyncio.get_running_loop() then
    # succeeds in that thread and returns a loop that is NOT the target's
    inloop = [rng.random() < 0.4 for _ in range(nth)]
    main = []
    starts = list(range(nth))
    rng.shuffle(starts)
    nops = rng.randint(nth, nth + 7)
    pos = sorted(rng.sample(range(nops), nth))
    k = 0
    for i in range(nops):
        if k < nth and i == pos[k]:
            main.append({"op": "start", "t": starts[k]})
            k += 1
            continue
        x = rng.random()
        if x < 0.25:
            main.append({"op": "cb"})
        elif x < 0.30:
            main.append({"op": "cb_raise"})
        elif x < 0.50:
            main.append({"op": "sleep", "k": rng.choice([1, 2, 5])})
        elif x < 0.82:
            main.append({"op": "tick"})
        elif x < 0.93:
            main.append({"op": "idle"})
        else:
            main.append({"op": "join", "t": rng.randrange(nth)})
    return {"property": ID, "version": 1, "mode": "threads", "knobs": {"line": line},
            "threads": threads, "inloop": inloop, "main": main,
            "tapes": {"thread": _tape(rng, line)}}


def validate(scn):
    try:
        th = scn["threads"]
        if not (0 <= len(th) <= 6):
            return False
        for steps in th:
            if any(s["op"] not in T_OPS for s in steps):
                return False
        for o in scn["main"]:
            if o["op"] not in MAIN_OPS:
                return False
            if "t" in o and not (0 <= o["t"] < max(1, len(th))):
                return False
        if not isinstance(scn.get("inloop", []), list):
            return False
        return isinstance(scn.get("tapes", {}), dict) and isinstance(scn["knobs"], dict)
    except Exception:
        return False


class _Boom(Exception):
    pass


class _ForeignLoop(asyncio.AbstractEventLoop):
    """Stands for "some other event loop is running in this (foreign) thread"."""

    def is_running(self):
        return True

    def is_closed(self):
        return False

    def get_debug(self):
        return False


def _child(request, result):
    scn = request["scn"]
    full_log = request["full_log"]
    viol = []
    probes = {}
    done = [False]

    def bad(rule, msg, key=None):
        for v in viol:
            if v["key"] == (key or rule):
                return
        viol.append({"rule": rule, "key": key or rule, "msg": msg})

    def probe(name, n=1):
        probes[name] = probes.get(name, 0) + n

    env = SimEnv(scn.get("tapes"), max_iters=6000, full_log=full_log, allow=("threads",))
    loop = env.loop
    loop.__class__ = BatonLoop
    log = env.log
    line = bool(scn["knobs"].get("line"))

    sched_seq = [0]
    run_seq = [0]
    cbs = {}  # ident -> (scheduling thread number, scheduling seq, raises)
    runs = {}  # ident -> [(run seq, thread idx)]
    started = {}
    state = {"io": None, "phase": "setup", "status": None}

    def finish(fatal=None):
        if done[0]:
            return
        done[0] = True
        sys.settrace(None)
        if fatal is not None:
            kind, detail = fatal
            if kind == "deadlock":
                bad("threads.deadlock", f"no thread can run: {detail}; schedule tail: "
                    + sched.trail_text(30), "threads.deadlock/" + detail)
            else:
                bad("threads." + kind, f"{kind} at {detail} after {sched.steps} scheduler steps; "
                    "schedule tail: " + sched.trail_text(30))
        # ---- history
        per_thread = {}
        for ident in sorted(cbs):
            th, seq, _ = cbs[ident]
            rr = runs.get(ident, ())
            if len(rr) == 0:
                bad("once.callback_lost", f"callback {ident} scheduled with add_callback by thread "
                    f"{th} never ran (status {state['status']}); threads: {sched.describe()}; "
                    "schedule tail: " + sched.trail_text(30),
                    "once.callback_lost/" + ("foreign" if th else "loop"))
            elif len(rr) > 1:
                bad("once.callback_duplicated", f"callback {ident} ran {len(rr)} times")
            else:
                per_thread.setdefault(th, []).append((seq, rr[0][0], ident))
            for _, tix in rr:
                if tix != 0:
                    bad("thread.wrong_thread", f"callback {ident} ran on thread index {tix}, not on "
                        "the loop thread")
        for th in sorted(per_thread):
            lst = sorted(per_thread[th])
            for a, b in zip(lst, lst[1:]):
                if a[1] > b[1]:
                    bad("fifo.order", f"callback {a[2]} was scheduled before {b[2]} by the same "
                        f"thread ({th}) but ran after it; schedule tail: " + sched.trail_text(30))
                    break
        n_err = len([r for r in env.records if r[0] == "tornado.application" and r[1] == "ERROR"])
        n_raised = sum(len(runs.get(i, ())) for i in cbs if cbs[i][2])
        if n_err != n_raised:
            bad("error.log_mismatch", f"{n_raised} callbacks raised but {n_err} ERROR "
                "records on tornado.application")
        if loop.unwoken:
            probe("queued_without_wakeup", len(loop.unwoken))
        for msg, exc in env.loop_errors:
            bad("loop.callback_exception", f"{msg}: {exc}", f"loop.callback_exception/{exc}")
        for r in sched.threads:
            if r.exc is not None:
                bad("harness.thread_exception", f"{type(r.exc).__name__}: {r.exc} in {r.name}",
                    "harness.thread_exception/" + type(r.exc).__name__)
        st = env.stats()
        st["probes"].update(probes)
        st["probes"]["thread_switches"] = sched.switches
        st["probes"]["sched_preempts"] = sched.preempts
        st["faults"]["preemption"] = sched.preempts
        nforeign = sum(1 for v in cbs.values() if v[0])
        nontrivial = bool(nforeign >= 1 and sched.preempts >= 1
                          and probes.get("foreign_post_while_loop_asleep", 0) >= 1)
        clean = fatal is None and all(t.state == DONE for t in sched.threads[1:])
        payload = {
            "violations": viol, "nontrivial": nontrivial, "stats": st,
            "log_head": log.head[:120],
            "log_full": log.full,
            "outcome": {"status": state["status"], "scheduled": len(cbs),
                        "ran": sum(len(v) for v in runs.values()),
                        "threads": sched.describe()},
        }
        if clean:
            loop.sched = None
            loop.block_hook = None
            result.send(payload, clean=True)
        elif result.can_leak():
            # abandon the run in place (see sim.threads.Baton.fatal): verdict is final, the
            # main thread unwinds to _child() and delivers it, parked threads stay parked
            state["verdict"] = payload
            sched.dead = True
            loop.sched = None
            loop.block_hook = None
        else:
            result.send(payload, clean=False)

    sched = Baton(env.tapes.draw, log, max_steps=60000 if line else 12000, fair_cap=8000,
                  on_fatal=lambda kind, detail: finish((kind, detail)))
    sched.adopt("L")
    loop.attach(sched)

    def on_post(cb):
        if sched.cur.idx != 0:
            lt = sched.threads[0]
            if lt.state == BLOCKED and lt.where == "loop.sleep":
                probe("foreign_post_while_loop_asleep")
            else:
                probe("foreign_post_while_loop_busy")
        return cb
    loop.on_post = on_post

    def callback(ident):
        run_seq[0] += 1
        runs.setdefault(ident, []).append((run_seq[0], sched.cur.idx))
        log.ev("run", ident, run_seq[0], sched.cur.idx)
        if cbs[ident][2]:
            raise _Boom(ident)

    def schedule(th, raises):
        """add_callback from scheduling thread number ``th`` (0 = loop thread)."""
        sched_seq[0] += 1
        ident = "t%d.%d" % (th, sched_seq[0])
        cbs[ident] = (th, sched_seq[0], raises)
        log.ev("sched", ident, sched.cur.idx)
        state["io"].add_callback(callback, ident)

    inloop = scn.get("inloop") or []

    def foreign(tnum, steps):
        own_loop = tnum - 1 < len(inloop) and bool(inloop[tnum - 1])

        def body():
            if own_loop:
                # what run_forever() does for the thread it runs in
                asyncio.events._set_running_loop(_ForeignLoop())
                probe("foreign_thread_inside_own_loop")
            try:
                for s in steps:
                    sched.yield_("foreign.step")
                    if s["op"] == "pause":
                        continue
                    if own_loop:
                        lt = sched.threads[0]
                        if lt.state == BLOCKED and lt.where == "loop.sleep":
                            probe("add_callback_from_other_running_loop_while_target_asleep")
                    schedule(tnum, s["op"] == "cb_raise")
            finally:
                if own_loop:
                    asyncio.events._set_running_loop(None)
            probe("foreign_thread_finished")
        return body

    async def main():
        state["io"] = IOLoop.current()
        state["phase"] = "program"
        for n, op in enumerate(scn["main"]):
            kind = op["op"]
            log.ev("op", n, kind)
            if kind == "start":
                t = op.get("t", 0)
                if t in started or t >= len(scn["threads"]):
                    continue
                started[t] = sched.spawn(foreign(t + 1, scn["threads"][t]), "F%d" % (t + 1))
                sched.yield_("thread.start")
            elif kind in ("cb", "cb_raise"):
                schedule(0, kind == "cb_raise")
            elif kind == "sleep":
                await asyncio.sleep(max(0, op.get("k", 1)) * UNIT)
            elif kind == "tick":
                await asyncio.sleep(0)
            elif kind == "idle":
                await loop.idle()
            elif kind == "join":
                r = started.get(op.get("t", 0))
                if r is not None:
                    # asynchronous join: poll between iterations, never blocks the loop thread
                    for _ in range(2000):
                        if r.state == DONE:
                            break
                        await asyncio.sleep(UNIT)
        # threads never started by the program are started now
        for t in range(len(scn["threads"])):
            if t not in started:
                started[t] = sched.spawn(foreign(t + 1, scn["threads"][t]), "F%d" % (t + 1))
        # No switch to round-robin here: "lost" is judged at quiescence (no thread can run,
        # nothing due), which does not depend on fairness, and the finite tape's default
        # (keep running the current thread until it blocks or ends) terminates by itself.
        # No final idle() wait either: resolving it would run whatever sits in the ready
        # queue and so rescue a callback whose wake-up was lost.
        state["phase"] = "drain"

    def on_loop_error(_loop, context):
        # (the core's handler logs the message, whose argument reprs contain addresses)
        exc = context.get("exception")
        name = type(exc).__name__ if exc is not None else None
        env.loop_errors.append((str(context.get("message", "")).split("(")[0][:60], name))
        log.ev("loop_error", name)

    def _run_world():
        if line:
            sched.tracer = line_tracer(sched, ("tornado/platform/asyncio.py", "tornado/ioloop.py"))
            sys.settrace(sched.tracer)
        try:
            status = env.run(main())
        finally:
            sys.settrace(None)
        state["status"] = status
        log.ev("status", status)
        sched.set_fair()
        # quiescent: the loop slept with no timer left and no thread able to run
        alive = [t.name for t in sched.threads[1:] if t.state != DONE]
        if alive:
            bad("harness.thread_alive", f"foreign thread(s) {alive} not finished at quiescence: "
                f"{sched.describe()}")
        if status == "hang":
            bad("threads.main_hang", "quiescent with the loop-thread program pending")
        elif status in ("step_cap", "time_cap"):
            bad("threads." + status, f"{status} after {loop.iterations} iterations")
        elif status.startswith("error"):
            bad("harness.main_raised", f"{status}: {getattr(env, 'main_exception', None)!r}")
        finish()

    try:
        with env:
            loop.set_exception_handler(on_loop_error)
            _run_world()
    except BatonAbort:
        pass
    finally:
        sys.settrace(None)
    if state.get("verdict") is not None and not result.sent:
        result.send(state["verdict"], leaked=True)


_frozen = []
_runner = ForkRunner(_child, wall=WALL)


def run(scn, full_log=False):
    if not _frozen:
        import gc
        gc.collect()
        gc.freeze()
        _frozen.append(1)
    # full_log is what --replay asks for: a replay always gets a process of its own
    return _runner.run({"scn": scn, "full_log": bool(full_log)}, fresh=bool(full_log))


# names used in the lead's brief
gen_threads = gen
run_threads = run
