"""C05 - every started request ends with exactly one finish or close notification.

Real HTTPServer / HTTP1ServerConnection / HTTP1Connection / web.Application on
a SimSocket.  gen() samples a *workload* (one or two requests with bodies, an
application kind, response scripts, back-pressure knobs, 2-3 segmentations);
expand() turns it into one scenario per fault position:

  * client disconnect at EVERY byte offset of the request stream, by FIN and
    by RST, under each segmentation (FIN/RST flavour fixed per segmentation:
    FIN coalesced with the last data segment or one unit later, half-close or
    full close; RST after the data was read or overtaking the last segment);
  * in the response phase at every point where the application is suspended
    (before first write, between flushes, in prepare/data_received) and at
    points of the response byte stream while it drains through a small client
    window;
  * stalls at every offset until body_timeout / idle_connection_timeout fire.

After the fault: server.stop(); await server.close_all_connections().
"""

import asyncio

from tornado import httputil, web
from tornado.iostream import StreamClosedError

from sim.env import SimEnv, UNIT
from props import httprig, _rigx

ID = "C05"
LEVEL = "fault_enumeration"
QUICK_N = 208
THOROUGH_N = 6000
CHUNK = 1
RULE = ("gen(seed) draws a workload: 1-2 requests (Content-Length / chunked bodies, stream <= 300 B "
        "in quick; ~18% carry a framing error after the header block: over-long chunk-size line by "
        "chunk extension or leading zeros, bad chunk size, bad chunk terminator, CL+TE, bad "
        "Content-Length; ~20% of body requests send Expect: 100-continue), application kind (web sync / async sleeping / @stream_request_body incl. early "
        "finish / raw HTTPServerConnectionDelegate incl. answering from headers_received / plain "
        "callable, the latter two with or without "
        "set_close_callback and optionally never finishing), response scripts (sleeps, "
        "writes, awaited flushes), client window + manual consumption (back-pressure), server "
        "chunk_size / body_timeout / idle_connection_timeout, 2-3 segmentations, low-rate "
        "recv_cap/send_cap/defer/spurious/late tapes, shutdown delay. expand() enumerates: FIN and RST "
        "at every byte offset of the request stream under every segmentation; FIN/RST at every "
        "suspension point of the application and on a grid of response-stream positions; a stall "
        "at every offset; one fault-free baseline per segmentation. "
        "non-trivial = the injected fault fired AND a delegate that had received headers was hit by "
        "it: it was told on_connection_close, or its connection close callback / "
        "RequestHandler.on_connection_close ran, or its response write found the stream closed, or "
        "close_all_connections found the connection still open; distinct = distinct scenario hash")
COMPONENTS = {
    "real": ["tornado.httpserver.HTTPServer/_CallableAdapter", "tornado.http1connection.*",
             "tornado.web.Application/RequestHandler/_HandlerDelegate/stream_request_body",
             "tornado.tcpserver.TCPServer.add_socket", "tornado.netutil.add_accept_handler",
             "tornado.iostream.IOStream", "tornado.gen.with_timeout", "tornado.ioloop.IOLoop",
             "asyncio.Future/Task/Handle"],
    "stub": ["event loop poller+clock (sim.loop.SimLoop)", "sockets/network (sim.net)",
             "HTTP client (sim.net.RawPeer script)",
             "applications under test are small scripted handlers written for the harness"],
}
ASSUMPTIONS = [
    "SimNet TCP model: FIN is ordered behind data, RST is not and discards unread data",
    "web handlers used here always terminate; raw/callable applications come with or without a "
    "connection close callback ('nocb'); those with one abandon the response once it has run; some "
    "('never') are long-poll style and never finish the response at all",
    "a delegate is matched to the request it was started for by the request target",
]
NO_SHRINK = ()

_PAD = b"x" * 70000
_NOLOG = (lambda handler: None)


# --------------------------------------------------------------------------
# request stream


def _hexbytes(s):
    if isinstance(s, str) and s.startswith("hex:"):
        try:
            return bytes.fromhex(s[4:])
        except ValueError:
            return b""
    return b""


def build_request(i, r):
    """-> (wire bytes, header length, decoded body)."""
    body = _hexbytes(r.get("body"))
    te = r.get("te", "cl")
    lines = ["%s /%s%d HTTP/1.1" % (r.get("method", "POST"), r.get("hk", "s"), i), "Host: h"]
    if r.get("close"):
        lines.append("Connection: close")
    if r.get("expect"):
        # the server answers "HTTP/1.1 100 (Continue)" before reading the body; the raw client
        # sends the body regardless (allowed) and simply receives the interim response
        lines.append("Expect: 100-continue")
    bad = r.get("bad")  # framing error placed after the header block (see gen)
    if te == "chunked":
        lines.append("Transfer-Encoding: chunked")
        if bad == "clte":
            lines.append("Content-Length: %d" % len(body))
        out = bytearray("\r\n".join(lines).encode("latin1") + b"\r\n\r\n")
        hl = len(out)
        pieces = []
        pos = 0
        for sz in r.get("chunks") or ():
            if pos >= len(body):
                break
            if not isinstance(sz, int) or sz <= 0:
                continue
            pieces.append(body[pos:pos + sz])
            pos += len(pieces[-1])
        if pos < len(body):
            pieces.append(body[pos:])
        badat = r.get("badat") or 0
        badat = max(0, min(badat if isinstance(badat, int) else 0, len(pieces)))
        ext = r.get("extlen")
        ext = ext if isinstance(ext, int) and ext >= 0 else 70
        for j, piece in enumerate(pieces + [b""]):
            size = b"%x" % len(piece)
            if j == badat:
                if bad == "ext":  # (legal) chunk extension, longer than Tornado's 64-byte limit
                    size += b";" + b"e" * ext
                elif bad == "zeros":
                    size = b"0" * ext + size
                elif bad == "size":
                    size = b"zz"
            out += size + b"\r\n"
            if piece:
                out += piece + (b"XY" if bad == "term" and j == badat else b"\r\n")
        out += b"\r\n"
        return bytes(out), hl, body
    if te == "none":
        out = "\r\n".join(lines).encode("latin1") + b"\r\n\r\n"
        return out, len(out), b""
    lines.append(("Content-Length: %dx" if bad == "cl" else "Content-Length: %d") % len(body))
    head = "\r\n".join(lines).encode("latin1") + b"\r\n\r\n"
    return head + body, len(head), body


def build_stream(reqs):
    data = bytearray()
    metas = []
    for i, r in enumerate(reqs):
        w, hl, body = build_request(i, r)
        metas.append({"start": len(data), "hdr_end": len(data) + hl, "end": len(data) + len(w),
                      "body": body, "bad": r.get("bad")})
        data += w
    return bytes(data), metas


# --------------------------------------------------------------------------
# applications under test (scripted; all state in a per-run _St)


class _St:
    def __init__(self, env, scripts):
        self.env = env
        self.log = env.log
        self.scripts = scripts
        self.handlers = []  # per handler / responder record
        self.probes = {}
        self.errors = []
        self.fault = None
        self.fired = False
        self.fire = None  # callable(delay)
        self.hooks_seen = 0

    def script(self, ridx):
        if 0 <= ridx < len(self.scripts):
            return self.scripts[ridx]
        return {"steps": []}

    def new_handler(self, ridx, kind):
        hr = {"n": len(self.handlers), "req": ridx, "kind": kind, "on_finish": 0, "on_close": 0,
              "write_closed": 0, "abandoned": 0, "completed": 0}
        self.handlers.append(hr)
        return hr

    def probe(self, name):
        self.probes[name] = self.probes.get(name, 0) + 1

    def hook(self, ridx, key):
        """Called by the application right before it suspends at point `key`."""
        self.hooks_seen += 1
        f = self.fault
        if f is not None and not self.fired and f.get("phase") == "resp" \
                and f.get("at") == key and f.get("req", 0) == ridx:
            self.fire(f.get("delay", 0))


def _ridx(path):
    try:
        return int(path[2:])
    except (ValueError, TypeError):
        return -1


async def _web_steps(h):
    st, ridx = h.st, h.ridx
    for j, step in enumerate(h.sc.get("steps") or ()):
        if step[0] == "sleep":
            st.hook(ridx, "s%d" % j)
            await asyncio.sleep(step[1] * UNIT)
        else:
            h.write(_PAD[:step[1]])
            if step[2]:
                st.hook(ridx, "s%d" % j)
                try:
                    await h.flush()
                except StreamClosedError:
                    h.hr["write_closed"] += 1
                    st.probe("awaited_flush_failed_closed")
                    return
    h.hr["completed"] = 1


class _H(web.RequestHandler):
    KIND = "web"

    def initialize(self):
        st = self.application.settings["st"]
        self.st = st
        self.ridx = _ridx(self.request.path)
        self.sc = st.script(self.ridx)
        self.hr = st.new_handler(self.ridx, self.KIND)
        self.nd = 0
        if self.request.connection.stream.closed():
            st.probe("handler_started_on_closed_stream")

    def on_finish(self):
        self.hr["on_finish"] += 1
        self.st.log.ev("h", self.hr["n"], "on_finish")

    def on_connection_close(self):
        self.hr["on_close"] += 1
        self.st.log.ev("h", self.hr["n"], "on_connection_close")
        super().on_connection_close()


class _Sync(_H):
    KIND = "web-s"

    def post(self, i):
        for step in self.sc.get("steps") or ():
            if step[0] == "write":
                self.write(_PAD[:step[1]])
                if step[2]:
                    self.flush()
        self.hr["completed"] = 1

    get = put = post


class _Async(_H):
    KIND = "web-a"

    async def post(self, i):
        await _web_steps(self)

    get = put = post


@web.stream_request_body
class _Stream(_H):
    KIND = "web-t"

    def prepare(self):
        sc = self.sc
        if sc.get("prep") or sc.get("early") in ("prepare", "raise"):
            return self._prep()
        return None

    async def _prep(self):
        sc = self.sc
        if sc.get("prep"):
            self.st.hook(self.ridx, "p")
            await asyncio.sleep(sc["prep"] * UNIT)
        if sc.get("early") == "prepare":
            self.st.probe("early_finish_in_prepare")
            self.set_status(403)
            self.finish(b"no")
        elif sc.get("early") == "raise":
            self.st.probe("early_finish_in_prepare")
            raise web.HTTPError(403)

    def data_received(self, chunk):
        n = self.nd
        self.nd += 1
        sc = self.sc
        if sc.get("early") == "data" and n == 0 and not self._finished:
            self.st.probe("early_finish_in_data_received")
            self.finish(b"enough")
            return None
        if sc.get("dr"):
            return self._slow(n)
        return None

    async def _slow(self, n):
        self.st.hook(self.ridx, "d%d" % n)
        await asyncio.sleep(self.sc["dr"] * UNIT)

    async def post(self, i):
        await _web_steps(self)

    get = put = post


class _Resp:
    """Response script over a bare HTTPConnection (raw delegate / plain callable)."""

    def __init__(self, st, conn, ridx, kind):
        self.st = st
        self.conn = conn
        self.ridx = ridx
        self.sc = st.script(ridx)
        self.hr = st.new_handler(ridx, kind)
        self.closed = False
        self.hw = False
        steps = self.sc.get("steps") or ()
        self.total = sum(s[1] for s in steps if s[0] == "write")
        # "nocb": an application that never registers a connection close callback
        # (nothing obliges it to); it then learns of a close only through failed writes
        if not self.sc.get("nocb"):
            conn.set_close_callback(self._on_close)
        else:
            st.probe("app_without_close_callback")
        if conn.stream.closed():
            st.probe("handler_started_on_closed_stream")

    def _on_close(self):
        self.closed = True
        self.hr["on_close"] += 1
        self.st.log.ev("h", self.hr["n"], "close_callback")

    def _write(self, n):
        if not self.hw:
            self.hw = True
            hd = httputil.HTTPHeaders()
            hd["Content-Length"] = str(self.total)
            return self.conn.write_headers(
                httputil.ResponseStartLine("HTTP/1.1", 200, "OK"), hd, _PAD[:n])
        return self.conn.write(_PAD[:n])

    def start(self):
        steps = self.sc.get("steps") or ()
        if any(s[0] == "sleep" or s[2] for s in steps):
            asyncio.ensure_future(self._arun())
        else:
            for s in steps:
                self._write(s[1])
            if self.sc.get("never"):
                return self._park()
            if not self.hw:
                self._write(0)
            self.conn.finish()
            self.hr["completed"] = 1

    def _park(self):
        """Long-poll style: the response is never finished by the application."""
        self.st.probe("response_never_finished")
        self.st.hook(self.ridx, "end")

    def _abandon(self):
        self.hr["abandoned"] = 1
        self.st.probe("response_abandoned_after_close")

    async def _arun(self):
        st = self.st
        try:
            for j, s in enumerate(self.sc.get("steps") or ()):
                if s[0] == "sleep":
                    st.hook(self.ridx, "s%d" % j)
                    await asyncio.sleep(s[1] * UNIT)
                    if self.closed:
                        return self._abandon()
                else:
                    f = self._write(s[1])
                    if s[2]:
                        st.hook(self.ridx, "s%d" % j)
                        try:
                            await f
                        except StreamClosedError:
                            self.hr["write_closed"] += 1
                            st.probe("awaited_flush_failed_closed")
                            return self._abandon()
            if self.closed:
                return self._abandon()
            if self.sc.get("never"):
                return self._park()
            if not self.hw:
                self._write(0)
            self.conn.finish()
            self.hr["completed"] = 1
        except Exception as e:  # a bug in the harness application, never Tornado's contract
            st.errors.append("%s: %s" % (type(e).__name__, e))


class _RawMsg(httputil.HTTPMessageDelegate):
    def __init__(self, st, conn):
        self.st = st
        self.conn = conn
        self.ridx = -1
        self.sc = {}
        self.nd = 0
        self.answered = False

    def headers_received(self, start_line, headers):
        self.ridx = _ridx(start_line.path)
        self.sc = self.st.script(self.ridx)
        self.request = httputil.HTTPServerRequest(
            connection=self.conn, start_line=start_line, headers=headers)
        if self.sc.get("early") == "headers":
            # answers before the body was read: Tornado closes the connection after the
            # response and tells this delegate on_connection_close instead of finish
            self.st.probe("early_answer_in_headers_received")
            self.answered = True
            _Resp(self.st, self.conn, self.ridx, "raw").start()
        if self.sc.get("prep"):
            return self._prep()
        return None

    async def _prep(self):
        self.st.hook(self.ridx, "p")
        await asyncio.sleep(self.sc["prep"] * UNIT)

    def data_received(self, chunk):
        n = self.nd
        self.nd += 1
        if self.sc.get("dr"):
            return self._slow(n)
        return None

    async def _slow(self, n):
        self.st.hook(self.ridx, "d%d" % n)
        await asyncio.sleep(self.sc["dr"] * UNIT)

    def finish(self):
        if not self.answered:
            _Resp(self.st, self.conn, self.ridx, "raw").start()

    def on_connection_close(self):
        pass


class _RawApp(httputil.HTTPServerConnectionDelegate):
    def __init__(self, st):
        self.st = st

    def start_request(self, server_conn, request_conn):
        return _RawMsg(self.st, request_conn)

    def on_close(self, server_conn):
        self.st.probe("raw_app_on_close")


def _make_app(kind, st):
    if kind == "raw":
        return _RawApp(st)
    if kind == "callable":
        def app(request):
            _Resp(st, request.connection, _ridx(request.path), "callable").start()
        return app
    return web.Application([(r"/s(\d+)", _Sync), (r"/a(\d+)", _Async), (r"/t(\d+)", _Stream)],
                           st=st, log_function=_NOLOG)


# --------------------------------------------------------------------------
# generation


def _body(rng, n):
    # distinct-ish bytes so that a wrong prefix cannot pass by accident
    a = rng.randrange(251)
    return "hex:" + bytes((a + 7 * i) % 251 for i in range(n)).hex()


def _partition(rng, n):
    out = []
    while n > 0:
        k = min(n, rng.choice([1, 2, 3, 7, 16, 17, 40, n]))
        out.append(k)
        n -= k
    return out


APPS = ["web", "web", "web", "raw", "callable"]


def gen(rng, tier, index):
    app = APPS[index % len(APPS)] if rng.random() < 0.8 else rng.choice(APPS)
    nreq = 1 if rng.random() < 0.55 else 2
    budget = 300 if tier == "quick" else rng.choice([300, 300, 600])
    bp = rng.random() < 0.4  # back-pressure workload
    reqs = []
    favour = False
    for i in range(nreq):
        te = rng.choice(["cl", "cl", "chunked", "chunked", "none"])
        room = max(0, (budget // nreq) - 70)
        sizes_b = [0, 1, 2, 5, 17, 40, 64, 100, 150] + ([250, 400] if tier != "quick" else [])
        n = 0 if te == "none" else min(room, rng.choice(sizes_b))
        r = {"method": "GET" if te == "none" else rng.choice(["POST", "PUT"]), "te": te,
             "body": _body(rng, n)}
        if te == "chunked":
            r["chunks"] = _partition(rng, n)
        if app == "web":
            r["hk"] = rng.choice(["s", "a", "a", "t", "t"])
        else:
            r["hk"] = "w" if app == "raw" else "c"
        if i == nreq - 1 and rng.random() < 0.12:
            r["close"] = True
        if te != "none" and rng.random() < 0.2:
            r["expect"] = True
        # response script
        steps = []
        sizes = [1000, 3000, 6000] if bp else [0, 1, 30, 300]
        asyncish = r["hk"] in ("a", "t") or (app != "web" and rng.random() < 0.7)
        for _ in range(rng.randint(0, 3)):
            if asyncish and rng.random() < 0.45:
                steps.append(["sleep", rng.choice([1, 2, 5])])
            else:
                steps.append(["write", rng.choice(sizes), 1 if asyncish and rng.random() < 0.6 else
                              (1 if r["hk"] == "s" and rng.random() < 0.3 else 0)])
        if bp and not any(s[0] == "write" for s in steps):
            steps.append(["write", rng.choice(sizes), 0])
        sc = {"steps": steps}
        if r["hk"] in ("t", "w"):
            if rng.random() < 0.4:
                sc["prep"] = rng.choice([1, 2, 4])
            if rng.random() < 0.45:
                sc["dr"] = rng.choice([1, 2, 3])
        if r["hk"] == "t" and rng.random() < 0.25:
            sc["early"] = rng.choice(["prepare", "raise", "data"])
        if r["hk"] == "w" and rng.random() < 0.2:
            sc["early"] = "headers"
        if (te == "chunked" and rng.random() < 0.3) or (te == "cl" and rng.random() < 0.08):
            # malformed-but-plausible framing after the header block
            r["bad"] = rng.choice(["ext", "ext", "zeros", "size", "term", "clte"]) \
                if te == "chunked" else "cl"
            if te == "chunked":
                r["badat"] = rng.choice([0, 0, 1, 2, 9])
                r["extlen"] = rng.choice([63, 70, 70, 90])
            if r["bad"] in ("ext", "zeros") and rng.random() < 0.6:
                # the interesting case is a size-limited read that becomes unsatisfiable on
                # a stream that is already closed with the line buffered: let the application
                # answer before the body (Tornado then closes the connection itself) ...
                if app == "web":
                    r["hk"] = "t"
                    sc["early"] = rng.choice(["prepare", "raise"])
                elif app == "raw":
                    sc["early"] = "headers"
                # ... and let the whole request be buffered by the read that finds the headers
                favour = favour or rng.random() < 0.7
        if r["hk"] in ("w", "c"):
            if rng.random() < 0.5:
                sc["nocb"] = True
            if rng.random() < 0.25:
                sc["never"] = True
        r["script"] = sc
        reqs.append(r)
    data, metas = build_stream(reqs)
    L = len(data)
    # ---- segmentations
    bounds = []
    for m in metas:
        bounds += [m["hdr_end"], m["end"]]
    seq_gap = 12 + sum(s[1] for r in reqs for s in r["script"]["steps"] if s[0] == "sleep")
    segs = [{"cuts": [], "gaps": [], "fin": "half", "fin_gap": 0, "rst": "at", "rst_gap": 0}]
    flav = [("close_at", 1, "over"), ("half", 1, "at"), ("close_now", 0, "over"),
            ("close_at", 0, "at")]
    nseg = 2 if rng.random() < 0.5 else 3
    for s in range(1, nseg):
        cuts = set()
        if s == 1:
            cuts.update(b for b in bounds if rng.random() < 0.8)
            step = rng.choice([16, 24, 48])
            p = rng.randint(1, step)
            while p < L:
                cuts.add(p)
                p += rng.randint(max(1, step // 2), step)
        else:
            p = rng.randint(1, 12)
            while p < L:
                cuts.add(p)
                p += rng.randint(3, 14)
        cuts = sorted(c for c in cuts if 0 < c < L)
        gaps = []
        for c in cuts:
            if nreq == 2 and c == metas[0]["end"] and rng.random() < 0.5:
                gaps.append(seq_gap)  # sequential: second request after the first response
            else:
                gaps.append(rng.choice([0, 1, 1, 1, 2]))
        f = rng.choice(flav)
        segs.append({"cuts": cuts, "gaps": gaps, "fin": f[0], "fin_gap": f[1], "rst": f[2],
                     "rst_gap": rng.choice([0, 1])})
    # ---- knobs
    window = rng.choice([64, 200, 512]) if bp else None
    knobs = {
        "app": app,
        "window": window,
        "consume": [window or 0, rng.choice([0, 1, 2])],
        "chunk_size": None if favour else rng.choice([None, None, 16, 7, 64]),
        "body_timeout": None if favour else rng.choice([None, None, 6, 12, 30]),
        "idle_timeout": rng.choice([None, None, 10, 25]),
        "settle": rng.choice([0, 0, 1, 3, "late"]),
        "bystander": rng.choice([None, None, None, "idle", "served", "partial"]),
    }
    tapes = {}
    if rng.random() < 0.3 and not favour:
        tapes["recv_cap"] = {"v": [rng.choice([0, 1, 3, 9, 20]) for _ in range(rng.randint(1, 6))],
                             "cycle": True}
    if rng.random() < 0.15:
        tapes["send_cap"] = {"v": [rng.choice([0, 0, 50, 500, -1]) for _ in range(4)],
                             "cycle": rng.random() < 0.5}
    if rng.random() < 0.12:
        tapes["defer"] = [rng.choice([0, 1]) for _ in range(8)]
    if rng.random() < 0.12:
        tapes["spurious"] = [rng.choice([0, 1]) for _ in range(8)]
    if rng.random() < 0.1:
        tapes["late"] = [rng.choice([0, 1, 3]) for _ in range(6)]
    return {"property": ID, "version": 1, "knobs": knobs, "requests": reqs, "segs": segs,
            "tapes": tapes}


def _suspension_points(reqs):
    """(request index, hook key) for every point at which the application suspends."""
    pts = []
    for i, r in enumerate(reqs):
        sc = r.get("script") or {}
        hk = r.get("hk")
        if sc.get("prep") and hk in ("t", "w"):
            pts.append((i, "p"))
        if sc.get("dr") and hk in ("t", "w"):
            nchunks = min(3, len(_hexbytes(r.get("body"))))
            for n in range(nchunks):
                pts.append((i, "d%d" % n))
        if hk == "s":
            continue
        if sc.get("never") and hk in ("w", "c"):
            pts.append((i, "end"))
        for j, s in enumerate(sc.get("steps") or ()):
            if s[0] == "sleep" or (s[0] == "write" and s[2]):
                pts.append((i, "s%d" % j))
    return pts


def _resp_estimate(reqs):
    return sum(160 + sum(s[1] for s in (r.get("script") or {}).get("steps", ()) if s[0] == "write")
               for r in reqs)


def expand(base):
    reqs = base["requests"]
    data, metas = build_stream(reqs)
    L = len(data)
    segs = base.get("segs") or [{"cuts": [], "gaps": []}]
    common = {k: v for k, v in base.items() if k != "segs"}
    out = []

    def mk(seg, fault):
        d = dict(common)
        d["seg"] = seg
        d["fault"] = fault
        out.append(d)

    for seg in segs:
        mk(seg, None)
        for k in range(L + 1):
            mk(seg, {"phase": "req", "kind": "fin", "off": k})
            mk(seg, {"phase": "req", "kind": "rst", "off": k})
    stall_seg = segs[1] if len(segs) > 1 else segs[0]
    for k in range(L + 1):
        mk(stall_seg, {"phase": "stall", "off": k})
    # response phase: suspension points x {fin, rst} x {delay 0, 1}
    pts = _suspension_points(reqs)
    for si, seg in enumerate(segs[:2]):
        for (i, key) in pts:
            for kind in ("fin", "rst"):
                for d in ((0, 1) if si == 0 else (2,)):
                    mk(seg, {"phase": "resp", "kind": kind, "req": i, "at": key, "delay": d})
    # response byte-stream positions (drain / back-pressure)
    total = _resp_estimate(reqs)
    w = (base.get("knobs") or {}).get("window")
    if w:
        step = max(w, total // 24)
        ms = [1] + list(range(step, total + 1, step))
    else:
        ms = [1]
    for m in ms:
        for kind in ("fin", "rst"):
            mk(segs[0], {"phase": "resp", "kind": kind, "at": "rx", "m": m, "delay": 0})
    # deterministic scramble so that any prefix of the enumeration is diverse
    n = len(out)
    order = sorted(range(n), key=lambda i: (i * 2654435761) & 0xFFFFFFFF)
    for i in order:
        yield out[i]


def validate(scn):
    try:
        reqs = scn["requests"]
        if not isinstance(reqs, list) or not reqs:
            return False
        for r in reqs:
            if not isinstance(r, dict) or r.get("hk") not in ("s", "a", "t", "w", "c"):
                return False
            if r.get("te", "cl") not in ("cl", "chunked", "none"):
                return False
            sc = r.get("script")
            if not isinstance(sc, dict):
                return False
            for s in sc.get("steps") or ():
                if not isinstance(s, list) or len(s) < 2 or s[0] not in ("sleep", "write"):
                    return False
                if s[0] == "write" and len(s) != 3:
                    return False
        kn = scn["knobs"]
        if kn.get("app") not in ("web", "raw", "callable"):
            return False
        if kn.get("app") == "web" and any(r["hk"] not in ("s", "a", "t") for r in reqs):
            return False
        if kn.get("window") is not None and kn["window"] < 1:
            return False
        if kn.get("chunk_size") is not None and kn["chunk_size"] < 1:
            return False
        c = kn.get("consume")
        if not (isinstance(c, list) and len(c) == 2):
            return False
        seg = scn.get("seg", {})
        if not isinstance(seg, dict):
            return False
        f = scn.get("fault")
        if f is not None:
            if f.get("phase") not in ("req", "resp", "stall"):
                return False
            if f.get("phase") != "stall" and f.get("kind") not in ("fin", "rst"):
                return False
            if f.get("phase") == "resp" and not isinstance(f.get("at"), str):
                return False
        return True
    except Exception:
        return False


# --------------------------------------------------------------------------
# run + oracle

_SPIN_LIMIT = 400


class _SpinGuard(Exception):
    """close_all_connections() iterates its connection set without ever suspending."""


def run(scn, full_log=False):
    from tornado._verif import OrderedSet

    knobs = scn["knobs"]
    reqs = scn["requests"]
    seg = scn.get("seg") or (scn.get("segs") or [{}])[0]
    fault = scn.get("fault")
    data, metas = build_stream(reqs)
    L = len(data)
    viol = []
    seen_keys = set()

    def bad(rule, msg, disc=""):
        key = rule + ("/" + disc if disc else "")
        if key in seen_keys:
            return
        seen_keys.add(key)
        viol.append({"rule": rule, "key": key, "msg": msg})

    phase = fault.get("phase") if fault else "none"
    fdesc = phase + ("-" + str(fault.get("kind")) if fault and phase != "stall" else "")
    app_kind = knobs.get("app", "web")
    stall = phase == "stall"
    bt = knobs.get("body_timeout")
    it = knobs.get("idle_timeout")
    if stall:
        bt = bt or 8
        it = it or 12
    window = knobs.get("window")
    cstep, cevery = knobs.get("consume") or [0, 0]
    auto = not window
    # upper bound (units) for the fault-free workload to play out
    bound = 12 + sum(g for g in (seg.get("gaps") or ()) if isinstance(g, int) and g > 0)
    for r in reqs:
        sc = r.get("script") or {}
        bound += (sc.get("prep") or 0) + (sc.get("dr") or 0) * (len(_hexbytes(r.get("body"))) + 1)
        bound += sum(s[1] for s in sc.get("steps") or () if s[0] == "sleep")
    if window:
        bound += (_resp_estimate(reqs) // max(1, cstep or window) + 4) * (max(1, cevery) + 1)
    bound += (bt or 0) + (it or 0)

    with SimEnv(scn.get("tapes"), max_iters=60_000, max_time=2000.0, full_log=full_log) as env:
        loop = env.loop
        st = _St(env, [r.get("script") or {} for r in reqs])
        st.fault = fault
        box = {"server": None, "rapp": None, "shutdown_started": False, "shutdown_done": False,
               "open_at_shutdown": 0, "peer": None, "stalled_closed": False, "spin": 0}

        def permute(items):
            box["spin"] += 1
            if box["spin"] > _SPIN_LIMIT:
                raise _SpinGuard()
            return items
        OrderedSet.permute = permute

        async def main():
            kw = {}
            if knobs.get("chunk_size"):
                kw["chunk_size"] = knobs["chunk_size"]
            if bt:
                kw["body_timeout"] = bt * UNIT
            if it:
                kw["idle_connection_timeout"] = it * UNIT
            server, ls, rapp = _rigx.start_server(env, _make_app(app_kind, st), **kw)
            box["server"], box["rapp"] = server, rapp
            peer, _srv = httprig.connect(env, ls, window=window)
            box["peer"] = peer
            peer.auto = auto
            gate = loop.create_future()

            timers = []

            def open_gate():
                if not gate.done():
                    gate.set_result(None)
                    for t in timers:
                        t.cancel()

            kind = fault.get("kind") if fault else None

            def act(delay=0):
                """The client-side disconnect, now (+delay units)."""
                if st.fired or peer.closed:
                    return
                st.fired = True
                if kind == "rst":
                    peer.reset(delay=delay)
                elif seg.get("fin", "half") == "half":
                    peer.half_close(delay=delay)
                else:
                    peer.close(delay=delay)
                env.log.ev("fault", phase, kind, delay)
                loop.call_later(delay * UNIT, open_gate)
            st.fire = act

            # bystander connection (must also be closed by close_all_connections)
            by = knobs.get("bystander")
            if by:
                bpeer, _ = httprig.connect(env, ls, name="by", peer_addr=("127.0.0.1", 50001))
                if by == "served":
                    bpeer.send(b"GET /%s9 HTTP/1.1\r\nHost: h\r\n\r\n"
                               % (b"s" if app_kind == "web" else b"w"))
                elif by == "partial":
                    bpeer.send(b"POST /s9 HTTP/1.1\r\nHost: h\r\nContent-Le")

            k = L
            if fault and phase in ("req", "stall"):
                k = max(0, min(L, fault.get("off", L)))
            now = loop.time()
            if k:
                httprig.send_cut(peer, data[:k], seg.get("cuts") or (), seg.get("gaps") or ())
            D = max(0.0, (peer.tx.last_arrival - now) / UNIT) if k else 0

            if phase == "req":
                if kind == "fin":
                    fl = seg.get("fin", "half")
                    g = seg.get("fin_gap", 0) or 0
                    if fl == "half":
                        st.fired = True
                        peer.half_close(gap=g)
                        env.log.ev("fault", "req", "fin-half", k)
                        loop.call_later((D + g) * UNIT, open_gate)
                    elif fl == "close_now":
                        st.fired = True
                        peer.close(gap=g)
                        env.log.ev("fault", "req", "fin-close-now", k)
                        loop.call_later((D + g) * UNIT, open_gate)
                    else:
                        loop.call_later((D + g) * UNIT, act)
                else:
                    g = seg.get("rst_gap", 0) or 0
                    if seg.get("rst", "at") == "over" and k:
                        # RST overtakes: lands with the last segment, before it is read
                        st.fired = True
                        peer.reset(delay=D)
                        env.log.ev("fault", "req", "rst-over", k)
                        loop.call_later(D * UNIT, open_gate)
                    else:
                        loop.call_later((D + g) * UNIT, act)
            elif phase == "stall":
                st.fired = True  # the stall itself; whether a timeout fired is probed below
                loop.call_later((D + max(bt, it) + 3) * UNIT, open_gate)
            timers.append(loop.call_later((bound + D) * UNIT, open_gate))

            # client-side consumption of the response
            rxm = fault.get("m", 1) if fault and phase == "resp" and fault.get("at") == "rx" else None

            async def consumer():
                rx = peer.rx
                while True:
                    await peer.wait(lambda: bool(rx.rbuf) or rx.fin or rx.rst or peer.closed)
                    if peer.closed or rx.rst:
                        return
                    if not rx.rbuf:
                        peer.consume()
                        return
                    peer.consume(cstep or None)
                    if rxm is not None and len(peer.received) >= rxm and not st.fired:
                        act(fault.get("delay", 0))
                        return
                    if cevery:
                        await asyncio.sleep(cevery * UNIT)

            async def rxwatch():
                await peer.wait(lambda: len(peer.received) >= rxm or peer.ended() or peer.closed)
                if len(peer.received) >= rxm and not st.fired:
                    act(fault.get("delay", 0))

            if not auto:
                loop.create_task(consumer())
            elif rxm is not None:
                loop.create_task(rxwatch())

            await gate
            await loop.idle()
            settle = knobs.get("settle", 0)
            if settle == "late":
                await asyncio.sleep(bound * UNIT)
            elif settle:
                await asyncio.sleep(settle * UNIT)
            if stall and (peer.rx.fin or peer.rx.rst):
                box["stalled_closed"] = True
            box["open_at_shutdown"] = len(server._connections)
            box["shutdown_started"] = True
            env.log.ev("shutdown", box["open_at_shutdown"])
            server.stop()
            await server.close_all_connections()
            box["shutdown_done"] = True
            env.log.ev("shutdown_done")

        status = env.run(main())
        server, rapp = box["server"], box["rapp"]
        probes = st.probes

        # ---------------- oracle: shutdown
        if status == "hang":
            if box["shutdown_started"]:
                bad("shutdown.hang", "close_all_connections() never completed: quiescent with "
                    f"{len(server._connections)} connection(s) still registered")
            else:
                bad("harness.hang_before_shutdown", "main stuck before shutdown")
        elif status == "time_cap" and box["shutdown_started"] and not box["shutdown_done"]:
            # the only timers that far out are idle timeouts of connections that are still open
            bad("shutdown.hang", "close_all_connections() never completed: nothing left to run but "
                f"far-future idle timers, {len(server._connections)} connection(s) still registered")
        elif status in ("step_cap", "time_cap"):
            bad("shutdown.livelock", f"{status} after {loop.iterations} iterations "
                f"(shutdown_started={box['shutdown_started']}, done={box['shutdown_done']})")
        elif status == "error:_SpinGuard":
            bad("shutdown.spins", "close_all_connections() kept closing the same connection "
                f"{_SPIN_LIMIT}+ times without it ever leaving the connection set")
        elif status.startswith("error"):
            bad("harness.main_raised", f"{status}: {getattr(env, 'main_exception', None)!r}")
        if st.errors:
            bad("harness.app_exception", "; ".join(st.errors[:3]))
        if server is not None and status == "done":
            if len(server._connections):
                bad("shutdown.connections_left",
                    f"{len(server._connections)} connection(s) still in HTTPServer._connections "
                    "at quiescence after close_all_connections()")
            leaked = env.net.leaked()
            if leaked:
                bad("shutdown.socket_leak", f"server-side sockets still open at quiescence: {leaked}")

        body_timeouts = sum(1 for r in env.records if r[0] == "tornado.general"
                            and r[2].startswith("Timeout reading body"))
        # ---------------- oracle: per delegate
        hit = False
        recs = rapp.records if rapp is not None else []
        started = 0
        quiescent = status in ("done", "hang")
        for rec in recs:
            ev = rec.events
            if "H" not in ev:
                if ev:
                    probes["events_without_headers"] = probes.get("events_without_headers", 0) + 1
                continue
            started += 1
            tgt = rec.target or ""
            hk = tgt[1:2]
            ridx = _ridx(tgt)
            nF, nC = rec.finished, rec.closed
            if nF and nC:
                bad("delegate.both_finish_and_close",
                    f"request {tgt} ({app_kind}, fault {fdesc}): delegate calls {ev} (finish AND "
                    "on_connection_close)",
                    "FC" if ev.index("F") < ev.index("C") else "CF")
            elif nF > 1 or nC > 1:
                bad("delegate.notified_twice",
                    f"request {tgt} ({app_kind}, fault {fdesc}): delegate calls {ev}",
                    "FF" if nF > 1 else "CC")
            elif nF + nC == 0 and quiescent:
                bad("delegate.neither_finish_nor_close",
                    f"request {tgt} ({app_kind}, fault {fdesc}): delegate got {ev} and then "
                    "nothing, at quiescence after shutdown", phase)
            term = [i for i, e in enumerate(ev) if e in ("F", "C")]
            if term:
                extra = [e for e in ev[term[0] + 1:] if e[0] in "DH"]
                if extra:
                    bad("delegate.event_after_terminal",
                        f"request {tgt} ({app_kind}, fault {fdesc}): delegate calls {ev}: {extra} "
                        f"after {ev[term[0]]}",
                        extra[0][0] + "-after-" + ev[term[0]]
                        + ("/body_timeout" if body_timeouts else ""))
            if ev.count("H") > 1:
                probes["headers_received_twice"] = probes.get("headers_received_twice", 0) + 1
            if ridx == 9:
                continue  # the bystander connection's request (no body)
            if 0 <= ridx < len(metas) and hk == reqs[ridx].get("hk"):
                sent = metas[ridx]["body"]
                got = rec.body()
                if not sent.startswith(got):
                    bad("body.not_a_prefix",
                        f"request {tgt}: delegate received {len(got)} body bytes that are not a "
                        f"prefix of the {len(sent)} sent")
                elif nF and got != sent:
                    bad("body.finish_with_partial_body",
                        f"request {tgt} ({app_kind}, fault {fdesc}): finish() after {len(got)} of "
                        f"{len(sent)} body bytes")
                if reqs[ridx].get("expect"):
                    probes["expect_100_continue_started"] = \
                        probes.get("expect_100_continue_started", 0) + 1
                    if nC and not nF and not got:
                        probes["expect_100_closed_before_body"] = \
                            probes.get("expect_100_closed_before_body", 0) + 1
                if metas[ridx].get("bad"):
                    probes["malformed_request_started"] = \
                        probes.get("malformed_request_started", 0) + 1
                    if (reqs[ridx].get("script") or {}).get("early"):
                        probes["malformed_request_answered_early"] = \
                            probes.get("malformed_request_answered_early", 0) + 1
                    if probes.get("handler_started_on_closed_stream"):
                        probes["malformed_request_on_closed_stream"] = \
                            probes.get("malformed_request_on_closed_stream", 0) + 1
                if nC and not nF:
                    probes["term_close"] = probes.get("term_close", 0) + 1
                    hit = True
                    if got:
                        probes["close_during_body"] = probes.get("close_during_body", 0) + 1
                    elif sent:
                        probes["close_before_first_body_byte"] = \
                            probes.get("close_before_first_body_byte", 0) + 1
                    if (reqs[ridx].get("script") or {}).get("early"):
                        probes["early_finish_then_close_notification"] = \
                            probes.get("early_finish_then_close_notification", 0) + 1
                elif nF:
                    probes["term_finish"] = probes.get("term_finish", 0) + 1
            else:
                bad("harness.unknown_target", f"delegate for unknown request {tgt!r}")
        if started >= 2:
            probes["two_requests_started"] = probes.get("two_requests_started", 0) + 1

        # ---------------- oracle: RequestHandler notifications
        for hr in st.handlers:
            if hr["on_finish"] > 1:
                bad("handler.on_finish_twice",
                    f"handler #{hr['n']} ({hr['kind']}): on_finish x{hr['on_finish']}",
                    hr["kind"])
            if hr["on_close"] > 1:
                bad("handler.on_connection_close_twice",
                    f"handler #{hr['n']} ({hr['kind']}): on_connection_close x{hr['on_close']}",
                    hr["kind"])
            if hr["on_close"]:
                probes["close_while_app_suspended"] = probes.get("close_while_app_suspended", 0) + 1
                hit = True
            if hr["write_closed"] or hr["abandoned"]:
                hit = True
        if box["open_at_shutdown"]:
            probes["shutdown_with_open_connection"] = 1
            if started and fault is not None:
                hit = hit or any(not h["completed"] for h in st.handlers)
        if box["stalled_closed"]:
            probes["stall_closed_by_timeout"] = 1
        if body_timeouts:
            probes["body_timeout_fired"] = body_timeouts
            if started:
                hit = True
        if fault and phase == "resp" and st.fired:
            probes["resp_fault_fired_" + ("rx" if fault.get("at") == "rx" else "suspended")] = 1
            if fault.get("at") == "rx" and st.handlers and all(h["completed"] for h in st.handlers):
                probes["disconnect_during_drain"] = 1
        if fault and phase == "req" and started and 0 < fault.get("off", 0) < L:
            k = fault.get("off", 0)
            for i, m in enumerate(metas):
                if m["start"] < k < m["end"] and i >= 1 and started >= 1:
                    probes["disconnect_inside_second_request"] = 1
        stt = env.stats()
        stt["probes"].update(probes)
        nontrivial = bool(fault is not None and st.fired and started and hit)
        outcome = {"status": status, "recs": [(r.target, "".join(e[0] for e in r.events))
                                              for r in recs],
                   "handlers": [(h["kind"], h["on_finish"], h["on_close"], h["completed"],
                                 h["abandoned"]) for h in st.handlers],
                   "fired": st.fired}
        return {"violations": viol, "nontrivial": nontrivial, "stats": stt,
                "log_head": env.log.head, "log_full": env.log.full, "outcome": outcome}
