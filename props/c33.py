"""C33 - locks and semaphores never over-grant, lose wakeups or skip the queue.

Real tornado.locks.Semaphore / BoundedSemaphore / Lock on the SimLoop.  A
driver coroutine executes a generated op list (acquire with/without timeout,
`async with` entry/exit, release directly / through the returned context
manager, cancel of a handed-out future) against the real object and against
ref.models_sync.SemaphoreModel.  Between ops the scenario chooses: same
callback, one loop iteration, run to idle, or advance the clock (to a waiter's
deadline -1/0/+1 unit, or by d units) and run to idle; the "late" tape makes
timers fire late.  Timer expiries are *observed* on the real futures and fed
to the model, which only says whether they are legal (not before the
deadline) and whether they are overdue (deadline reached and loop idle).
"""

from sim.env import SimEnv
from props import _syncrig as R
from ref.models_sync import SemaphoreModel, PENDING, OK

ID = "C33"
LEVEL = "exploration"
QUICK_N = 40000
THOROUGH_N = 1600000
CHUNK = 500
RULE = ("gen(seed): object kind (Semaphore(n)/BoundedSemaphore(n)/Lock, n in 0..3), 3..24 ops "
        "(acquire [abs deadline | timedelta | zero | past], async-with enter/exit, release "
        "direct/ctx-manager, cancel), a gap before every op (same callback | one iteration | idle "
        "| advance to a pending deadline -1/0/+1 | advance d), lateness tape; swarm weights per "
        "run. non-trivial = measured in the generated part of the run: >=2 acquires blocked AND "
        ">=1 blocked waiter later granted by a release AND >=1 waiter timed out or was cancelled; "
        "distinct = distinct scenario hash")
COMPONENTS = {
    "real": ["tornado.locks.Semaphore/BoundedSemaphore/Lock/_ReleasingContextManager/"
             "_TimeoutGarbageCollector", "tornado.ioloop.IOLoop.add_timeout/remove_timeout",
             "tornado.platform.asyncio.BaseAsyncIOLoop.call_at", "asyncio.Future/Handle/TimerHandle"],
    "stub": ["event loop clock + timer dispatch (sim.loop.SimLoop)", "time.time (SimEnv proxy)"],
}
ASSUMPTIONS = [
    "a waiter counts as timed out from the moment its future carries TimeoutError, not from its "
    "deadline: a release at/after the deadline but before the timer callback ran may grant it",
    "resolution order is compared for waiters that blocked; timeouts observed within one gap are "
    "an unordered group",
    "`async with` is driven by stepping obj.__aenter__()/__aexit__() by hand (no Task)",
    "available permits are read publicly from repr(): 'locked' / 'unlocked,value:N'",
]

KINDS = ("sem", "bsem", "lock")


def gen(rng, tier, index):
    kind = rng.choice(["sem", "sem", "bsem", "bsem", "lock", "lock"])
    n = rng.choice([0, 1, 1, 2, 2, 3])
    cap = 1 if kind == "lock" else n
    nops = rng.randint(3, 24)
    if tier == "thorough" and rng.random() < 0.2:
        nops = rng.randint(20, 40)
    p_to = rng.choice([0.0, 0.4, 0.7, 0.7, 1.0])
    p_cancel = rng.choice([0.0, 0.06, 0.06, 0.18])
    p_rel = rng.choice([0.25, 0.35, 0.5])
    mix = rng.choice(R.GAP_MIXES)
    burst_at = rng.randrange(nops) if rng.random() < 0.015 else -1
    ops = []
    held = waiting = 0
    used = set()
    tn = 0
    for i in range(nops):
        g = R.gen_gap(rng, mix) if i else ["none"]
        if g[0] == "adv":
            tn += g[1]
        elif g[0] == "dl" and used:
            tn = max(tn, min(x for x in used if x >= tn) if any(x >= tn for x in used) else tn)
        if i == burst_at:
            ops.append({"op": "burst", "gap": g})
            continue
        r = rng.random()
        if r < p_cancel:
            ops.append({"op": "cancel", "w": rng.randrange(8), "gap": g})
            if waiting and rng.random() < 0.5:
                waiting -= 1
        elif r < p_cancel + p_rel or waiting >= 6:
            via = rng.choice(["call", "call", "call", "ctx", "aexit"])
            ops.append({"op": "rel", "via": via, "gap": g})
            if waiting:
                waiting -= 1
            elif held:
                held -= 1
        else:
            via = "aenter" if rng.random() < 0.15 else "call"
            t = None if via == "aenter" else R.gen_timeout(rng, p_to, used, tn)
            ops.append({"op": "acq", "via": via, "t": t, "gap": g})
            if held < cap:
                held += 1
            else:
                waiting += 1
    return {"property": ID, "version": 1, "obj": {"kind": kind, "n": n}, "ops": ops,
            "tapes": R.gen_tapes(rng)}


def validate(scn):
    try:
        o = scn["obj"]
        if o["kind"] not in KINDS or not isinstance(o["n"], int) or not 0 <= o["n"] <= 8:
            return False
        for op in scn["ops"]:
            if op["op"] not in ("acq", "rel", "cancel", "burst"):
                return False
            if not R.valid_gap(op.get("gap")):
                return False
            if op["op"] == "acq":
                if not R.valid_timeout(op.get("t")) or op.get("via", "call") not in ("call", "aenter"):
                    return False
            if op["op"] == "rel" and op.get("via", "call") not in ("call", "ctx", "aexit"):
                return False
            if op["op"] == "cancel" and not (isinstance(op.get("w"), int) and op["w"] >= 0):
                return False
        return isinstance(scn.get("tapes", {}), dict)
    except Exception:
        return False


def run(scn, full_log=False):
    from tornado import locks

    kind = scn["obj"]["kind"]
    n = scn["obj"]["n"]
    viol = []
    probes = {}
    outcome = {}

    with SimEnv(scn.get("tapes"), max_iters=20000, full_log=full_log) as env:
        model = SemaphoreModel(kind, n)
        rig = R.Rig(env, model, "sem", viol, probes)
        bad, probe = rig.bad, rig.probe
        st = {"imm_enter": 0, "rel_ok": 0, "obj": None}
        coros = {}
        mirror = []  # blocked waiters in arrival order, dead ones included (probe only)

        def finish(wid):
            c = coros.pop(wid, None)
            if c is not None:
                try:
                    c.send(None)
                except StopIteration:
                    probe("aenter_entered_after_wait")
                except BaseException:
                    pass

        rig.on_final = finish

        def acquire(op, now):
            obj = st["obj"]
            via = op.get("via", "call")
            has, arg, dl = rig.timeout(op.get("t")) if via == "call" else (False, None, None)
            wid = rig.new_wid()
            coro = None
            try:
                if via == "aenter":
                    coro = obj.__aenter__()
                    try:
                        fut = coro.send(None)
                    except StopIteration:
                        fut = None
                else:
                    fut = obj.acquire(arg) if has else obj.acquire()
            except Exception as e:
                bad("sem.acquire_raised", f"acquire raised {type(e).__name__}: {e}",
                    f"sem.acquire_raised/{type(e).__name__}")
                return
            s = model.acquire(wid, dl, now)
            if fut is None:
                st["imm_enter"] += 1
                probe("aenter_immediate")
                if s != OK:
                    bad("sem.served_out_of_turn", "`async with` entered immediately although the "
                        "model has no free permit", "sem.served_out_of_turn/aenter")
                return
            rig.track(wid, fut)
            if coro is not None:
                coros[wid] = coro
                if s == PENDING:
                    probe("aenter_blocked")
            rig.after_create(wid)
            if s == PENDING:
                mirror.append(wid)
                probe("acquire_blocked")
            env.log.ev("acq", wid, via, s)

        def release(op, now):
            obj = st["obj"]
            via = op.get("via", "call")
            exc = None
            cm = None
            if via == "ctx":
                for wid in sorted(rig.futs, reverse=True):
                    f = rig.futs[wid]
                    if f.done() and not f.cancelled() and f.exception() is None:
                        cm = f.result()
                        break
                if cm is None:
                    via = "call"
            due = [w for w in model.queue if model.enabled(w, now)]
            try:
                if via == "ctx":
                    probe("release_via_context_manager")
                    with cm:
                        pass
                elif via == "aexit":
                    probe("release_via_aexit")
                    c = obj.__aexit__(None, None, None)
                    try:
                        c.send(None)
                    except StopIteration:
                        pass
                else:
                    obj.release()
            except Exception as e:
                exc = type(e).__name__
            mexc, res = model.release()
            env.log.ev("rel", via, exc, tuple(res))
            if mexc is None:
                if exc is not None:
                    bad("sem.release_raised", f"release ({via}) raised {exc}; model: legal release",
                        f"sem.release_raised/{kind}/{exc}")
                else:
                    st["rel_ok"] += 1
            else:
                probe("over_release_" + kind)
                if exc is None:
                    bad("sem.over_release_silent",
                        f"release ({via}) of a {kind} with all permits free did not raise "
                        f"(expected {mexc})", f"sem.over_release_silent/{kind}")
                    st["rel_ok"] += 1
                elif exc != mexc and not (kind == "lock" and via == "ctx" and exc == "ValueError"):
                    bad("sem.over_release_wrong_exception", f"raised {exc}, documented {mexc}",
                        f"sem.over_release_wrong_exception/{kind}/{exc}")
            rig.resolved_by_op(res)
            if res:
                g = res[0]
                skipped = 0
                while mirror and mirror[0] != g:
                    mirror.pop(0)
                    skipped += 1
                if mirror:
                    mirror.pop(0)
                if skipped:
                    probe("release_skips_dead_waiter")
                if g in due:
                    probe("grant_to_waiter_whose_timer_is_due")
                elif due:
                    probe("release_while_other_timer_due")
            elif due:
                probe("release_while_other_timer_due")

        def do_op(op):
            now = rig.now()
            k = op["op"]
            if k == "acq":
                acquire(op, now)
            elif k == "rel":
                release(op, now)
            elif k == "cancel":
                rig.cancel(op["w"])
                env.log.ev("cancel", op["w"])
            elif k == "burst":
                probe("burst_101_zero_timeouts")
                for _ in range(101):
                    acquire({"t": ["zero"]}, now)
            # ---- public observations after the op
            obj = st["obj"]
            rp = repr(obj)
            tok = "[locked" if model.value == 0 else f"[unlocked,value:{model.value}"
            if tok not in rp:
                bad("sem.value_repr", f"repr shows {rp[rp.find('['):]} ; model value {model.value}")
            granted = st["imm_enter"] + rig.n_closed_ok
            pending = 0
            futs = rig.futs
            for wid in rig.open:
                f = futs[wid]
                if not f.done():
                    pending += 1
                elif not f.cancelled() and f.exception() is None:
                    granted += 1
            out = granted - st["rel_ok"]
            if out > model.initial:
                bad("sem.overgrant", f"granted {granted} - released {st['rel_ok']} > initial "
                    f"{model.initial}", f"sem.overgrant/{kind}")
            if model.initial - out > 0 and pending:
                bad("sem.permit_idle", f"{model.initial - out} permit(s) free while {pending} "
                    f"acquire future(s) are pending", f"sem.permit_idle/{kind}")

        async def main():
            if kind == "sem":
                st["obj"] = locks.Semaphore(n)
            elif kind == "bsem":
                st["obj"] = locks.BoundedSemaphore(n)
            else:
                st["obj"] = locks.Lock()
            done = await R.drive(rig, scn["ops"], do_op)
            outcome["ops_done"] = done
            outcome["blocked"] = len(rig.blocked)
            outcome["served"] = rig.n_served
            outcome["expired"] = rig.n_expired
            outcome["cancelled"] = rig.n_cancelled
            if viol:
                return
            # ---- epilogue: same oracle, ops derived from the model state
            dls = model.pending_deadlines()
            ep = [{"op": "nop", "gap": ["adv", max(1, (dls[-1] - rig.now() + 1) if dls else 1)]}]
            await R.drive(rig, ep, do_op)
            k = 0
            while (model.queue and not viol and k < 200
                   and (kind == "sem" or model.value < model.initial)):
                k += 1
                await R.drive(rig, [{"op": "rel", "gap": [("none", "yield", "idle")[k % 3]]}], do_op)
            if viol:
                return
            ep = [{"op": "acq", "gap": ["none"]} for _ in range(min(model.value, 40))]
            await R.drive(rig, ep, do_op)
            if viol:
                return
            if model.value == 0:
                # every permit is taken now: one more acquire must block and time out
                before = rig.n_expired
                await R.drive(rig, [{"op": "acq", "t": ["zero"], "gap": ["none"]},
                                    {"op": "nop", "gap": ["idle"]}], do_op)
                if not viol and rig.n_expired != before + 1:
                    bad("sem.final_permit_count", "after taking every permit the model says is "
                        "free, one more acquire(timeout=0) did not block and time out")
            await env.loop.idle()
            rig.observe(True)

        status = env.run(main())
        for c in coros.values():
            c.close()
        if status != "done":
            bad("harness." + status.split(":")[0],
                f"{status}: {getattr(env, 'main_exception', None)!r}")
        rig.check_order()
        rig.check_logs()
        for pmsg in model.problems():
            bad("harness.model_invariant", pmsg)
        stt = env.stats()
        stt["probes"].update(probes)
        nontrivial = (outcome.get("blocked", 0) >= 2 and outcome.get("served", 0) >= 1
                      and outcome.get("expired", 0) + outcome.get("cancelled", 0) >= 1)
        return {"violations": viol, "nontrivial": nontrivial, "stats": stt,
                "log_head": env.log.head, "log_full": env.log.full, "outcome": outcome}
