"""C13 - closing an IOStream settles every pending operation exactly once.

fault_enumeration: gen() draws one *base* scenario - an op sequence on one real
tornado.iostream.IOStream over a SimSocket (optionally starting unconnected and
using IOStream.connect; reads of every type; writes that stay pending under a
closed peer window; inbound data that is pulled into the read buffer but not
consumed) - and expand() yields one scenario per (close cause x close point):

  causes  local close() | peer FIN (half_close) | peer close (FIN, later data -> RST) |
          peer RST | recv() raising EIO | send() raising EIO | connect refused |
          connect() raising synchronously | connect black-holed (closed by the final
          local close)
  points  before each op, after the last op, each of those again after running to
          idle (i.e. *between* ops once the previous one made all the progress it can),
          every virtual-time unit of the fault-free run (partial progress between
          arrivals), FIN after k delivered bytes for k at / next to every segment
          boundary, the n-th recv()/send() call for every n the fault-free run makes +1.

The fault-free run of the base scenario is executed first inside expand() to learn
how many recv/send calls there are; it is itself the first
scenario (close cause "none": the stream is closed by the final local close()).

asyncio's add_reader/add_writer never deliver a separate ERROR event, so
"ERROR readiness" (the `events & ERROR` branch of _handle_events) is not reachable
through the real BaseAsyncIOLoop and is NOT claimed; socket errors surface through
recv/send/getsockopt(SO_ERROR), which is what is injected here.

Oracle: see run(); all knowledge about what the stream had pulled from the socket,
which error the socket raised to it and when the fd was closed comes from the
simulated socket, never from IOStream internals.
"""

import asyncio
import errno
import re
import socket as _socket

from sim.env import SimEnv, UNIT

ID = "C13"
LEVEL = "fault_enumeration"
QUICK_N = 1200
THOROUGH_N = 25000
CHUNK = 10
RULE = ("gen(seed) = base scenario (connect?/window/read_chunk_size knobs, inbound bytes + "
        "arrival segments, 1-6 ops of write/read_bytes/read_into/read_until/read_until_regex/"
        "read_until_close/peer-consume/later-connect/owner-cancels-a-pending-future with pauses, recv_cap/send_cap/defer tapes); "
        "expand() = fault-free run + one scenario per close cause x close point (see module doc). "
        "non-trivial = the stream was closed by the enumerated cause or by its own max_bytes "
        "check (not by the final cleanup close) AND at least one read/write/connect future was pending at the instant the fd was "
        "closed; distinct = distinct scenario hash")
COMPONENTS = {
    "real": ["tornado.iostream.IOStream/BaseIOStream (close, _signal_closed, _handle_events, "
             "_try_inline_read, _handle_connect, write, read_*)",
             "tornado.platform.asyncio.BaseAsyncIOLoop", "tornado.ioloop.IOLoop",
             "asyncio.Future/Task/Handle"],
    "stub": ["event loop poller+clock (sim.loop.SimLoop)", "socket incl. connect outcome and "
             "injected recv/send errors (sim.net.SimSocket)", "remote peer (sim.net.RawPeer)"],
}
ASSUMPTIONS = [
    "ERROR readiness is not reachable with asyncio's add_reader/add_writer and is not claimed; "
    "errors are injected through recv/send/connect/SO_ERROR",
    "the 'real error' a StreamClosedError must carry is the first OSError the simulated socket "
    "raised to the stream (None if it raised none: local close, peer FIN)",
    "a read/write/connect *call* during which the stream closes may raise the injected OSError "
    "itself (or StreamClosedError carrying it) instead of returning a failed future",
    "reads issued on an already closed stream may fail in any way; if they succeed the data must "
    "be the next already-pulled bytes and satisfy the read's own contract",
    "a stream that closes itself with no socket error, no EOF and no close() call by the driver "
    "can only have done so for an exceeded max_bytes: the real error is then "
    "UnsatisfiableReadError (whether max_bytes was judged correctly is C11's subject)",
    "reads are not issued while the connect future is pending (documented as non-portable)",
]

ALPHA = b"ab\r\n0x"
DELIMS = [b"\r\n", b"\n", b"ab", b"x"]
REGEXES = [rb"\r?\n", rb"a+b", rb"[0-9]x", rb"ab|ba"]
CAUSES = ("none", "local", "fin", "pclose", "rst", "recv_eio", "send_eio", "refuse",
          "sync_error", "blackhole")
IP, PORT = "10.0.0.9", 80


def _hex(s):
    return bytes.fromhex(s[4:]) if isinstance(s, str) and s.startswith("hex:") else b""


# ----------------------------------------------------------------------------
# generation


def gen(rng, tier, index):
    connect = rng.random() < 0.3
    window = rng.choice([1, 4, 16, 64, 65536])
    chunk = rng.choice([1, 2, 3, 5, 16, 4096])
    n = rng.choice([0, 1, 3, 6, 10, 16, 24, 40])
    data = bytes(rng.choice(ALPHA) for _ in range(n))
    segs = []
    left = n
    while left > 0:
        ln = min(left, rng.choice([1, 2, 3, 5, 8, left]))
        segs.append([ln, rng.choice([0, 0, 1, 1, 2])])
        left -= ln
    # a quarter of the bases favour "pending read that the buffer can satisfy when the
    # stream closes": short reads, everything (and the FIN) arriving in one instant
    friendly = rng.random() < 0.25
    if friendly:
        chunk = rng.choice([1, 2, 3])
        n = rng.choice([3, 5, 6, 7, 10, 13])
        fd = rng.choice([b"\n", b"x"])
        data = bytes(rng.choice(b"ab\r0") for _ in range(n - 1)) + fd
        segs = [[n, 0]] if rng.random() < 0.6 else [[max(1, n // 2), 0], [n - max(1, n // 2), 0]]
        segs = [s for s in segs if s[0] > 0]
    ops = []
    cdelay = rng.choice([0, 1, 3]) if connect else 0
    if connect:
        ops.append({"op": "connect", "pause": 0})
    nops = rng.randint(1, 6 if tier == "quick" else 8)
    for oi in range(nops):
        pause = rng.choice([0, 0, 0, -1, -1, 1, 2])
        if connect and oi == 0 and rng.random() < 0.6:
            pause = cdelay + 1  # let the connection complete first
        k = rng.random()
        if friendly and oi == 0:
            ops.append({"op": "read", "kind": "until", "delim": "hex:" + fd.hex(),
                        "pause": rng.choice([0, 0, 1])})
            continue
        if k < 0.3:
            sizes = [0, 1, 5, window, window + 1, 100, 3000]
            if window < 64:
                sizes = [0, 1, 5, window, window + 1, 40, 100]
            ops.append({"op": "write", "n": rng.choice(sizes), "pause": pause})
        elif k < 0.42:
            ops.append({"op": "read", "kind": "bytes", "n": rng.choice([0, 1, 2, 5, 9, n, n + 1]),
                        "partial": rng.random() < 0.4, "pause": pause})
        elif k < 0.52:
            ops.append({"op": "read", "kind": "into", "n": rng.choice([0, 1, 2, 5, 9, n, n + 1]),
                        "partial": rng.random() < 0.4, "pause": pause})
        elif k < 0.68:
            ops.append({"op": "read", "kind": "until", "delim": "hex:" + rng.choice(DELIMS).hex(),
                        "pause": pause})
            if rng.random() < 0.35:
                ops[-1]["max"] = rng.choice([1, 2, 3, 5, 8, max(1, n)])
        elif k < 0.78:
            ops.append({"op": "read", "kind": "regex",
                        "re": rng.choice(REGEXES).decode("latin1"), "pause": pause})
            if rng.random() < 0.4:
                ops[-1]["max"] = rng.choice([1, 2, 3, 5, 8, max(1, n)])
        elif k < 0.88:
            ops.append({"op": "read", "kind": "close", "pause": pause})
        elif k < 0.95:
            ops.append({"op": "consume", "n": rng.choice([1, window, 50, 5000]), "pause": pause})
        else:
            ops.append({"op": "connect", "pause": pause})
        if rng.random() < 0.16:
            # the owner gives up on an operation it started (wait_for timeout, task
            # cancellation): the future is cancelled, the stream still holds it
            ops.append({"op": "cancel", "what": rng.choice(["read", "read", "write", "connect"]),
                        "k": rng.randrange(3), "pause": rng.choice([0, 0, -1, 1])})
    tapes = {}
    if rng.random() < 0.5:
        tapes["recv_cap"] = {"v": [rng.choice([0, 1, 1, 2, 3]) for _ in range(rng.randint(1, 8))],
                             "cycle": rng.random() < 0.5}
    if rng.random() < 0.3:
        tapes["send_cap"] = [rng.choice([0, 1, 2, 7]) for _ in range(6)]
    if rng.random() < 0.2:
        tapes["defer"] = [rng.choice([0, 1]) for _ in range(8)]
    if rng.random() < 0.15:
        tapes["order"] = [rng.choice([0, 1, 65]) for _ in range(8)]
    if not connect and rng.random() < 0.15:
        tapes["spurious"] = [rng.choice([0, 1]) for _ in range(8)]
    return {
        "property": ID, "version": 1,
        "knobs": {"connect": connect, "connect_delay": cdelay,
                  "window": window, "read_chunk_size": chunk, "close_cb": rng.random() < 0.8,
                  "auto": rng.random() < 0.25},
        "inbound": "hex:" + data.hex(),
        "segments": segs,
        "ops": ops,
        "tapes": tapes,
        "close": {"cause": "none"},
    }


def _with(base, close):
    s = dict(base)
    s["close"] = close
    return s


def expand(base):
    first = _with(base, {"cause": "none"})
    yield first
    info = run(first).get("info", {})
    nops = len(base["ops"])
    # every virtual-time unit at which something can still happen in the fault-free run
    units = (sum(max(0, int(g)) for _ln, g in base["segments"])
             + int(base["knobs"].get("connect_delay", 0) or 0)
             + sum(max(0, int(o.get("pause", 0) or 0)) for o in base["ops"]) + 1)
    units = min(units, 10)
    for cause in ("local", "fin", "pclose", "rst"):
        for j in range(nops + 1):
            for idle in (0, 1):
                yield _with(base, {"cause": cause, "at": "op", "i": j, "idle": idle})
        for t in range(units + 1):
            yield _with(base, {"cause": cause, "at": "time", "i": t})
    n = len(_hex(base["inbound"]))
    pts = {0, n}
    off = 0
    for ln, _gap in base["segments"]:
        off += ln
        pts.update((off - 1, off, off + 1))
    pts = sorted(p for p in pts if 0 <= p <= n)[:14]
    for cause in ("fin", "pclose"):
        for k in pts:
            for g in (0, 1):
                yield _with(base, {"cause": cause, "at": "bytes", "i": k, "gap": g})
    for nth in range(1, min(int(info.get("recv", 0)), 14) + 2):
        yield _with(base, {"cause": "recv_eio", "at": "call", "i": nth})
    for nth in range(1, min(int(info.get("send", 0)), 10) + 2):
        yield _with(base, {"cause": "send_eio", "at": "call", "i": nth})
    if base["knobs"].get("connect"):
        for d in (0, 1, 3):
            yield _with(base, {"cause": "refuse", "at": "delay", "i": d})
        yield _with(base, {"cause": "sync_error", "at": "call", "i": 0})
        yield _with(base, {"cause": "blackhole", "at": "call", "i": 0})


def validate(scn):
    try:
        k = scn["knobs"]
        if k["window"] < 1 or k["read_chunk_size"] < 1:
            return False
        for s in scn["segments"]:
            if not (isinstance(s, list) and len(s) == 2 and s[0] >= 1):
                return False
        for op in scn["ops"]:
            if not isinstance(op, dict) or op.get("op") not in ("connect", "write", "read",
                                                                  "consume", "cancel"):
                return False
            if op["op"] == "read":
                kind = op.get("kind")
                if kind not in ("bytes", "into", "until", "regex", "close"):
                    return False
                if kind == "until" and not _hex(op.get("delim")):
                    return False
                if kind == "regex":
                    re.compile(op["re"].encode("latin1"))
                if op.get("max") is not None and (kind not in ("until", "regex")
                                                  or not isinstance(op["max"], int)
                                                  or op["max"] < 1):
                    return False
        if k.get("connect") and (not scn["ops"] or scn["ops"][0].get("op") != "connect"):
            return False
        c = scn["close"]
        if c.get("cause") not in CAUSES:
            return False
        if c["cause"] in ("local", "fin", "pclose", "rst") and c.get("at") not in ("op", "time",
                                                                                  "bytes"):
            return False
        if c.get("at") == "bytes" and c["cause"] not in ("fin", "pclose"):
            return False
        if c["cause"] in ("refuse", "sync_error", "blackhole") and not k.get("connect"):
            return False
        return True
    except Exception:
        return False


def _regex_ends(rx, view):
    """All match ends that some arrival prefix of ``view`` can produce."""
    ends = set()
    for ln in range(1, len(view) + 1):
        m = rx.search(view[:ln])
        if m is not None:
            ends.add(m.end())
            if len(ends) > 8:
                break
    return ends


# ----------------------------------------------------------------------------
# the run


def run(scn, full_log=False):
    from tornado.iostream import IOStream, StreamClosedError
    from sim.net import SimSocket

    knobs = scn["knobs"]
    ops = scn["ops"]
    close = scn.get("close") or {"cause": "none"}
    cause = close.get("cause", "none")
    at = close.get("at")
    ci = int(close.get("i", 0) or 0)
    data = _hex(scn["inbound"])
    viol = []
    probes = {}
    outcome = []
    seen = set()
    over = []

    def bad(rule, msg, key=None):
        key = key or rule
        if key in seen or over:
            return
        seen.add(key)
        viol.append({"rule": rule, "key": key, "msg": msg})

    def probe(name, n=1):
        probes[name] = probes.get(name, 0) + n

    with SimEnv(scn.get("tapes"), max_iters=3_000, window=knobs["window"],
                full_log=full_log) as env:
        net = env.net
        loop = env.loop
        recs = []  # one per issued read/write/connect
        st = {"peer": None, "sock": None, "stream": None, "sock_errors": [], "fd_closed": False,
              "pulled": 0, "cb": 0, "sent_data": b"", "cleanup": False, "closed_by_cause": False,
              "pending_kinds": [], "cause_applied": False, "n_recv": 0, "n_send": 0,
              "cancelled": [], "cancelled_at_close": []}

        def snapshot():
            """Called at the instant the stream closes its fd."""
            if st["fd_closed"]:
                return
            st["fd_closed"] = True
            st["closed_by_cause"] = not st["cleanup"]
            sock = st["sock"]
            st["pulled"] = sock.rx.read_total if sock.rx is not None else 0
            st["cancelled_at_close"] = list(st["cancelled"])
            if st["sock_errors"]:
                st["why"] = "error"
            elif st.get("local_closing") or st.get("eof"):
                st["why"] = "clean"
            else:
                st["why"] = "self"  # the stream decided to close: max_bytes exceeded
                st["self_inline"] = any(r["in_call"] for r in recs)
            for r in recs:
                if r["pac"] is None:
                    f = r["fut"]
                    r["pac"] = bool(r["in_call"] or (f is not None and not f.done()))
                    if r["pac"]:
                        st["pending_kinds"].append(r["kind"])
            env.log.ev("fd_closed", st["pulled"], len(st["pending_kinds"]))

        def instrument(sock):
            st["sock"] = sock
            o_recv, o_send, o_close = sock.recv_into, sock.send, sock.close
            o_conn, o_gso = sock.connect, sock.getsockopt

            def note(e):
                if not isinstance(e, BlockingIOError):
                    st["sock_errors"].append(e.errno)

            def recv_into(buf, n=0):
                try:
                    k = o_recv(buf, n)
                except OSError as e:
                    note(e)
                    raise
                if k == 0 and (n or len(buf)):
                    st["eof"] = True
                return k

            def send(d):
                try:
                    return o_send(d)
                except OSError as e:
                    note(e)
                    raise

            def connect(addr):
                try:
                    return o_conn(addr)
                except OSError as e:
                    note(e)
                    raise

            def getsockopt(level, opt):
                v = o_gso(level, opt)
                if int(level) == _socket.SOL_SOCKET and int(opt) == _socket.SO_ERROR and v:
                    st["sock_errors"].append(v)
                return v

            def close_():
                snapshot()
                st["n_recv"], st["n_send"] = sock.n_recv, sock.n_send
                return o_close()

            sock.recv_into, sock.send, sock.close = recv_into, send, close_
            sock.connect, sock.getsockopt = connect, getsockopt

        def start_inbound(peer):
            st["peer"] = peer
            peer.auto = bool(knobs.get("auto"))
            limit = len(data)
            if at == "bytes":
                limit = max(0, min(ci, len(data)))
            off = 0
            first = True
            for ln, gap in scn["segments"]:
                if off >= limit:
                    break
                ln = min(ln, limit - off)
                peer.send(data[off:off + ln], gap=0 if first else gap)
                first = False
                off += ln
            st["sent_data"] = data[:off]
            if at == "bytes":
                st["cause_applied"] = True
                g = int(close.get("gap", 0) or 0)
                if cause == "fin":
                    peer.half_close(gap=g)
                else:
                    peer.close(gap=g)

        def safe_close(where):
            st["local_closing"] = True
            try:
                st["stream"].close()
            except BaseException as e:  # CancelledError is a BaseException
                env.log.ev("close_raised", type(e).__name__)
                bad("close.close_raised", f"close() ({where}) raised {type(e).__name__}: {e}",
                    "close.close_raised/" + type(e).__name__)

        def apply_cause():
            stream, peer = st["stream"], st["peer"]
            if cause == "local":
                st["cause_applied"] = True
                env.log.ev("cause", "local")
                safe_close("cause")
            elif cause in ("fin", "pclose", "rst"):
                if peer is None or peer.closed:
                    probe("cause_not_applicable_no_peer")
                    return
                st["cause_applied"] = True
                env.log.ev("cause", cause)
                if cause == "fin":
                    peer.half_close()
                elif cause == "pclose":
                    peer.close()
                else:
                    peer.reset()

        def on_close_cb():
            st["cb"] += 1
            stream = st["stream"]
            env.log.ev("close_cb", st["cb"])
            if not stream.closed():
                bad("close.callback_before_closed", "close callback ran while closed() is False")
            if st["cb"] == 1:
                for r in recs:
                    if r["closed_at_issue"]:
                        continue
                    f = r["fut"]
                    if r["in_call"] or (f is not None and not f.done()):
                        bad("close.callback_before_settled",
                            f"close callback ran while {r['kind']} (op {r['i']}) was unsettled",
                            "close.callback_before_settled/" + r["kind"].split(":")[0])

        async def main():
            connect_mode = bool(knobs.get("connect"))
            if connect_mode:
                sock = SimSocket(net)
                sock.tag = "a"
                script = {"outcome": "accept", "delay": int(knobs.get("connect_delay", 0) or 0)}
                if cause == "refuse":
                    script = {"outcome": "refuse", "delay": ci}
                elif cause == "sync_error":
                    script = {"outcome": "sync_error", "errno": errno.ENETUNREACH}
                elif cause == "blackhole":
                    script = {"outcome": "blackhole"}
                net.connect_script[(IP, PORT)] = script
                net.raw_listen(IP, PORT, start_inbound)
            else:
                sock, peer = net.pair(window_ab=knobs["window"])
            instrument(sock)
            if cause == "recv_eio":
                net.io_faults[("a", "recv", max(1, ci))] = errno.EIO
            elif cause == "send_eio":
                net.io_faults[("a", "send", max(1, ci))] = errno.EIO
            stream = IOStream(sock, read_chunk_size=knobs["read_chunk_size"])
            st["stream"] = stream
            o_stream_close = stream.close

            def close_probe(*a, **kw):
                # probe only: was a pending read completed by close() itself?
                cand = [r for r in recs if r["kind"].startswith("read") and not r["closed_at_issue"]
                        and (r["in_call"] or (r["fut"] is not None and not r["fut"].done()))]
                was_open = not stream.closed()
                try:
                    return o_stream_close(*a, **kw)
                finally:
                    if was_open and cand and stream._read_future is None:
                        r = cand[-1]
                        f = r["fut"]
                        if f is not None and f.done() and not f.cancelled() \
                                and f.exception() is None:
                            r["by_close"] = True
            stream.close = close_probe
            if knobs.get("close_cb"):
                stream.set_close_callback(on_close_cb)
            if not connect_mode:
                start_inbound(peer)
            closer = None
            if at == "time" and cause in ("local", "fin", "pclose", "rst"):
                async def timed():
                    await asyncio.sleep(ci * UNIT)
                    apply_cause()
                closer = loop.create_task(timed())

            async def point(j):
                if at == "op" and ci == j and cause in ("local", "fin", "pclose", "rst"):
                    if close.get("idle"):
                        await loop.idle()
                    apply_cause()

            connect_rec = None
            last_read = None
            for j, op in enumerate(ops):
                p = op.get("pause", 0)
                if p == -1:
                    await loop.idle()
                elif p:
                    await asyncio.sleep(int(p) * UNIT)
                await point(j)
                kind = op["op"]
                if kind == "consume":
                    peer = st["peer"]
                    if peer is not None and not peer.auto and not peer.closed:
                        if peer.consume(max(1, int(op.get("n", 1)))):
                            probe("peer_consumed_partial")
                    continue
                closed_now = stream.closed()
                if kind == "cancel":
                    what = op.get("what", "read")
                    cand = [r for r in recs if r["fut"] is not None and not r["fut"].done()
                            and r["kind"].split(":")[0] == what]
                    if not cand:
                        probe("cancel_skipped_nothing_pending")
                        continue
                    r = cand[int(op.get("k", 0) or 0) % len(cand)]
                    r["fut"].cancel()
                    r["cancelled"] = True
                    st["cancelled"].append(r["kind"])
                    env.log.ev("op", j, "cancel", r["i"], r["kind"])
                    continue
                if kind == "connect":
                    if not closed_now and (connect_rec is not None or not connect_mode):
                        continue  # connect on a live connected/connecting stream: not legal usage
                    r = {"i": j, "kind": "connect", "fut": None, "in_call": True, "exc": None,
                         "closed_at_issue": closed_now, "pac": None if not closed_now else False,
                         "op": op}
                    recs.append(r)
                    try:
                        r["fut"] = stream.connect((IP, PORT))
                    except BaseException as e:  # a CancelledError may escape from close()
                        r["exc"] = e
                    r["in_call"] = False
                    if not closed_now:
                        connect_rec = r
                    env.log.ev("op", j, "connect", closed_now, type(r["exc"]).__name__)
                    continue
                if kind == "write":
                    n = max(0, int(op.get("n", 0)))
                    r = {"i": j, "kind": "write", "fut": None, "in_call": True, "exc": None,
                         "closed_at_issue": closed_now, "pac": None if not closed_now else False,
                         "op": op}
                    recs.append(r)
                    try:
                        r["fut"] = stream.write(bytes([65 + j % 26]) * n)
                    except BaseException as e:  # a CancelledError may escape from close()
                        r["exc"] = e
                    r["in_call"] = False
                    env.log.ev("op", j, "write", n, closed_now, type(r["exc"]).__name__)
                    continue
                # reads
                if last_read is not None and last_read["fut"] is not None \
                        and not last_read["fut"].done():
                    probe("read_skipped_already_reading")
                    continue
                if not closed_now and last_read is not None and last_read.get("cancelled") \
                        and stream.reading():
                    # the cancelled read is still the stream's current read
                    probe("read_skipped_cancelled_read_in_progress")
                    continue
                if connect_mode and not closed_now and (
                        connect_rec is None or connect_rec["fut"] is None
                        or not connect_rec["fut"].done()):
                    probe("read_skipped_connecting")
                    continue
                rk = op.get("kind")
                r = {"i": j, "kind": "read:" + rk, "fut": None, "in_call": True, "exc": None,
                     "closed_at_issue": closed_now, "pac": None if not closed_now else False,
                     "op": op, "buf": None}
                recs.append(r)
                try:
                    if rk == "bytes":
                        r["fut"] = stream.read_bytes(max(0, int(op.get("n", 0))),
                                                     partial=bool(op.get("partial")))
                    elif rk == "into":
                        r["buf"] = bytearray(max(0, int(op.get("n", 0))))
                        r["fut"] = stream.read_into(r["buf"], partial=bool(op.get("partial")))
                    elif rk == "until":
                        r["fut"] = stream.read_until(_hex(op["delim"]), max_bytes=op.get("max"))
                    elif rk == "regex":
                        r["fut"] = stream.read_until_regex(op["re"].encode("latin1"),
                                                           max_bytes=op.get("max"))
                    else:
                        r["fut"] = stream.read_until_close()
                except BaseException as e:
                    r["exc"] = e
                r["in_call"] = False
                last_read = r
                env.log.ev("op", j, r["kind"], closed_now, type(r["exc"]).__name__,
                           r["fut"] is not None and r["fut"].done())
            await point(len(ops))
            await loop.idle()
            # let everything in flight arrive, then the final local close
            await asyncio.sleep(12 * UNIT)
            await loop.idle()
            if closer is not None:
                await closer
            st["cleanup"] = True
            if not st["fd_closed"]:
                st["n_recv"], st["n_send"] = sock.n_recv, sock.n_send
            safe_close("cleanup")
            await loop.idle()
            peer = st["peer"]
            if peer is not None and not peer.closed:
                peer.close()
            # every future must be settled now: wait for each (a hang = never settled)
            for r in recs:
                if r["fut"] is not None and not r["fut"].cancelled():
                    try:
                        await r["fut"]
                    except Exception:
                        pass
            return True

        status = env.run(main())

        # ---- verdict ------------------------------------------------------------
        pending = [r for r in recs if r["fut"] is not None and not r["fut"].done()]
        for r in pending:
            bad("close.future_left_pending",
                f"{r['kind']} (op {r['i']}) is still pending at quiescence after the stream was "
                f"closed (cause {cause})", "close.future_left_pending/" + r["kind"].split(":")[0])
        if status == "hang" and not pending:
            bad("close.hang", "quiescent with the driver blocked but no tracked future pending")
        elif status in ("step_cap", "time_cap"):
            bad("close.livelock", f"{status} after {loop.iterations} iterations")
        elif status.startswith("error"):
            bad("harness.main_raised", f"{status}: {getattr(env, 'main_exception', None)!r}")

        from tornado.iostream import UnsatisfiableReadError
        exp_errno = st["sock_errors"][0] if st["sock_errors"] else None
        exp_unsat = st.get("why") == "self"
        sent = st["sent_data"]
        P = st["pulled"]
        stream = st["stream"]

        def result_of(r):
            """-> ("ok", value) | ("closed", real_error) | ("exc", exception) | ("pending",)"""
            e = r["exc"]
            if e is None:
                f = r["fut"]
                if f is None or not f.done():
                    return ("pending",)
                if f.cancelled():
                    if r.get("cancelled"):
                        return ("cancelled",)
                    return ("exc", asyncio.CancelledError())
                e = f.exception()
                if e is None:
                    return ("ok", f.result())
            if isinstance(e, StreamClosedError):
                return ("closed", e.real_error)
            return ("exc", e)

        def check_failure(r, res):
            """A failure of an operation that was pending (or in its call) when the fd closed."""
            k0 = r["kind"].split(":")[0]
            if res[0] == "closed":
                re_ = res[1]
                got = getattr(re_, "errno", None) if re_ is not None else None
                if exp_unsat:
                    if not isinstance(re_, UnsatisfiableReadError):
                        bad("close.real_error_mismatch",
                            f"{r['kind']} (op {r['i']}) failed with real_error {re_!r}; the stream "
                            f"closed itself because a read's max_bytes was exceeded",
                            f"close.real_error_mismatch/{k0}/UnsatisfiableReadError")
                    else:
                        probe("real_error_UnsatisfiableReadError")
                elif exp_errno is None:
                    if re_ is not None:
                        bad("close.real_error_mismatch",
                            f"{r['kind']} (op {r['i']}) failed with real_error {re_!r} after a clean "
                            f"close (cause {cause})", f"close.real_error_mismatch/{k0}/clean")
                elif not isinstance(re_, OSError) or got != exp_errno:
                    bad("close.real_error_mismatch",
                        f"{r['kind']} (op {r['i']}) failed with real_error {re_!r}; the socket "
                        f"raised {errno.errorcode.get(exp_errno)} (cause {cause})",
                        f"close.real_error_mismatch/{k0}/{errno.errorcode.get(exp_errno)}")
                else:
                    probe("real_error_" + errno.errorcode.get(exp_errno, str(exp_errno)))
                if exp_errno is None and re_ is None:
                    probe("real_error_None")
            else:
                e = res[1]
                if (r["exc"] is e and isinstance(e, OSError) and exp_errno is not None
                        and e.errno == exp_errno):
                    probe("call_raised_injected_error")
                else:
                    bad("close.wrong_exception",
                        f"{r['kind']} (op {r['i']}) failed with {type(e).__name__}: {e} instead "
                        f"of StreamClosedError (cause {cause})",
                        f"close.wrong_exception/{k0}/{type(e).__name__}")

        c = 0  # cursor: bytes of ``sent`` handed to successful reads so far
        dirty = False  # a cancelled read may have consumed bytes nobody received
        for r in recs:
            res = result_of(r)
            kind = r["kind"]
            k0 = kind.split(":")[0]
            outcome.append((r["i"], kind, r["closed_at_issue"], bool(r["pac"]), res[0],
                            len(res[1]) if res[0] == "ok" and isinstance(res[1], bytes) else None))
            if res[0] == "pending":
                continue
            if res[0] == "cancelled":
                # settled by its owner; the stream may still complete it internally and
                # consume bytes for it: from here on the cursor is only a lower bound
                if k0 == "read":
                    dirty = True
                continue
            pac = bool(r["pac"])
            later = r["closed_at_issue"]
            if k0 in ("write", "connect"):
                if later:
                    if res[0] == "ok":
                        bad("close.later_%s_succeeded" % k0,
                            f"{kind} (op {r['i']}) issued on the closed stream succeeded")
                    else:
                        probe("later_%s_refused" % k0)
                        if res[0] == "exc":
                            probe("later_%s_raised_%s" % (k0, type(res[1]).__name__))
                elif pac:
                    probe("close_with_pending_" + k0)
                    if res[0] == "ok":
                        bad("close.pending_not_failed",
                            f"{kind} (op {r['i']}) was pending when the stream closed (cause "
                            f"{cause}) but completed successfully", "close.pending_not_failed/" + k0)
                    else:
                        check_failure(r, res)
                elif res[0] != "ok":
                    bad("close.failed_while_open",
                        f"{kind} (op {r['i']}) failed ({res[0]}) although it was settled before "
                        f"the stream closed", "close.failed_while_open/" + k0)
                elif k0 == "connect" and res[1] is not stream:
                    bad("close.connect_result", "connect future resolved with something else "
                                                "than the stream")
                continue
            # ---- reads
            rk = kind.split(":")[1]
            op = r["op"]
            B = sent[c:P] if st["fd_closed"] else sent[c:]
            n = max(0, int(op.get("n", 0))) if rk in ("bytes", "into") else None
            partial = bool(op.get("partial"))
            # what the buffered bytes can satisfy
            sat = None  # length the read would return from B, if satisfiable
            if rk in ("bytes", "into"):
                if len(B) >= n:
                    sat = n
                elif partial and len(B) > 0:
                    sat = len(B)
            elif rk == "until":
                d = _hex(op["delim"])
                jx = B.find(d)
                if jx >= 0:
                    sat = jx + len(d)
            elif rk == "regex":
                rx = re.compile(op["re"].encode("latin1"))
                m = rx.search(B)
                if m is not None:
                    sat = m.end()
            else:
                sat = len(B)
            mx = op.get("max") if rk in ("until", "regex") else None
            if mx is not None and sat is not None and sat > mx:
                sat = None  # the delimiter lies beyond max_bytes: not satisfiable
            if res[0] == "ok":
                val = res[1]
                if rk == "into":
                    if not isinstance(val, int) or val < 0 or val > len(r["buf"]):
                        bad("close.read_result_type", f"{kind} (op {r['i']}) returned {val!r}",
                            "close.read_result_type/" + rk)
                        break
                    got = bytes(r["buf"][:val])
                elif not isinstance(val, bytes):
                    bad("close.read_result_type", f"{kind} (op {r['i']}) returned "
                        f"{type(val).__name__} {val!r}", "close.read_result_type/" + rk)
                    break
                else:
                    got = val
                ln = len(got)
                when = "later" if later else ("at_close" if pac else "open")
                if dirty:
                    if rk == "close" and not later and st["fd_closed"]:
                        jx = max(c, P - ln)  # everything that was left: a suffix of the pulled
                    else:
                        jx = sent.find(got, c)
                    if jx >= 0:
                        c = jx
                if got != sent[c:c + ln] or (st["fd_closed"] and c + ln > P):
                    bad("close.read_wrong_data",
                        f"{kind} (op {r['i']}, {when}) returned {got[:16]!r} but the next bytes the "
                        f"stream had pulled are {sent[c:P][:16]!r} (cursor {c}, pulled {P})",
                        f"close.read_wrong_data/{rk}/{when}")
                    break
                okc = True
                if rk in ("bytes", "into"):
                    okc = (ln == n) or (partial and n > 0 and 1 <= ln <= n)
                elif rk == "until":
                    d = _hex(op["delim"])
                    okc = got.endswith(d) and got.find(d) == ln - len(d)
                elif rk == "regex":
                    okc = ln in _regex_ends(rx, sent[c:c + 64 + ln])
                elif not later:
                    okc = st["fd_closed"] and got == sent[c:P]
                if mx is not None and ln > mx:
                    okc = False
                if not okc:
                    bad("close.read_contract",
                        f"{kind} (op {r['i']}, {when}) returned {ln} bytes {got[:16]!r} which does "
                        f"not satisfy the request {op}", f"close.read_contract/{rk}/{when}")
                    break
                c += ln
                if r.get("by_close"):
                    if rk != "close":
                        probe("close_with_pending_satisfiable_read")
                    else:
                        probe("close_with_pending_read_until_close")
                if later:
                    probe("later_read_from_buffer_ok")
                continue
            # read failed
            if later:
                probe("later_read_failed")
                if res[0] == "exc":
                    probe("later_read_raised_" + type(res[1]).__name__)
                if rk == "into":
                    # buffered bytes may or may not have been moved into the caller's buffer
                    # before the call failed: the cursor is only a lower bound from here on
                    dirty = True
                continue
            if not pac:
                bad("close.failed_while_open",
                    f"{kind} (op {r['i']}) failed ({res[0]}: {res[1]!r}) although the stream had "
                    f"not closed", "close.failed_while_open/read")
                continue
            probe("close_with_pending_" + rk + "_read")
            if len(B) > 0:
                probe("close_with_buffered_unconsumed")
            call_raised = (res[0] == "exc" and r["exc"] is res[1] and isinstance(res[1], OSError)
                           and exp_errno is not None and res[1].errno == exp_errno)
            if sat is not None and not dirty:
                if call_raised and sat == 0:
                    # the call itself raised the injected error and nothing was buffered
                    probe("call_raised_with_nothing_buffered")
                else:
                    bad("close.pending_read_failed_though_satisfiable",
                        f"{kind} (op {r['i']}) "
                        + ("raised the socket's error from the call" if call_raised
                           else f"failed with {res[0]}")
                        + f" although the {len(B)} bytes {B[:16]!r} the stream had pulled satisfy "
                        f"it ({sat} bytes) (cause {cause})",
                        f"close.pending_read_failed_though_satisfiable/{rk}"
                        + ("/call_raised" if call_raised else ""))
                    if call_raised:
                        c += sat  # the stream consumed (and dropped) them: keep the cursor true
            check_failure(r, res)
            if rk == "into":
                c = max(c, P)

        if st["fd_closed"] and knobs.get("close_cb"):
            if st["cb"] != 1:
                bad("close.callback_count",
                    f"close callback ran {st['cb']} times (cause {cause})",
                    "close.callback_count/" + ("0" if st["cb"] == 0 else "many"))
            else:
                probe("close_cb_ran_once")
        for rec in env.records:
            if rec[3] == "InvalidStateError" or "InvalidStateError" in rec[2]:
                bad("close.double_completion", f"{rec[0]} {rec[1]} {rec[2][:100]}")
        for m, e in env.loop_errors:
            if e == "InvalidStateError":
                bad("close.double_completion", f"loop error {m} {e}")
            elif (e == "CancelledError" and "write.<locals>.<lambda>" in str(m)
                  and "write" in st["cancelled"]):
                # write() attaches `lambda f: f.exception()` to its future, which raises when
                # the owner cancels that future: noise at cancel time, not part of closing
                probe("write_cancel_done_callback_raised")
            else:
                bad("close.loop_error", f"{m} {e}", f"close.loop_error/{e}")
        for rec in env.errors():
            bad("close.error_logged", f"{rec[0]} {rec[1]} {rec[2][:80]} {rec[3]}",
                "close.error_logged")

        stats = env.stats()
        for k in st["pending_kinds"]:
            probe("pending_at_close_" + k.replace(":", "_"))
        if len(set(x.split(":")[0] for x in st["pending_kinds"])) >= 2:
            probe("pending_read_and_write_or_connect_together")
        for k in st["cancelled"]:
            probe("owner_cancelled_" + k.split(":")[0])
        if st["closed_by_cause"] and st["cancelled_at_close"]:
            probe("closed_after_owner_cancel")
            if st["pending_kinds"]:
                probe("closed_after_owner_cancel_with_other_pending")
        if exp_unsat:
            mine = [r for r in recs if (r["pac"] or (r.get("cancelled") and not r["closed_at_issue"]))
                    and r["op"].get("max") is not None]
            if not mine:
                bad("close.self_close_without_cause",
                    "the stream closed itself with no socket error, EOF, close() call or pending "
                    "read with max_bytes")
            probe("self_close_max_bytes_" + ("inline" if st.get("self_inline") else "handler"))
            if len(st["pending_kinds"]) >= 2:
                probe("self_close_max_bytes_with_other_pending")
        if st["closed_by_cause"] and not exp_unsat:
            probe("closed_by_cause_" + cause)
        if cause not in ("none",) and (not st["closed_by_cause"] or exp_unsat):
            probe("cause_did_not_close_stream")
        stats["probes"].update(probes)
        nontrivial = bool(st["closed_by_cause"] and (cause != "none" or exp_unsat)
                          and st["pending_kinds"])
        info = {"recv": st["n_recv"], "send": st["n_send"]}
        over.append(1)
        return {"violations": viol, "nontrivial": nontrivial, "stats": stats, "info": info,
                "log_head": env.log.head, "log_full": env.log.full, "outcome": outcome}
