"""Shared pieces of C02 and C03: request builder, the client-side driver
(segmented sender, windowed / slow reader, incremental strict response reader),
and small helpers.  Everything here is a pure function of its arguments and of
the simulated world.
"""

import asyncio

from sim.env import UNIT
from ref.http_response_check import ResponseReader, read_all

SECOND_BODY = b"SECOND-RESPONSE"
SECOND_REQ = b"GET /two HTTP/1.1\r\nHost: h\r\n\r\n"


def fill(n, seed, alpha=b"abcdefghijklmnopqrstuvwxyz0123456789 \r\n"):
    """n deterministic bytes (compressible text with CR/LF sprinkled in)."""
    if n <= 0:
        return b""
    x = (seed * 2654435761 + 12345) & 0x7FFFFFFF
    out = bytearray(n)
    k = len(alpha)
    for i in range(n):
        x = (x * 1103515245 + 12345) & 0x7FFFFFFF
        out[i] = alpha[(x >> 16) % k]
    return bytes(out)


def hexbytes(s):
    if isinstance(s, str) and s.startswith("hex:"):
        try:
            return bytes.fromhex(s[4:])
        except ValueError:
            return b""
    if isinstance(s, str):
        return s.encode("latin1", "replace")
    return b""


def build_request(method, version, headers, body=b"", chunked_sizes=None, target="/p"):
    """headers: list of (name, value) str pairs.  Body framing is the caller's
    business (it puts Content-Length / Transfer-Encoding into ``headers``);
    ``chunked_sizes`` encodes ``body`` with the chunked coding."""
    lines = [f"{method} {target} HTTP/{version}"]
    for k, v in headers:
        lines.append(f"{k}: {v}")
    head = ("\r\n".join(lines) + "\r\n\r\n").encode("latin1")
    if chunked_sizes is not None:
        out = bytearray()
        pos = 0
        for n in chunked_sizes:
            n = max(1, min(n, len(body) - pos))
            if pos >= len(body):
                break
            out += b"%x\r\n" % n + body[pos:pos + n] + b"\r\n"
            pos += n
        if pos < len(body):
            out += b"%x\r\n" % (len(body) - pos) + body[pos:] + b"\r\n"
        out += b"0\r\n\r\n"
        return head, bytes(out)
    return head, bytes(body)


class Client:
    """One raw client connection with a strict incremental response reader.

    ``reader``: {"auto": bool, "steps": [[nbytes, gap_units], ...]} - with
    auto=False the peer does not drain its receive buffer by itself: the
    consumer task takes ``nbytes`` every ``gap`` units (the server-side send
    window only reopens as it does), then switches to draining.
    """

    def __init__(self, env, peer, srv_sock, methods):
        self.env = env
        self.peer = peer
        self.srv_sock = srv_sock
        self.rr = ResponseReader(methods)
        self.fed = 0
        self.tap = bytearray()   # what the server's socket accepted, in order
        self.first_done_at = None
        self.second_sent_at = None
        self.second_sent = False
        self.second_sent_after_eof = False
        self._consumer = None

    def ended(self):
        """No more bytes will come: FIN delivered after all data, or the pipe
        from the server was reset.  (``peer.got_rst`` alone only means that one
        of *our* segments hit a closed socket; the server's last bytes and its
        FIN may still be in flight.)"""
        return self.peer.eof or self.peer.rx.rst

    # -- wire capture
    def install_tap(self):
        net = self.env.net
        sock = self.srv_sock
        tap = self.tap

        def on_send(s, chunk):
            if s is sock:
                tap.extend(chunk)
        net.send_tap = on_send

    def pump(self):
        peer = self.peer
        rr = self.rr
        n = len(peer.received)
        if n > self.fed and not rr.eof:
            rr.feed(bytes(peer.received[self.fed:n]))
            self.fed = n
        if not rr.eof and self.ended() and not peer.rx.rbuf and not peer.rx.inflight_bytes:
            rr.close()
        if self.first_done_at is None and rr.n_final >= 1:
            self.first_done_at = self.env.loop.time()

    async def wait_until(self, pred, timeout_units):
        """True if pred() became true, False on (virtual) timeout."""
        self.pump()
        if pred():
            return True
        loop = self.env.loop
        peer = self.peer
        state = {"to": False}

        def full_pred():
            self.pump()
            return state["to"] or pred()

        def on_to():
            state["to"] = True
            peer._wake()
        h = loop.call_later(timeout_units * UNIT, on_to)
        try:
            await peer.wait(full_pred)
        finally:
            h.cancel()
        return pred()

    def start_reader(self, spec):
        peer = self.peer
        steps = [s for s in (spec or {}).get("steps", ())
                 if isinstance(s, list) and len(s) == 2]
        if (spec or {}).get("auto", True) or not steps:
            peer.auto = True
            return
        peer.auto = False

        async def consume():
            for k, gap in steps:
                if gap > 0:
                    await asyncio.sleep(gap * UNIT)
                else:
                    await asyncio.sleep(0)
                if k > 0:
                    peer.consume(k)
                    peer._wake()
            peer.auto = True
            peer.consume(None)
            peer._on_arrival()
        self._consumer = self.env.loop.create_task(consume())

    def drain(self):
        peer = self.peer
        peer.auto = True
        if not peer.closed:
            peer.consume(None)
            peer._on_arrival()
        self.pump()

    def final_reader(self):
        """The reader the oracle judges: over the received bytes; if the
        connection was reset (the network discards unread data on RST) over
        what the server's socket accepted instead.  Returns (reader, source)."""
        peer = self.peer
        self.pump()
        if peer.rx.rst and bytes(self.tap) != bytes(peer.received):
            return read_all(self.tap, True, self.rr.methods), "tap"
        return self.rr, "received"


def send_segments(peer, data, cuts, gaps):
    """Send data cut at offsets ``cuts``; gaps[i] units between segments.
    Returns the number of segments."""
    pts = sorted({c for c in cuts if isinstance(c, int) and 0 < c < len(data)})
    pos = 0
    i = 0
    for c in pts + [len(data)]:
        g = 0 if i == 0 else (gaps[(i - 1) % len(gaps)] if gaps else 1)
        peer.send(data[pos:c], gap=max(0, int(g)))
        pos = c
        i += 1
    return i


def total_gap_units(data_len, cuts, gaps):
    pts = sorted({c for c in cuts if isinstance(c, int) and 0 < c < data_len})
    if not pts:
        return 0
    if not gaps:
        return len(pts)
    return sum(max(0, int(gaps[i % len(gaps)])) for i in range(len(pts)))


class GzipClock:
    """gzip.GzipFile stamps the real wall clock into its header; route it to the
    simulated clock so that response bytes are a function of the scenario."""

    def __init__(self, env):
        self.env = env
        self.saved = None

    def __enter__(self):
        import gzip
        from sim.env import ModProxy
        import time as _time
        self.saved = gzip.time
        gzip.time = ModProxy(_time, time=self.env._time)
        return self

    def __exit__(self, *a):
        import gzip
        gzip.time = self.saved
        return False
