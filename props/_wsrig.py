"""Shared WebSocket rig for C14-C16.

Tornado ends: a real tornado.websocket.WebSocketHandler in a web.Application on
a real HTTPServer over a listening SimSocket, and/or the real client
(tornado.websocket.websocket_connect -> simple_httpclient -> TCPClient over
SimSockets).  Non-Tornado end: ``RawWS`` - a RawPeer that performs the HTTP
upgrade by hand and speaks frames through ref/ws_codec.py, as a client against
the real server or (via env.net.raw_listen) as a server against the real
client.

Everything here is driven by explicit scenario fields; nothing draws from a
PRNG or a clock.
"""

import asyncio
import hashlib

from ref import ws_codec as W
from sim.env import UNIT

HOST = "127.0.0.1"

# ---------------------------------------------------------------------------
# payload specs


_ASTRAL = [0x1F600, 0x1F4A9, 0x10348, 0x1D11E, 0x10FFFF, 0x10000]
_BMP3 = [0x20AC, 0x4E2D, 0x6587, 0xFFFD, 0x0800, 0xD7FF, 0xE000, 0xFFFF]
_BMP2 = [0xE9, 0xFC, 0x3A9, 0x416, 0x80, 0x7FF]


def _utf_table():
    t = []
    for i in range(256):
        k = i % 16
        if k < 7:
            t.append(chr(0x20 + (i * 7) % 95))
        elif k < 10:
            t.append(chr(_BMP2[i % len(_BMP2)]))
        elif k < 13:
            t.append(chr(_BMP3[i % len(_BMP3)]))
        else:
            t.append(chr(_ASTRAL[i % len(_ASTRAL)]))
    return t


_UTF = _utf_table()
_AB = bytes(b"ab"[i & 1] for i in range(256))
_ASCII = bytes(0x20 + (i % 95) for i in range(256))


def _shake(seed, n):
    if n <= 0:
        return b""
    return hashlib.shake_128(b"ws:%d" % seed).digest(n)


def _utf_fill(seed, n):
    """Valid UTF-8 of exactly n bytes, mixing 1-4 byte sequences."""
    if n <= 0:
        return b""
    raw = _shake(seed, n if n < 2000 else n * 6 // 10 + 16)
    tab = _UTF
    enc = "".join([tab[b] for b in raw]).encode("utf-8")
    if len(enc) < n:  # only possible for the long form: pad with ASCII
        enc += b"a" * (n - len(enc))
    cut = n
    while cut > 0 and cut < len(enc) and (enc[cut] & 0xC0) == 0x80:
        cut -= 1
    return enc[:cut] + b"a" * (n - cut)


def expand_data(spec):
    """Scenario payload spec -> bytes.

    "hex:.."                                   literal
    {"k": kind, "n": len, "s": seed, "p": period}
       kind: "a" one repeated byte | "ab" two-letter alphabet | "asc" printable ASCII |
             "rnd" incompressible bytes | "rep" random block of p bytes repeated |
             "utf" valid UTF-8 incl. astral | "utfrep" a UTF-8 block of ~p bytes repeated
    """
    if isinstance(spec, str):
        return bytes.fromhex(spec[4:]) if spec.startswith("hex:") else spec.encode("utf-8")
    k = spec.get("k", "a")
    n = max(0, int(spec.get("n", 0)))
    s = int(spec.get("s", 0))
    if n == 0:
        return b""
    if k == "a":
        return bytes([0x61 + s % 26]) * n
    if k == "ab":
        return _shake(s, n).translate(_AB)
    if k == "asc":
        return _shake(s, n).translate(_ASCII)
    if k == "rnd":
        return _shake(s, n)
    p = max(1, int(spec.get("p", 64)))
    if k == "rep":
        blk = _shake(s, min(p, n))
        return (blk * (n // len(blk) + 1))[:n]
    if k == "utf":
        return _utf_fill(s, n)
    if k == "utfrep":
        blk = _utf_fill(s, min(p, n))
        out = blk * (n // len(blk) + 1)
        cut = n
        while cut > 0 and cut < len(out) and (out[cut] & 0xC0) == 0x80:
            cut -= 1
        return out[:cut] + b"a" * (n - cut)
    raise ValueError("data kind %r" % (k,))


TEXT_KINDS = ("a", "ab", "asc", "utf", "utfrep")
BIN_KINDS = ("a", "ab", "rnd", "rep", "utf")


def mask_for(seed, j):
    """Deterministic 4-byte mask for frame j of a message with mask seed."""
    if seed % 11 == 0:
        return b"\x00\x00\x00\x00"
    if seed % 11 == 1:
        return b"\xff\xff\xff\xff"
    x = (seed * 2654435761 + j * 40503 + 12345) & 0xFFFFFFFF
    return x.to_bytes(4, "big")


# ---------------------------------------------------------------------------
# what a Tornado endpoint's application observed


class SideRec:
    def __init__(self, env, name):
        self.env = env
        self.name = name
        self.messages = []  # (1|2, bytes)   text is stored utf-8 encoded
        self.msg_times = []
        self.pings = []
        self.pongs = []
        self.opened = 0
        self.closed = 0  # on_close calls / read_message()->None observations
        self.close_code = None
        self.close_reason = None
        self.close_time = None
        self.close_infos = []
        self.handler = None
        self.in_flight = 0  # async on_message bodies currently running
        self.max_in_flight = 0
        self.bad_types = []
        self._waiters = []

    def notify(self):
        ws, self._waiters = self._waiters, []
        for pred, fut in ws:
            if fut.done():
                continue
            if pred():
                fut.set_result(None)
            else:
                self._waiters.append((pred, fut))

    async def wait(self, pred):
        if pred():
            return
        fut = self.env.loop.create_future()
        self._waiters.append((pred, fut))
        await fut

    def got_message(self, m):
        if isinstance(m, str):
            try:
                self.messages.append((1, m.encode("utf-8")))
            except UnicodeEncodeError:
                self.messages.append((1, m.encode("utf-8", "surrogatepass")))
                self.bad_types.append("unencodable_str")
        elif isinstance(m, bytes):
            self.messages.append((2, m))
        else:
            self.bad_types.append(type(m).__name__)
            self.messages.append((0, repr(m).encode()))
        self.msg_times.append(self.env.loop.time())
        self.env.log.ev("deliver", self.name, len(self.messages), len(self.messages[-1][1]))
        self.notify()

    def got_close(self, code, reason):
        self.closed += 1
        self.close_infos.append((code, reason))
        if self.closed == 1:
            self.close_code = code
            self.close_reason = reason
            self.close_time = self.env.loop.time()
        self.env.log.ev("app_close", self.name, self.closed, code)
        self.notify()


async def pace(env, k):
    """One step of an application's pacing pattern: 0 none, -1 run to idle,
    k>0 sleep k units."""
    if k == -1:
        await env.loop.idle()
    elif k and k > 0:
        await asyncio.sleep(k * UNIT)


class Pattern:
    """Cyclic int pattern taken from the scenario (tolerates junk)."""

    def __init__(self, vals):
        self.v = [x for x in (vals or []) if isinstance(x, int)]
        self.i = 0

    def next(self):
        if not self.v:
            return 0
        x = self.v[self.i % len(self.v)]
        self.i += 1
        return x


def make_handler_class(env, rec, *, compression=None, pattern=None, on_message_hook=None,
                       open_hook=None):
    """A WebSocketHandler subclass recording into ``rec``."""
    from tornado.websocket import WebSocketHandler

    pat = Pattern(pattern)

    class Handler(WebSocketHandler):
        def check_origin(self, origin):
            return True

        def get_compression_options(self):
            return compression

        def open(self, *a, **kw):
            rec.opened += 1
            rec.handler = self
            env.log.ev("open", rec.name)
            rec.notify()
            if open_hook is not None:
                return open_hook(self)

        def on_message(self, message):
            rec.got_message(message)
            if on_message_hook is not None:
                r = on_message_hook(self, message)
                if r is not None:
                    return r
            k = pat.next()
            if k:
                return self._slow(k)
            return None

        async def _slow(self, k):
            rec.in_flight += 1
            rec.max_in_flight = max(rec.max_in_flight, rec.in_flight)
            try:
                await pace(env, k)
            finally:
                rec.in_flight -= 1

        def on_ping(self, data):
            rec.pings.append(bytes(data))

        def on_pong(self, data):
            rec.pongs.append(bytes(data))
            rec.notify()

        def on_close(self):
            rec.got_close(self.close_code, self.close_reason)

    return Handler


def _no_log(handler):
    return None


def start_ws_server(env, rec, *, port=80, compression=None, pattern=None, max_message_size=None,
                    ping_interval=None, ping_timeout=None, on_message_hook=None, open_hook=None):
    """Real Application + HTTPServer on a listening SimSocket. Returns (server, listener)."""
    from tornado.httpserver import HTTPServer
    from tornado.web import Application

    H = make_handler_class(env, rec, compression=compression, pattern=pattern,
                           on_message_hook=on_message_hook, open_hook=open_hook)
    settings = {"log_function": _no_log}
    if max_message_size is not None:
        settings["websocket_max_message_size"] = max_message_size
    if ping_interval is not None:
        settings["websocket_ping_interval"] = ping_interval
    if ping_timeout is not None:
        settings["websocket_ping_timeout"] = ping_timeout
    app = Application([("/ws", H)], **settings)
    server = HTTPServer(app)
    ls = env.net.listen(HOST, port)
    server.add_socket(ls)
    return server, ls


async def stop_server(server):
    server.stop()
    await server.close_all_connections()


# ---------------------------------------------------------------------------
# the real client, with recording hooks


class client_class_patch:
    """While active, tornado.websocket.websocket_connect instantiates a
    subclass of WebSocketClientConnection whose on_ping/on_pong record into
    ``rec`` (both are documented no-op hooks)."""

    def __init__(self, rec):
        self.rec = rec

    def __enter__(self):
        import tornado.websocket as tw
        rec = self.rec
        self.tw = tw
        self.saved = tw.WebSocketClientConnection

        class RecClient(self.saved):
            def on_ping(self, data):
                rec.pings.append(bytes(data))

            def on_pong(self, data):
                rec.pongs.append(bytes(data))
                rec.notify()

        tw.WebSocketClientConnection = RecClient
        return self

    def __exit__(self, *a):
        self.tw.WebSocketClientConnection = self.saved
        return False


def client_connect(env, rec, *, port=80, compression=None, max_message_size=None,
                   ping_interval=None, ping_timeout=None, callback_mode=False,
                   connect_timeout=None):
    """Calls the real websocket_connect; returns its future."""
    from tornado.websocket import websocket_connect

    kw = {}
    if max_message_size is not None:
        kw["max_message_size"] = max_message_size
    if ping_interval is not None:
        kw["ping_interval"] = ping_interval
    if ping_timeout is not None:
        kw["ping_timeout"] = ping_timeout
    if connect_timeout is not None:
        kw["connect_timeout"] = connect_timeout
    if callback_mode:
        def cb(msg):
            if msg is None:
                rec.got_close(rec.conn.close_code if rec.conn is not None else None,
                              rec.conn.close_reason if rec.conn is not None else None)
            else:
                rec.got_message(msg)
        kw["on_message_callback"] = cb
    rec.conn = None
    return websocket_connect("ws://%s:%d/ws" % (HOST, port), compression_options=compression,
                             **kw)


async def client_read_loop(env, rec, conn, pattern=None, limit=None):
    """read_message() loop; records each message; a None result is the
    application's close notification (loop ends)."""
    pat = Pattern(pattern)
    n = 0
    while limit is None or n < limit:
        msg = await conn.read_message()
        if msg is None:
            rec.got_close(conn.close_code, conn.close_reason)
            return
        rec.got_message(msg)
        n += 1
        k = pat.next()
        if k:
            rec.in_flight += 1
            await pace(env, k)
            rec.in_flight -= 1


# ---------------------------------------------------------------------------
# the raw frame peer


class Segmenter:
    """Cuts outgoing bytes into segments: pattern [[len, gap], ...] applied
    cyclically (len <= 0: the rest of the current write); with ``hdr`` every
    frame header (incl. the mask) is sent one byte per segment."""

    def __init__(self, spec):
        spec = spec if isinstance(spec, dict) else {}
        pat = []
        for ent in spec.get("pat") or []:
            if isinstance(ent, list) and len(ent) == 2 and all(isinstance(x, int) for x in ent):
                pat.append((ent[0], max(0, ent[1])))
        self.pat = pat
        self.hdr = bool(spec.get("hdr"))
        self.i = 0
        self.nsegs = 0
        self.hdr_cuts = 0

    def cut(self, data, hlen=0):
        """Yields (chunk, gap)."""
        pos = 0
        n = len(data)
        if self.hdr and hlen:
            h = min(hlen, n)
            for j in range(h):
                yield data[j:j + 1], 1
                self.hdr_cuts += 1
            pos = h
        if not self.pat:
            if pos < n:
                yield data[pos:], 0 if pos == 0 else 1
            return
        count = 0
        while pos < n:
            ln, gap = self.pat[self.i % len(self.pat)]
            self.i += 1
            count += 1
            if ln <= 0 or count > 1500:
                ln = n - pos
            yield data[pos:pos + ln], gap
            pos += ln


class RawWS:
    """Raw WebSocket endpoint on top of a RawPeer."""

    def __init__(self, env, peer, role, seg=None, auto_pong=True):
        self.env = env
        self.peer = peer
        self.role = role  # "client" (masks its frames) | "server"
        self.seg = seg if isinstance(seg, Segmenter) else Segmenter(seg)
        self.parser = W.FrameParser()
        self.rx = None  # Receiver for Tornado's frames (set after the handshake)
        self.frames = []  # (Frame, time seen)
        self.head = None
        self.head_len = 0
        self.pmd = None  # agreed PMDParams or None
        self.ok = False
        self.why = ""
        self.auto_pong = auto_pong
        self.pong_delay = None  # Pattern: units to wait before answering; <0 = withhold
        self.sent_frames = 0
        self.sent_bytes = 0
        self._pos = 0
        self._reader = None
        self.on_frame = None
        self.request_offers = None
        self.frame_offsets = []  # (start offset in our outgoing stream, hlen, total len)

    # -- bytes out
    def send_bytes(self, data, hlen=0):
        if self.peer.closed:
            return False
        for chunk, gap in self.seg.cut(data, hlen):
            if chunk:
                self.peer.send(chunk, gap=gap)
                self.seg.nsegs += 1
        self.sent_bytes += len(data)
        return True

    def send_frame(self, opcode, payload=b"", fin=True, rsv=0, mask=None, force_mask=None,
                   declared_len=None):
        """Encodes and sends one frame; clients mask (``mask`` 4 bytes or a
        default), servers do not - unless ``force_mask`` says otherwise."""
        masked = (self.role == "client") if force_mask is None else force_mask
        if masked:
            if mask is None:
                mask = mask_for(self.sent_frames + 5, self.sent_frames)
        else:
            mask = None
        data = W.encode_frame(opcode, payload, fin=fin, rsv=rsv, mask=mask,
                              declared_len=declared_len)
        hlen = W.header_len(len(payload), mask is not None) if declared_len is None \
            else 10 + (4 if mask is not None else 0)
        self.frame_offsets.append((self.sent_bytes, hlen, len(data)))
        self.sent_frames += 1
        return self.send_bytes(data, hlen)

    # -- bytes in
    def pump(self):
        rcv = self.peer.received
        if self.head is None:
            return
        if len(rcv) > self._pos:
            data = bytes(rcv[self._pos:])
            self._pos = len(rcv)
            now = self.env.loop.time()
            for f in self.parser.feed(data):
                self.frames.append((f, now))
                if self.rx is not None:
                    self.rx.frame(f)
                if self.on_frame is not None:
                    self.on_frame(f)
                if f.opcode == W.OP_PING and self.auto_pong and f.fin and f.length <= 125:
                    self._answer_ping(f)

    def _answer_ping(self, f):
        d = self.pong_delay.next() if self.pong_delay is not None else 0
        if d < 0 or self.peer.closed:
            return
        if d == 0:
            self.send_frame(W.OP_PONG, f.payload)
        else:
            self.env.loop.call_later(d * UNIT, self._late_pong, f.payload)

    def _late_pong(self, payload):
        if not self.peer.closed:
            self.send_frame(W.OP_PONG, payload)

    def start_reader(self):
        if self._reader is None:
            self._reader = self.env.loop.create_task(self._read_loop())

    async def _read_loop(self):
        peer = self.peer
        while True:
            self.pump()
            if peer.ended():
                self.pump()
                return
            seen = len(peer.received)
            await peer.wait(lambda: len(peer.received) > seen or peer.ended())

    async def wait(self, pred):
        """Wait until pred() holds (evaluated after pumping) or the peer's stream ended."""
        def p():
            self.pump()
            return pred() or self.peer.ended()
        await self.peer.wait(p)

    # -- handshakes
    async def handshake_client(self, offer=None, key_seed=1, path="/ws", extra=()):
        """Client side of the upgrade.  ``offer``: {param: value|None} for
        permessage-deflate, or None.  Returns True on success."""
        peer = self.peer
        key = W.make_key(key_seed)
        ext = W.format_extension("permessage-deflate", offer) if offer is not None else None
        req = W.client_request("%s:80" % HOST, path, key, extensions=ext, extra=extra)
        self.send_bytes(req)
        await peer.wait_for(b"\r\n\r\n")
        i = peer.received.find(b"\r\n\r\n")
        if i < 0:
            self.why = "eof_before_response"
            return False
        self.head = bytes(peer.received[:i])
        self.head_len = self._pos = i + 4
        ok, why, params = W.check_server_response(self.head, key)
        if not ok:
            self.why = why
            return False
        if params is not None:
            if offer is None:
                self.why = "extension_not_offered"
                return False
            try:
                self.pmd = W.PMDParams.from_params(params)
            except ValueError:
                self.why = "bad_extension_params"
                return False
        self.ok = True
        return True

    async def handshake_server(self, choose):
        """Server side.  ``choose(offers)`` -> permessage-deflate response params
        ({..} / None).  Returns True on success."""
        peer = self.peer
        await peer.wait_for(b"\r\n\r\n")
        i = peer.received.find(b"\r\n\r\n")
        if i < 0:
            self.why = "eof_before_request"
            return False
        self.head = bytes(peer.received[:i])
        self.head_len = self._pos = i + 4
        ok, why, offers = W.check_client_request(self.head)
        self.request_offers = offers
        if not ok:
            self.why = why
            return False
        params = choose(offers)
        if params is not None:
            self.pmd = W.PMDParams.from_params(params)
        self.send_bytes(W.server_response(self.head, params))
        self.ok = True
        return True

    def make_receiver(self, max_size=None):
        """Strict receiver for Tornado's frames according to the agreed parameters."""
        tornado_role = "server" if self.role == "client" else "client"
        inf = None
        if self.pmd is not None:
            wbits, nct = self.pmd.sender_args(tornado_role)
            inf = W.Inflater(wbits, nct)
        self.rx = W.Receiver(inf, expect_masked=(tornado_role == "client"), max_size=max_size)
        return self.rx

    def make_deflater(self, level=6, mem_level=8, reset_context=False):
        """Our compressor according to the agreed parameters (None if no extension)."""
        if self.pmd is None:
            return None
        wbits, nct = self.pmd.sender_args(self.role)
        return W.Deflater(wbits, nct or reset_context, level, mem_level)


def arrival_time(peer, offset):
    """Virtual time at which stream byte ``offset`` (1-based count) reached the peer."""
    for t, cum in peer.arrivals:
        if cum >= offset:
            return t
    return None


class WireTap:
    """Collects what each Tornado socket sends (via net.send_tap), by fd."""

    def __init__(self, env):
        self.env = env
        self.by_fd = {}
        self.times = {}
        env.net.send_tap = self._tap

    def _tap(self, sock, chunk):
        fd = sock._fd
        self.by_fd.setdefault(fd, bytearray()).extend(chunk)
        self.times.setdefault(fd, []).append((self.env.loop.time(), len(self.by_fd[fd])))

    def frames_after_head(self, fd):
        """(head bytes | None, [Frame], trailing_bytes)"""
        data = bytes(self.by_fd.get(fd, b""))
        i = data.find(b"\r\n\r\n")
        if i < 0:
            return None, [], len(data)
        p = W.FrameParser()
        frames = p.feed(data[i + 4:])
        return data[:i], frames, p.pending()

    def time_of(self, fd, offset):
        for t, cum in self.times.get(fd, ()):
            if cum >= offset:
                return t
        return None


def track_socket_close(env, sock, store, name):
    """Records the virtual time at which Tornado closes ``sock``."""
    orig = sock.close

    def close():
        if not sock.closed:
            store.setdefault(name, []).append(env.loop.time())
        return orig()

    sock.close = close


# ---------------------------------------------------------------------------
# valid frame sequences from message specs (C15 / C16)


def _msg_layout(m):
    """(cuts, ctl_by_gap) of a message spec, tolerant of mutilated input."""
    cuts = [c for c in (m.get("cuts") or ()) if isinstance(c, int) and c >= 0][:20]
    ctl = {}
    for c in m.get("ctl") or ():
        if isinstance(c, list) and len(c) == 3 and c[1] in (9, 10) and isinstance(c[0], int):
            ctl.setdefault(min(max(c[0], 0), len(cuts) + 1), []).append(c)
    return cuts, ctl


def plan_frames(msgs):
    """The frame sequence a list of message specs expands to, without payloads:
    [("ctl", mi, opcode, payload_spec) | ("frag", mi, j, nfrags)]."""
    out = []
    for mi, m in enumerate(msgs):
        cuts, ctl = _msg_layout(m)
        nfr = len(cuts) + 1
        for j in range(nfr + 1):
            for c in ctl.get(j, ()):
                out.append(("ctl", mi, c[1], c[2]))
            if j < nfr:
                out.append(("frag", mi, j, nfr))
    return out


def build_frames(msgs, deflater=None, limit=None, mi0=0):
    """[{"op", "fin", "rsv", "payload", "mi", "j", "last", "ctl"}] for valid traffic.
    A message is compressed when its spec says "z" and a deflater exists (and
    the result fits ``limit``)."""
    frames = []
    for mi, m in enumerate(msgs, mi0):
        cuts, ctl = _msg_layout(m)
        data = expand_data(m["d"])
        z = m.get("z") if deflater is not None else None
        payload = data
        if z:
            comp = deflater.compress(data, z if z in ("sync", "full", "multi", "stored") else "sync",
                                     limit=limit)
            if comp is None:
                z = None
            else:
                payload = comp
        frs = []
        pos = 0
        for c in cuts:
            frs.append(payload[pos:pos + c])
            pos += c
        frs.append(payload[pos:])
        for j in range(len(frs) + 1):
            for c in ctl.get(j, ()):
                frames.append({"op": c[1], "fin": True, "rsv": 0, "payload": expand_data(c[2]),
                               "mi": mi, "j": j, "last": False, "ctl": True})
            if j < len(frs):
                frames.append({"op": (m["t"] if j == 0 else 0), "fin": j == len(frs) - 1,
                               "rsv": W.RSV1 if (z and j == 0) else 0, "payload": frs[j],
                               "mi": mi, "j": j, "last": j == len(frs) - 1, "ctl": False,
                               "z": bool(z)})
    return frames
