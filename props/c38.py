"""C38 - IOLoop callbacks and timeouts run once, in order, and survive errors.

Single-threaded part (mode "single").  The cross-thread part (foreign threads
calling add_callback under the baton scheduler of sim/threads.py) plugs in
through ``scenario["mode"] == "threads"`` -- see "EXTENSION POINT" below.

What runs: the real ``tornado.platform.asyncio.AsyncIOMainLoop`` (the object
``IOLoop.current()`` creates around the running SimLoop) and through it
``IOLoop.add_callback / spawn_callback / add_timeout / call_later / call_at /
remove_timeout / add_future / _run_callback / run_sync``.

A scenario is a *program*: a tree of scheduling operations.  Top-level ops are
issued by the main coroutine (with sleeps in between), nested ops are issued
from inside the callbacks they belong to.  Every callback records
(run sequence number, loop iteration, IOLoop.time()) when it runs; the oracle is a
history check at quiescence.

run_sync needs a loop that is *not* running.  ``env.run(main())`` returns when
the SimLoop is quiescent (SimLoop.run_forever() has returned and can be entered
again), so the run_sync phase simply calls ``io_loop.run_sync(func, timeout)``
from plain code after ``env.run`` -- on the same AsyncIOMainLoop/SimLoop, still
inside the SimEnv (virtual clock, tapes, log capture all active).
``IOLoop.start()`` is ``SimLoop.run_forever()``; ``IOLoop.stop()`` ends it after
the current iteration.  Because a quiescent SimLoop stops by itself, every
run_sync function generated here keeps a timer pending until it completes.
After the last run_sync the loop is drained once more (run_until_quiescent) so
that the exactly-once history check also covers what the functions scheduled.

All instants are multiples of UNIT = 2**-10 s (timedelta deadlines: multiples
of 16 UNIT = 15625 us, exactly representable), the skew between IOLoop.time()
and the loop clock is a per-run constant multiple of UNIT, so every deadline
computation in Tornado and in the oracle is exact.
"""

import asyncio
import concurrent.futures
import datetime

from sim.env import SimEnv, UNIT

ID = "C38"
LEVEL = "exploration"
QUICK_N = 150000     # ~0.4 ms CPU per run (+ ~0.4 ms generation, hashing, bookkeeping)
THOROUGH_N = 1500000  # larger programs (~1 ms each); bounded by the runner's in-memory hash sets
CHUNK = 2000
RULE = ("gen(seed): program tree of add_callback/spawn_callback/add_timeout(abs, timedelta)/"
        "call_later/call_at/remove_timeout/add_future/resolve ops (top level issued by the main "
        "coroutine between sleeps, nested ones from inside callbacks, bodies raise / return "
        "failing futures / coroutines / a decorated coroutine yielding a non-yieldable, exception types "
        "Exception, gen.BadYieldError, InvalidStateError, KeyError, gen.Return, TimeoutError, OSError, "
        "StopIteration; callbacks returning non-yieldable objects), then 0-3 run_sync calls (value, exception, future, "
        "timeout); constant clock skew, late/cost tapes, slow callbacks that advance the clock while "
        "they run (timeouts become due while still in the heap), deadlines drawn from a small set so "
        "that ties, overdue deadlines and crossing deadlines are common. "
        "non-trivial = >=3 callbacks actually ran AND >=2 distinct mechanisms among {callback, "
        "timeout fired, removal before firing, logged exception, add_future callback, run_sync, "
        "nested scheduling} were exercised in the run; distinct = distinct scenario hash")
COMPONENTS = {
    "real": ["tornado.ioloop.IOLoop (add_timeout, call_later, call_at, spawn_callback, add_future, "
             "_run_callback, run_sync)",
             "tornado.platform.asyncio.BaseAsyncIOLoop/AsyncIOMainLoop (add_callback, call_at, "
             "remove_timeout, start, stop)",
             "tornado.gen.convert_yielded / gen.sleep", "asyncio.Future/Task/Handle/TimerHandle, "
             "BaseEventLoop.call_soon/call_later/call_soon_threadsafe/run_forever"],
    "stub": ["event loop iteration, poller and clock (sim.loop.SimLoop)", "time.time (skewed view of "
             "the virtual clock)"],
}
ASSUMPTIONS = [
    "single-threaded part only in mode 'single'; foreign-thread add_callback is checked by mode "
    "'threads' (props/_c38_threads.py) when present",
    "asyncio's own guarantees (call_soon FIFO, timers never early on loop.time(), a Handle runs at "
    "most once) are the trusted base and are not perturbed",
    "'in deadline order' is required only between timeouts whose effective deadlines differ "
    "(effective = max(deadline, IOLoop.time() when scheduled)); equal effective deadlines may run "
    "in any order",
    "CancelledError coming out of a future returned by a callback is not required to be logged "
    "(documented behaviour since 6.0); it must still not stop the loop",
    "skew between IOLoop.time() and the loop clock is constant within a run (the property is "
    "stated on the loop's clock)",
]

# ---------------------------------------------------------------------------
# EXTENSION POINT: mode "threads".
# props/_c38_threads.py (built on sim/threads.py) may provide
#     ENABLED = True
#     SHARE   = fraction of seeds to spend on thread scenarios (0..1)
#     gen(rng, tier, index) -> scenario with scenario["mode"] == "threads"
#     run(scn, full_log=False) -> result dict (same protocol as run() below)
#     validate(scn) -> bool                      (optional)
# It can reuse Recorder / check_history() from this module for the per-thread
# FIFO and exactly-once clauses.  Nothing else here needs to change.
try:  # pragma: no cover - optional
    from props import _c38_threads as _threads
    if not getattr(_threads, "ENABLED", False):
        _threads = None
except ImportError:
    _threads = None

DELAYS = [0, 0, 1, 1, 2, 3, 4, 5, 8, 16, 16, 32, 48]
OVERDUE = [-1, -2, -16, -1000, -4000000]
ENDS = ["ok", "ok", "ok", "ok", "raise", "raise", "value", "value", "fut_ok", "fut_fail",
        "fut_late_fail", "coro_ok", "coro_raise", "coro_sleep_raise", "fut_cancelled", "gen_bad_yield"]
# Base classes of the exceptions callbacks raise / store in the futures they return (body["x"]).
# Every instance is of a per-callback subclass, so log records can be matched by type name.
# Only Exception subclasses: the statement's "exceptions ... are logged" does not extend to
# KeyboardInterrupt/SystemExit/CancelledError (BaseException), which are meant to propagate.
# StopIteration cannot be stored in a future or raised out of a coroutine (PEP 479): raise-only.
EXC_BASES = ["Exception", "BadYieldError", "InvalidStateError", "KeyError", "Return", "TimeoutError",
             "OSError", "StopIteration"]
# What a callback may return that is neither None nor yieldable (body["v"]): all of these are
# ignored silently by the unchanged tree (convert_yielded raises BadYieldError, also for a list or
# dict with a non-yieldable member); an empty list / dict is yieldable and resolves at once.
VALUES = ["int", "str", "tuple", "list_of_int", "dict_of_int", "empty_list", "empty_dict", "object"]
FUT_KINDS = ["pending", "pending", "done", "done", "failed", "cdone", "cpending"]
SYNC_KINDS = ["none", "coro", "coro", "coro", "coro_raise", "raise_sync", "future", "task"]


# ---------------------------------------------------------------------------
# generator


class _Ctx:
    def __init__(self):
        self.next_id = 1
        self.timeouts = []
        self.pending = []
        self.count = 0

    def new_id(self):
        i = self.next_id
        self.next_id += 1
        return i


def _gen_body(rng, ctx, depth, w, budget):
    body = {}
    if rng.random() < w["busy"]:
        # a slow callback: the loop clock moves while it runs (before it schedules anything), so
        # timeouts become due while they are still in the timer heap
        body["busy"] = rng.choice([1, 1, 2, 3, 5, 8, 17, 40])
    if depth < 3 and budget[0] > 0 and rng.random() < w["nest"]:
        body["do"] = _gen_ops(rng, ctx, depth + 1, w, budget, rng.randint(1, 3))
    end = rng.choice(ENDS) if rng.random() < w["bad"] else "ok"
    if end != "ok":
        body["end"] = end
        if end in ("raise", "fut_fail", "fut_late_fail", "coro_raise", "coro_sleep_raise") \
                and rng.random() < 0.6:
            body["x"] = rng.randrange(1, len(EXC_BASES))
        if end == "value":
            body["v"] = rng.randrange(len(VALUES))
        if end in ("fut_late_fail", "coro_sleep_raise"):
            body["k"] = rng.choice([1, 2, 5])
    return body


def _gen_timeout(rng, ctx, depth, w, budget, d=None):
    form = rng.choice(["abs", "abs", "td", "later", "later", "at"])
    if d is None:
        if rng.random() < w["overdue"]:
            d = rng.choice(OVERDUE)
        elif rng.random() < 0.03:
            d = rng.choice([3600 * 1024, 86400 * 1024 + 16])
        else:
            d = rng.choice(DELAYS)
    if form == "td":
        d = (d // 16) * 16 if rng.random() < 0.5 else rng.choice([0, 16, 16, 32, -16])
    op = {"op": "to", "id": ctx.new_id(), "form": form, "d": d}
    ctx.timeouts.append(op["id"])
    op["body"] = _gen_body(rng, ctx, depth, w, budget)
    return op


def _gen_ops(rng, ctx, depth, w, budget, n):
    ops = []
    for _ in range(n):
        if budget[0] <= 0:
            break
        budget[0] -= 1
        k = rng.random()
        if depth == 0 and k < w["sleep"]:
            if rng.random() < 0.25:
                ops.append({"op": "idle"})
            else:
                ops.append({"op": "sleep", "d": rng.choice([1, 1, 2, 3, 5, 8, 16, 40])})
            continue
        if ctx.pending and rng.random() < 0.25:
            t = ctx.pending.pop(rng.randrange(len(ctx.pending)))
            ops.append({"op": "res", "t": t, "exc": rng.random() < 0.3})
            continue
        k = rng.random()
        if k < w["cb"]:
            op = {"op": "cb", "id": ctx.new_id(), "via": "spawn" if rng.random() < 0.25 else "add"}
            op["body"] = _gen_body(rng, ctx, depth, w, budget)
            ops.append(op)
        elif k < w["cb"] + w["to"]:
            if rng.random() < w["overtake"]:
                # timeout A is pending; a slow callback lets the clock pass A's deadline and then
                # schedules timeout B whose deadline has passed too (A is due, not yet dispatched)
                d = rng.choice([0, 1, 2, 5])
                a = _gen_timeout(rng, ctx, depth, w, budget, d)
                b = _gen_timeout(rng, ctx, depth + 1, w, budget,
                                 rng.choice([0, 0, -1, -2, -(d + 1)]))
                if b["form"] == "td":
                    b["d"] = rng.choice([0, -16])
                c = {"op": "cb", "id": ctx.new_id(), "via": "add",
                     "body": {"busy": d + rng.choice([1, 1, 2, 5]), "do": [b]}}
                ops.append(a)
                if rng.random() < 0.3:
                    ops.append(_gen_timeout(rng, ctx, depth, w, budget, d + 1))
                ops.append(c)
            elif rng.random() < w["pair"]:
                # two timeouts due in the same iteration; the first removes the second
                # (or the second removes the already-fired first)
                d = rng.choice([0, 1, 2, 5, 16])
                a = _gen_timeout(rng, ctx, depth, w, budget, d)
                b = _gen_timeout(rng, ctx, depth, w, budget, d + rng.choice([0, 0, 1]))
                if rng.random() < 0.7:
                    a["body"].setdefault("do", []).append({"op": "rm", "t": b["id"]})
                else:
                    b["body"].setdefault("do", []).append({"op": "rm", "t": a["id"]})
                ops.append(a)
                ops.append(b)
            else:
                ops.append(_gen_timeout(rng, ctx, depth, w, budget))
        elif k < w["cb"] + w["to"] + w["rm"]:
            if ctx.timeouts:
                t = rng.choice(ctx.timeouts[-6:]) if rng.random() < 0.8 else rng.choice(ctx.timeouts)
                ops.append({"op": "rm", "t": t})
                if rng.random() < 0.15:
                    ops.append({"op": "rm", "t": t})
            else:
                ops.append(_gen_timeout(rng, ctx, depth, w, budget))
        elif k < w["cb"] + w["to"] + w["rm"] + w["fut"]:
            kind = rng.choice(FUT_KINDS)
            op = {"op": "fut", "id": ctx.new_id(), "kind": kind}
            op["body"] = _gen_body(rng, ctx, depth, w, budget)
            ops.append(op)
            if kind in ("pending", "cpending"):
                if rng.random() < 0.4:
                    # resolved right away: completion and add_future in the same iteration
                    ops.append({"op": "res", "t": op["id"], "exc": rng.random() < 0.3})
                else:
                    ctx.pending.append(op["id"])
        else:
            if ctx.pending:
                t = ctx.pending.pop(rng.randrange(len(ctx.pending)))
                ops.append({"op": "res", "t": t, "exc": rng.random() < 0.3})
            else:
                op = {"op": "cb", "id": ctx.new_id(), "via": "add"}
                op["body"] = _gen_body(rng, ctx, depth, w, budget)
                ops.append(op)
    return ops


def gen(rng, tier, index):
    if _threads is not None and rng.random() < getattr(_threads, "SHARE", 0.3):
        return _threads.gen(rng, tier, index)
    thorough = tier == "thorough"
    ctx = _Ctx()
    w = {
        "sleep": rng.choice([0.1, 0.25, 0.4]),
        "cb": rng.choice([0.2, 0.35, 0.5]),
        "to": rng.choice([0.2, 0.35, 0.5]),
        "rm": rng.choice([0.05, 0.12, 0.2]),
        "fut": rng.choice([0.05, 0.12, 0.2]),
        "nest": rng.choice([0.15, 0.35, 0.6]),
        "bad": rng.choice([0.1, 0.3, 0.6]),
        "overdue": rng.choice([0.0, 0.1, 0.35]),
        "pair": rng.choice([0.05, 0.2]),
        "busy": rng.choice([0.0, 0.1, 0.3]),
        "overtake": rng.choice([0.0, 0.05, 0.15]),
    }
    tot = w["cb"] + w["to"] + w["rm"] + w["fut"] + 0.08
    for k in ("cb", "to", "rm", "fut"):
        w[k] /= tot
    nmax = 90 if thorough else 16
    budget = [rng.randint(2, nmax)]
    has_prog = rng.random() < 0.85
    ops = _gen_ops(rng, ctx, 0, w, budget, rng.randint(1, nmax)) if has_prog else []
    sync = []
    if not has_prog or rng.random() < 0.45:
        for _ in range(rng.randint(1, 6 if thorough else 3)):
            kind = rng.choice(SYNC_KINDS)
            spec = {"kind": kind, "id": ctx.new_id()}
            if kind in ("coro", "coro_raise", "task"):
                spec["sleeps"] = [rng.choice([0, 1, 2, 3, 5, 8]) for _ in range(rng.randint(0, 3))]
                spec["gs"] = rng.random() < 0.3  # gen.sleep instead of asyncio.sleep
            elif kind == "future":
                spec["sleeps"] = [rng.choice([1, 2, 5, 9])]
                spec["exc"] = rng.random() < 0.3
            f = sum(spec.get("sleeps", ()))
            r = rng.random()
            if r < 0.5:
                # around the function's own duration, on either side (never equal)
                spec["timeout"] = rng.choice([max(0, f - 1), max(0, f - 3), f + 1, f + 2, f // 2, 2 * f + 1, 0])
                if spec["timeout"] == f:
                    spec["timeout"] = f + 1
            elif r < 0.6:
                spec["timeout"] = 4096
            sb = [rng.randint(0, 3)]
            if rng.random() < 0.4:
                spec["do"] = _gen_ops(rng, ctx, 1, w, sb, 2)
            if rng.random() < 0.2:
                spec["pre"] = _gen_ops(rng, ctx, 1, w, sb, 2)
            sync.append(spec)
    tapes = {}
    if rng.random() < 0.35:
        tapes["late"] = [rng.choice([0, 0, 1, 2, 7, 30]) for _ in range(rng.randint(1, 10))]
    if rng.random() < 0.3:
        tapes["cost"] = {"v": [rng.choice([0, 0, 0, 1, 1, 3]) for _ in range(rng.randint(1, 10))],
                         "cycle": rng.random() < 0.5}
    skew = 0
    r = rng.random()
    if r < 0.25:
        skew = rng.choice([1, 7, 1024, 3600 * 1024, 10 ** 9])
    elif r < 0.5:
        skew = -rng.choice([1, 7, 1024, 3600 * 1024, 10 ** 9])
    return {"property": ID, "version": 1, "mode": "single", "skew": skew,
            "ops": ops, "sync": sync, "tapes": tapes}


# ---------------------------------------------------------------------------
# validation (the shrinker mutilates scenarios)


def _walk(ops, out):
    if not isinstance(ops, list):
        raise ValueError
    for op in ops:
        if not isinstance(op, dict):
            raise ValueError
        k = op.get("op")
        if k in ("cb", "to", "fut"):
            if not isinstance(op.get("id"), int):
                raise ValueError
            out.append(op["id"])
            body = op.get("body", {})
            if not isinstance(body, dict):
                raise ValueError
            _walk(body.get("do", []), out)
            if not isinstance(body.get("x", 0), int) or not isinstance(body.get("v", 0), int) \
                    or body.get("x", 0) < 0 or body.get("v", 0) < 0:
                raise ValueError
            if not isinstance(body.get("busy", 0), int) or not 0 <= body.get("busy", 0) <= 4096:
                raise ValueError
            if k == "to" and not isinstance(op.get("d", 0), int):
                raise ValueError
        elif k in ("rm", "res"):
            if not isinstance(op.get("t"), int):
                raise ValueError
        elif k == "sleep":
            if not isinstance(op.get("d", 0), int) or op.get("d", 0) < 0:
                raise ValueError
        elif k != "idle":
            raise ValueError


def validate(scn):
    if scn.get("mode", "single") != "single":
        v = getattr(_threads, "validate", None) if _threads is not None else None
        return v(scn) if v is not None else _threads is not None
    try:
        ids = []
        _walk(scn.get("ops", []), ids)
        for s in scn.get("sync", []):
            if not isinstance(s, dict) or not isinstance(s.get("id"), int):
                return False
            ids.append(s["id"])
            _walk(s.get("do", []), ids)
            _walk(s.get("pre", []), ids)
            if not all(isinstance(x, int) and x >= 0 for x in s.get("sleeps", [])):
                return False
            t = s.get("timeout")
            if t is not None and (not isinstance(t, int) or t < 0):
                return False
        return len(ids) == len(set(ids)) and isinstance(scn.get("skew", 0), int)
    except (ValueError, TypeError, AttributeError):
        return False


def simplify(scn):
    """Extra shrink candidates: drop empty tapes so equal cases get equal replay files."""
    if scn.get("mode", "single") != "single":
        return
    t = scn.get("tapes") or {}
    t2 = {k: v for k, v in t.items() if (v.get("v") if isinstance(v, dict) else v)}
    if t2 != t:
        c = dict(scn)
        c["tapes"] = t2
        yield c


# ---------------------------------------------------------------------------
# recording and the history oracle (shared with the thread mode)

_EXC = {}


def _exc_base(x, raise_only_ok):
    from tornado import gen
    name = EXC_BASES[x % len(EXC_BASES)] if isinstance(x, int) else "Exception"
    if name == "StopIteration":
        return StopIteration if raise_only_ok else Exception
    return {"Exception": Exception, "BadYieldError": gen.BadYieldError,
            "InvalidStateError": asyncio.InvalidStateError, "KeyError": KeyError,
            "Return": gen.Return, "TimeoutError": asyncio.TimeoutError, "OSError": OSError}[name]


def exc_class(prefix, ident, x=0, raise_only_ok=False):
    base = _exc_base(x, raise_only_ok)
    key = (prefix, ident, base.__name__)
    c = _EXC.get(key)
    if c is None:
        c = _EXC[key] = type("%s%d" % (prefix, ident), (base,), {})
    return c


class Recorder:
    """What was scheduled and what ran.  Plain data only."""

    def __init__(self, env):
        self.env = env
        self.loop = env.loop
        self.sched_seq = 0
        self.run_seq = 0
        self.cbs = {}      # id -> {"seq", "thread"}           add_callback / spawn_callback
        self.tos = {}      # id -> {"deadline", "eff", "wall", "removed_before", "removes"}
        self.futs = {}     # id -> {"kind", "done_iter", "fut"}
        self.runs = {}     # id -> [(run_seq, iteration, wall, arg_ok)]
        self.order = []    # ids in run order
        self.expected_errors = []  # exception class names that must be logged
        self.optional_errors = []
        self.handles = {}
        self.mech = set()

    def note_run(self, ident, arg_ok=True):
        self.run_seq += 1
        loop = self.loop
        rec = (self.run_seq, loop.iterations, loop.wall(), arg_ok)
        self.runs.setdefault(ident, []).append(rec)
        self.order.append(ident)
        self.env.log.ev("run", ident, rec[0], rec[1], rec[2])
        return len(self.runs[ident]) == 1


def check_history(rec, bad, probe):
    """Exactly-once, FIFO, timeout and add_future clauses over a Recorder."""
    runs = rec.runs
    # -- callbacks: exactly once, FIFO per scheduling thread
    per_thread = {}
    for ident, c in rec.cbs.items():
        n = len(runs.get(ident, ()))
        if n == 0:
            bad("once.callback_lost", f"callback {ident} scheduled with add_callback never ran")
        elif n > 1:
            bad("once.callback_duplicated", f"callback {ident} ran {n} times")
        else:
            per_thread.setdefault(c["thread"], []).append((c["seq"], runs[ident][0][0], ident))
    for th in sorted(per_thread):
        lst = sorted(per_thread[th])
        for a, b in zip(lst, lst[1:]):
            if a[1] > b[1]:
                bad("fifo.order", f"callback {a[2]} was scheduled before {b[2]} by the same thread "
                                  f"but ran after it")
                break
    # -- timeouts
    fired = []
    for ident, t in rec.tos.items():
        rr = runs.get(ident, ())
        n = len(rr)
        if t["removed_before"]:
            if n:
                bad("timeout.ran_after_remove",
                    f"timeout {ident} ran (run #{rr[0][0]}) although remove_timeout was called "
                    f"before it fired", "timeout.ran_after_remove/" + t["rm_where"])
            continue
        if n == 0:
            bad("once.timeout_lost", f"timeout {ident} (deadline {t['deadline']!r}) never ran")
            continue
        if n > 1:
            bad("once.timeout_duplicated", f"timeout {ident} ran {n} times")
        if rr[0][2] < t["deadline"]:
            bad("timeout.early", f"timeout {ident} ran at IOLoop.time()={rr[0][2]!r}, "
                                 f"{t['deadline'] - rr[0][2]!r}s before its deadline (form {t['form']})",
                "timeout.early/" + t["form"])
        fired.append((rr[0][0], t["eff"], ident))
    fired.sort()
    seen_eff = set()
    for a, b in zip(fired, fired[1:]):
        if a[1] > b[1]:
            ta, tb = rec.tos[a[2]], rec.tos[b[2]]
            bad("timeout.order", f"timeout {a[2]} (effective deadline {a[1]!r}, form {ta['form']}) ran "
                                 f"before timeout {b[2]} (effective deadline {b[1]!r}, form {tb['form']})")
            break
    for f in fired:
        if f[1] in seen_eff:
            probe("timer_tie")
        seen_eff.add(f[1])
    # -- add_future
    for ident, f in rec.futs.items():
        rr = runs.get(ident, ())
        if f["done_iter"] is None:
            if rr:
                bad("add_future.ran_before_completion", f"add_future callback {ident} ran although "
                                                        f"its future never completed")
            continue
        if not rr:
            bad("once.future_callback_lost", f"add_future callback {ident} never ran "
                                             f"(future kind {f['kind']})",
                "once.future_callback_lost/" + f["kind"])
            continue
        if len(rr) > 1:
            bad("once.future_callback_duplicated", f"add_future callback {ident} ran {len(rr)} times")
        if not rr[0][3]:
            bad("add_future.wrong_argument", f"add_future callback {ident} was not passed its future")
        if rr[0][1] <= f["done_iter"]:
            bad("add_future.same_iteration",
                f"add_future callback {ident} ({f['kind']}) ran in loop iteration {rr[0][1]}, the "
                f"future was complete in iteration {f['done_iter']}: not a later iteration",
                "add_future.same_iteration/" + f["kind"])


# ---------------------------------------------------------------------------
# the run


def run(scn, full_log=False):
    mode = scn.get("mode", "single")
    if mode == "single":
        return _run_single(scn, full_log)
    if mode == "threads":  # EXTENSION POINT (see top of file)
        if _threads is None:
            raise RuntimeError("C38 mode 'threads' needs props/_c38_threads.py")
        return _threads.run(scn, full_log)
    raise ValueError("unknown C38 mode %r" % (mode,))


def _run_single(scn, full_log=False):
    from tornado.ioloop import IOLoop
    from tornado.concurrent import Future
    from tornado import gen
    import tornado.util

    viol = []
    probes = {}

    def bad(rule, msg, key=None):
        viol.append({"rule": rule, "key": key or rule, "msg": msg})

    def probe(name, n=1):
        probes[name] = probes.get(name, 0) + n

    outcome = []
    # max_time: bounded liveness.  No generated deadline is further than ~1 day away; a run whose
    # virtual clock passes 2**30 s (34 years) has lost a timeout.  (Also keeps the virtual clock
    # below 2**33 s where SimLoop's 2**-20 clock resolution drops under one ulp.)
    with SimEnv(scn.get("tapes"), max_iters=20_000, max_time=2.0 ** 30, full_log=full_log) as env:
        loop = env.loop
        loop.skew = scn.get("skew", 0) * UNIT
        rec = Recorder(env)
        box = {"io": None, "inside": 0}
        ebase = {}  # expected exception type name -> name of its base class

        # ---- scheduling operations ------------------------------------
        def finish(ident, body):
            end = body.get("end", "ok")
            x = body.get("x", 0)
            if end == "ok":
                return None
            if end == "raise":
                c = exc_class("Boom", ident, x, True)
                rec.expected_errors.append(c.__name__)
                ebase[c.__name__] = c.__mro__[1].__name__
                probe("raised_" + c.__mro__[1].__name__)
                raise c("callback %d" % ident)
            if end == "value":
                probe("returned_non_yieldable")
                v = VALUES[body.get("v", 0) % len(VALUES)]
                return {"int": 42, "str": "text", "tuple": (1, 2), "list_of_int": [1, 2],
                        "dict_of_int": {"a": 1}, "empty_list": [], "empty_dict": {},
                        "object": box}[v]
            if end == "gen_bad_yield":
                # a decorated coroutine that yields something unyieldable: its future fails
                # with a plain tornado.gen.BadYieldError
                rec.expected_errors.append("BadYieldError")
                ebase["BadYieldError"] = "BadYieldError"
                probe("future_failed_BadYieldError")

                @gen.coroutine
                def bad_yield():
                    yield 42
                return bad_yield()
            if end == "fut_ok":
                f = Future(loop=loop)
                f.set_result(1)
                return f
            if end == "fut_fail":
                c = exc_class("FBoom", ident, x)
                rec.expected_errors.append(c.__name__)
                ebase[c.__name__] = c.__mro__[1].__name__
                probe("future_failed_" + c.__mro__[1].__name__)
                f = Future(loop=loop)
                f.set_exception(c("future of %d" % ident))
                return f
            if end == "fut_late_fail":
                c = exc_class("FBoom", ident, x)
                rec.expected_errors.append(c.__name__)
                ebase[c.__name__] = c.__mro__[1].__name__
                probe("future_failed_" + c.__mro__[1].__name__)
                f = Future(loop=loop)
                loop.call_later(body.get("k", 1) * UNIT, f.set_exception, c("late future of %d" % ident))
                return f
            if end == "fut_cancelled":
                f = Future(loop=loop)
                f.cancel()
                probe("returned_cancelled_future")
                return f
            if end == "coro_ok":
                async def co_ok():
                    return 5
                return co_ok()
            if end == "coro_raise":
                c = exc_class("FBoom", ident, x)
                rec.expected_errors.append(c.__name__)
                ebase[c.__name__] = c.__mro__[1].__name__
                probe("future_failed_" + c.__mro__[1].__name__)

                async def co_raise():
                    raise c("coroutine of %d" % ident)
                return co_raise()
            if end == "coro_sleep_raise":
                c = exc_class("FBoom", ident, x)
                rec.expected_errors.append(c.__name__)
                ebase[c.__name__] = c.__mro__[1].__name__
                probe("future_failed_" + c.__mro__[1].__name__)
                k = body.get("k", 1)

                async def co_sleep_raise():
                    await asyncio.sleep(k * UNIT)
                    raise c("coroutine of %d" % ident)
                return co_sleep_raise()
            return None

        def make_cb(ident, body, fut=None):
            def cb(*args):
                arg_ok = True
                if fut is not None:
                    arg_ok = len(args) == 1 and args[0] is fut
                first = rec.note_run(ident, arg_ok)
                outside = asyncio._get_running_loop() is not loop
                if body.get("busy"):
                    loop._now += body["busy"] * UNIT
                    probe("callback_ran_long")
                if outside:
                    # Every IOLoop callback runs from the running loop.  A callback invoked
                    # synchronously by the scheduling call while the loop is stopped would make
                    # Tornado (convert_yielded -> ensure_future) ask asyncio for "the" event loop,
                    # i.e. create a real selector loop: report it and return nothing awaitable.
                    bad("callback.ran_outside_loop",
                        f"callback {ident} ({'add_future' if fut is not None else 'callback/timeout'})"
                        f" was executed while the IOLoop was not running (inline in the call that "
                        f"scheduled it)",
                        "callback.ran_outside_loop/" + ("add_future" if fut is not None else "other"))
                box["inside"] += 1
                try:
                    if first and body.get("do"):
                        rec.mech.add("nested")
                        exec_ops(body["do"], ident)
                finally:
                    box["inside"] -= 1
                if outside and body.get("end", "ok") != "raise":
                    return None
                return finish(ident, body)
            return cb

        def exec_ops(ops, inside=None):
            io = box["io"]
            for op in ops:
                k = op["op"]
                if k == "cb":
                    ident = op["id"]
                    if ident in rec.cbs or ident in rec.tos or ident in rec.futs:
                        continue  # only reachable when a callback body ran twice
                    rec.sched_seq += 1
                    rec.cbs[ident] = {"seq": rec.sched_seq, "thread": 0}
                    fn = make_cb(ident, op.get("body", {}))
                    if op.get("via") == "spawn":
                        io.spawn_callback(fn)
                    else:
                        io.add_callback(fn)
                elif k == "to":
                    ident = op["id"]
                    if ident in rec.cbs or ident in rec.tos or ident in rec.futs:
                        continue
                    d = op.get("d", 0)
                    form = op.get("form", "abs")
                    now = loop.wall()
                    fn = make_cb(ident, op.get("body", {}))
                    if form == "td":
                        d = (d // 16) * 16
                        deadline = now + d * UNIT
                        h = io.add_timeout(datetime.timedelta(microseconds=15625 * (d // 16)), fn)
                    elif form == "later":
                        deadline = now + d * UNIT
                        h = io.call_later(d * UNIT, fn)
                    elif form == "at":
                        deadline = now + d * UNIT
                        h = io.call_at(deadline, fn)
                    else:
                        deadline = now + d * UNIT
                        h = io.add_timeout(deadline, fn)
                    rec.handles[ident] = h
                    rec.tos[ident] = {"deadline": deadline, "eff": max(deadline, now), "wall": now,
                                      "form": form, "removed_before": False, "removes": 0,
                                      "rm_where": None}
                    if deadline < now:
                        probe("overdue_deadline")
                    if deadline <= now:
                        for oid, o in rec.tos.items():
                            if (oid != ident and o["eff"] < now and not o["removed_before"]
                                    and not rec.runs.get(oid)):
                                # an earlier timeout is due but still waiting in the timer heap
                                probe("overdue_scheduled_while_earlier_timeout_due")
                                break
                    env.log.ev("to", ident, form, deadline)
                elif k == "rm":
                    t = rec.tos.get(op["t"])
                    if t is None:
                        probe("remove_unknown_skipped")
                        continue
                    ran = bool(rec.runs.get(op["t"]))
                    t["removes"] += 1
                    if t["removes"] > 1:
                        probe("remove_twice")
                    if ran:
                        probe("remove_after_fire")
                        if inside == op["t"]:
                            probe("remove_self_while_running")
                    elif not t["removed_before"]:
                        t["removed_before"] = True
                        rec.mech.add("remove")
                        due = t["eff"] <= loop.wall()
                        t["rm_where"] = ("due" if due else "pending")
                        probe("remove_before_fire")
                        if due:
                            probe("remove_when_already_due")
                        if inside is not None:
                            probe("remove_from_callback")
                    env.log.ev("rm", op["t"], ran)
                    io.remove_timeout(rec.handles[op["t"]])
                elif k == "fut":
                    ident = op["id"]
                    if ident in rec.cbs or ident in rec.tos or ident in rec.futs:
                        continue
                    kind = op.get("kind", "pending")
                    conc = kind in ("cdone", "cpending")
                    f = concurrent.futures.Future() if conc else Future(loop=loop)
                    done_iter = None
                    if kind in ("done", "cdone"):
                        f.set_result(ident)
                    elif kind == "failed":
                        f.set_exception(exc_class("Quiet", ident)("never logged: retrieved by nobody"))
                    if f.done():
                        done_iter = loop.iterations
                        probe("add_future_already_done")
                    rec.futs[ident] = {"kind": kind, "done_iter": done_iter, "fut": f}
                    io.add_future(f, make_cb(ident, op.get("body", {}), fut=f))
                elif k == "res":
                    fr = rec.futs.get(op["t"])
                    if fr is None or fr["fut"].done():
                        probe("resolve_skipped")
                        continue
                    fr["done_iter"] = loop.iterations
                    probe("add_future_resolved_later")
                    if op.get("exc"):
                        fr["fut"].set_exception(exc_class("Quiet", op["t"])("x"))
                    else:
                        fr["fut"].set_result(op["t"])
                # sleep / idle are top-level only and handled by main()

        async def main():
            box["io"] = IOLoop.current()
            for op in scn.get("ops", ()):
                k = op["op"]
                if k == "sleep":
                    await asyncio.sleep(op.get("d", 0) * UNIT)
                elif k == "idle":
                    await loop.idle()
                else:
                    exec_ops([op])
            return True

        status = env.run(main())
        if status != "done":
            if status in ("hang", "step_cap", "time_cap"):
                bad("loop." + status, f"program phase ended with {status} after {loop.iterations} "
                                      f"iterations")
            else:
                bad("harness.main_raised", f"{status}: {getattr(env, 'main_exception', None)!r}")
        io = box["io"]

        # ---- run_sync phase (loop not running here, see module docstring) ----
        sync_specs = scn.get("sync", ()) if io is not None and status == "done" else ()
        at_timeout = False   # a stop() callback of an earlier run_sync is still queued (see below)
        stopped_early = False
        stops = [0]
        if sync_specs:
            real_stop = io.stop

            def counting_stop():
                stops[0] += 1
                return real_stop()
            io.stop = counting_stop

        def sbad(rule, msg, key=None):
            # once a stale stop() is known to be queued every later run_sync of this run can be
            # cut short by it: one rule name for the whole family (findings/C38-run_sync-stale-stop)
            if at_timeout:
                bad("run_sync.stale_stop", msg + f" [a stop() left over from an earlier run_sync was "
                                                 f"pending; clause {rule}]")
            else:
                bad(rule, msg, key)
        for spec in sync_specs:
            kind = spec.get("kind", "none")
            sid = spec["id"]
            sleeps = spec.get("sleeps", [])
            timeout = spec.get("timeout")
            F = sum(sleeps)
            st = {"started": False, "cancel_seen": None, "finished": None, "fut": None}
            SB = exc_class("SyncBoom", sid)
            rec.mech.add("run_sync")

            async def co(spec=spec, st=st, kind=kind, sleeps=sleeps, SB=SB, sid=sid):
                st["started"] = True
                try:
                    if spec.get("do"):
                        exec_ops(spec["do"], None)
                    for s in sleeps:
                        if spec.get("gs"):
                            await gen.sleep(s * UNIT)
                        else:
                            await asyncio.sleep(s * UNIT)
                except asyncio.CancelledError:
                    st["cancel_seen"] = loop.wall()
                    env.log.ev("sync_cancel_seen", sid, loop.wall())
                    raise
                st["finished"] = loop.wall()
                if kind == "coro_raise":
                    raise SB("run_sync %d" % sid)
                return sid * 10 + 1

            if kind in ("coro", "coro_raise"):
                func = co
                expect = ("exc", SB.__name__) if kind == "coro_raise" else ("ret", sid * 10 + 1)
            elif kind == "task":
                def func(co=co, st=st):
                    st["fut"] = asyncio.ensure_future(co())
                    return st["fut"]
                expect = ("ret", sid * 10 + 1)
            elif kind == "future":
                def func(spec=spec, st=st, F=F, SB=SB, sid=sid):
                    st["started"] = True
                    if spec.get("do"):
                        exec_ops(spec["do"], None)
                    f = st["fut"] = Future(loop=loop)

                    def settle():
                        if f.done():
                            return
                        st["finished"] = loop.wall()
                        if spec.get("exc"):
                            f.set_exception(SB("run_sync future %d" % sid))
                        else:
                            f.set_result(sid * 10 + 2)
                    io.call_later(F * UNIT, settle)
                    return f
                expect = ("exc", SB.__name__) if spec.get("exc") else ("ret", sid * 10 + 2)
            elif kind == "raise_sync":
                def func(spec=spec, st=st, SB=SB, sid=sid):
                    st["started"] = True
                    if spec.get("do"):
                        exec_ops(spec["do"], None)
                    raise SB("run_sync sync %d" % sid)
                expect = ("exc", SB.__name__)
            else:
                def func(spec=spec, st=st):
                    st["started"] = True
                    if spec.get("do"):
                        exec_ops(spec["do"], None)
                    return None
                expect = ("ret", None)

            if spec.get("pre"):
                probe("scheduled_while_loop_stopped")
                exec_ops(spec["pre"], None)
            start = loop.wall()
            stops[0] = 0
            it0 = loop.iterations
            env.log.ev("run_sync", sid, kind, timeout)
            try:
                if timeout is None:
                    r = io.run_sync(func)
                else:
                    r = io.run_sync(func, timeout=timeout * UNIT)
                got = ("ret", r)
            except tornado.util.TimeoutError:
                got = ("timeout", None)
            except Exception as e:  # noqa: BLE001 - classified below
                got = ("exc", type(e).__name__)
            end = loop.wall()
            env.log.ev("run_sync_done", sid, got[0], got[1] if got[0] != "ret" or got[1] is None
                       or isinstance(got[1], int) else "?", end)
            outcome.append((sid, kind, got[0]))
            if loop.step_capped or loop.time_capped:
                bad("loop.step_cap" if loop.step_capped else "loop.time_cap",
                    f"run_sync {sid} ({kind}) hit the {'step' if loop.step_capped else 'virtual time'} "
                    f"cap: result {got!r}")
                break
            if got[0] == "timeout":
                probe("run_sync_timeout")
                if timeout is None:
                    sbad("run_sync.spurious_timeout", f"run_sync {sid} ({kind}) raised TimeoutError "
                                                     f"without a timeout")
                else:
                    if end < start + timeout * UNIT:
                        sbad("run_sync.timeout_early",
                            f"run_sync {sid} raised TimeoutError {start + timeout * UNIT - end!r}s "
                            f"before the timeout expired")
                    if F < timeout:
                        probe("run_sync_timeout_by_lateness")
                    if kind in ("coro", "coro_raise", "task"):
                        if st["started"] and st["cancel_seen"] is None:
                            sbad("run_sync.timeout_without_cancel",
                                f"run_sync {sid} ({kind}) raised TimeoutError but the coroutine "
                                f"did not observe CancelledError "
                                f"(finished={st['finished'] is not None})",
                                "run_sync.timeout_without_cancel/" + kind)
                        elif not st["started"]:
                            probe("run_sync_cancel_before_first_step")
                        else:
                            probe("run_sync_cancel_observed")
                    elif kind == "future":
                        if st["fut"] is not None and not st["fut"].cancelled():
                            sbad("run_sync.timeout_without_cancel",
                                f"run_sync {sid} (future) raised TimeoutError but the future was "
                                f"not cancelled", "run_sync.timeout_without_cancel/future")
                    else:
                        sbad("run_sync.spurious_timeout", f"run_sync {sid} ({kind}) raised "
                            f"TimeoutError though the function completed synchronously")
            elif got == expect:
                probe("run_sync_" + ("raised" if got[0] == "exc" else "returned"))
                if timeout is not None and F > timeout:
                    sbad("run_sync.missed_timeout",
                        f"run_sync {sid} ({kind}) needs {F} units, timeout {timeout} units, but it "
                        f"completed with {got[0]} after {(end - start) / UNIT} units")
                if timeout is not None:
                    probe("run_sync_beat_timeout")
            elif got == ("exc", "RuntimeError"):
                # "Event loop stopped before Future completed."
                stopped_early = True
                # own rule name for the case findings/C38-run_sync-stale-stop so that the shrinker
                # cannot drift between it and any other cause of an early stop
                sbad("run_sync.loop_stopped_early",
                     f"run_sync {sid} ({kind}) raised RuntimeError instead of {expect!r}: the loop "
                     f"was stopped before the function's future completed")
            else:
                sbad("run_sync.wrong_result", f"run_sync {sid} ({kind}) gave {got!r}, expected "
                                             f"{expect!r}", "run_sync.wrong_result/" + kind)
            if got[0] != "timeout" and timeout is not None and end >= start + timeout * UNIT:
                probe("run_sync_completed_with_timeout_due")
                # The clock only moves at the start of an iteration, before due timers are
                # collected: the timeout callback ran in the last iteration.  If stop() was called
                # once, it was called by the timeout callback and the add_future callback that also
                # calls stop() is still queued: it will stop whatever runs the loop next.
                if stops[0] == 1 and not at_timeout:
                    probe("run_sync_left_stale_stop")
                    at_timeout = True
            if loop.iterations == it0:
                sbad("run_sync.did_not_run", f"run_sync {sid} did not run the loop")
        if sync_specs:
            # drain: whatever the run_sync functions left behind runs now.  A stop() left in the
            # queue (see finding C38-run_sync-stale-stop) ends run_forever early: re-enter.
            for _ in range(8):
                if loop.run_until_quiescent():
                    break
                if loop.step_capped or loop.time_capped:
                    bad("loop.step_cap" if loop.step_capped else "loop.time_cap",
                        "final drain hit the step / virtual time cap")
                    break
                probe("drain_reentered_after_stale_stop")

        # ---- history oracle -----------------------------------------------
        check_history(rec, bad, probe)
        # every run belongs to something scheduled
        for ident in rec.runs:
            if ident not in rec.cbs and ident not in rec.tos and ident not in rec.futs:
                bad("once.unknown_run", f"callback {ident} ran but was never scheduled")
        # exceptions: logged on tornado.application, nowhere else, loop survives
        from collections import Counter
        want = Counter(rec.expected_errors)
        got_c = Counter()
        for r in env.records:
            if r[1] not in ("ERROR", "CRITICAL"):
                continue
            if r[0] == "tornado.application":
                if r[3] == "CancelledError":
                    probe("cancelled_error_logged")
                    continue
                got_c[r[3]] += 1
            else:
                bad("error.logged_elsewhere", f"{r[0]} {r[1]}: {r[2][:90]} ({r[3]})",
                    "error.logged_elsewhere/" + r[0])
        for name in sorted(want):
            if got_c.get(name, 0) < want[name]:
                k = "callback" if name.startswith("Boom") else "future"
                bad("error.not_logged", f"exception {name} raised by a {k} was logged "
                                        f"{got_c.get(name, 0)} times on tornado.application, expected "
                                        f"{want[name]} (base class {ebase.get(name)})",
                    "error.not_logged/" + k + ("" if ebase.get(name, "Exception") == "Exception"
                                               else "/" + ebase[name]))
        for name in sorted(got_c):
            if got_c[name] > want.get(name, 0):
                bad("error.unexpected_log", f"tornado.application ERROR with {name} x{got_c[name]}, "
                                            f"expected x{want.get(name, 0)}")
        for m, e in env.loop_errors:
            if (stopped_early or at_timeout) and m and "never retrieved" in m:
                continue  # consequence of the early stop: nobody was left to await the task
            bad("error.escaped_to_asyncio", f"asyncio exception handler called: {m} ({e})")
        if want:
            rec.mech.add("exception")
            probe("exceptions_expected", sum(want.values()))
            # was a callback run after a raising one in the same iteration?
        nruns = len(rec.order)
        if rec.cbs:
            rec.mech.add("callback")
        if any(rec.runs.get(i) for i in rec.tos):
            rec.mech.add("timeout")
        if any(rec.runs.get(i) for i in rec.futs):
            rec.mech.add("add_future")
        st_ = env.stats()
        if st_.get("breaches"):
            # A real facility was reached (the guard raised inside the caller).  Nothing in this
            # module does that by itself: it is Tornado leaving the simulated loop, e.g. asking
            # asyncio for a new event loop because a callback ran outside the running one.  That
            # is a finding about the code under test, not a reason to abort the whole check.
            for w in sorted(set(st_["breaches"])):
                bad("seam.real_facility_reached",
                    f"code under test reached the real {w} during the run (a real event loop or "
                    f"socket was being created outside the simulated loop)",
                    "seam.real_facility_reached/" + w)
            st_["breaches"] = []
        st_["probes"].update(probes)
        st_["probes"]["callbacks_run"] = nruns
        if loop.skew:
            st_["probes"]["nonzero_skew"] = 1
        nontrivial = nruns >= 3 and len(rec.mech) >= 2
        return {"violations": viol, "nontrivial": nontrivial, "stats": st_,
                "log_head": env.log.head, "log_full": env.log.full,
                "outcome": {"status": status, "runs": nruns, "sync": outcome,
                            "mech": sorted(rec.mech)}}
