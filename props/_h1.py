"""Shared pieces of the HTTP/1 server properties C01 and C04 (author: h1).

* four application variants behind httprig.RecordingApp,
* one simulated connection: deliver a byte stream under one segmentation,
  collect what the application delegate was told and what the peer read,
* a response splitter for the peer side,
* the differential judge: reference reader result vs observation.
"""

import asyncio
import hashlib
import signal

from sim.env import SimEnv, UNIT
from props import httprig

METHODS = ("GET", "POST", "PUT", "HEAD", "DELETE", "OPTIONS", "PATCH", "M-SEARCH", "X!")
APP_NAMES = ("callable", "web_buffered", "web_streaming", "raw_delegate")


def echo(method, body):
    return "%s %d %s" % (method, len(body), hashlib.sha1(body).hexdigest()[:12])


# ---------------------------------------------------------------------------
# application variants (built lazily: tornado must be imported from VERIF_REPO)

_apps = {}


def _build_apps():
    from tornado import httputil, web

    def respond(conn, method, body):
        payload = echo(method, body).encode("latin1")
        h = httputil.HTTPHeaders()
        h["Content-Length"] = str(len(payload))
        h["X-Echo"] = payload.decode("latin1")
        conn.write_headers(httputil.ResponseStartLine("HTTP/1.1", 200, "OK"), h,
                           None if method == "HEAD" else payload)
        conn.finish()

    def callable_app(request):
        respond(request.connection, request.method, request.body)

    class RawMsg(httputil.HTTPMessageDelegate):
        def __init__(self, conn):
            self.conn = conn
            self.chunks = []
            self.request = None

        def headers_received(self, start_line, headers):
            self.request = httputil.HTTPServerRequest(
                connection=self.conn, start_line=start_line, headers=headers)
            lim = headers.get("X-Limit")
            if lim is not None and lim.isdigit():
                self.conn.set_max_body_size(int(lim))

        def data_received(self, chunk):
            self.chunks.append(chunk)

        def finish(self):
            respond(self.conn, self.request.method, b"".join(self.chunks))

        def on_connection_close(self):
            self.chunks = None

    class RawApp(httputil.HTTPServerConnectionDelegate):
        def start_request(self, server_conn, request_conn):
            return RawMsg(request_conn)

    class _AnyMethod:
        def __contains__(self, m):
            return True

    class _AnyMixin:
        SUPPORTED_METHODS = _AnyMethod()

        def __getattr__(self, name):
            # only reached when normal lookup fails: serve whatever token the request line had
            req = self.__dict__.get("request")
            if req is not None and name == req.method.lower():
                return self._do
            raise AttributeError(name)

    class Buffered(_AnyMixin, web.RequestHandler):

        def _do(self):
            payload = echo(self.request.method, self.request.body)
            self.set_header("X-Echo", payload)
            self.write(payload)

    @web.stream_request_body
    class Streaming(_AnyMixin, web.RequestHandler):

        def prepare(self):
            self.chunks = []
            lim = self.request.headers.get("X-Limit")
            if lim is not None and lim.isdigit():
                self.request.connection.set_max_body_size(int(lim))

        def data_received(self, chunk):
            self.chunks.append(chunk)

        def _do(self):
            payload = echo(self.request.method, b"".join(self.chunks))
            self.set_header("X-Echo", payload)
            self.write(payload)

    for m in METHODS:
        setattr(Buffered, m.lower(), Buffered._do)
        setattr(Streaming, m.lower(), Streaming._do)

    def quiet(handler):
        pass

    _apps["callable"] = lambda: callable_app
    _apps["raw_delegate"] = lambda: RawApp()
    _apps["web_buffered"] = lambda: web.Application([(r".*", Buffered)], log_function=quiet)
    _apps["web_streaming"] = lambda: web.Application([(r".*", Streaming)], log_function=quiet)


def make_app(kind):
    if not _apps:
        _build_apps()
    return _apps[APP_NAMES[kind % len(APP_NAMES)]]()


# ---------------------------------------------------------------------------
# one connection

WALL_CAP = 10.0  # seconds of *CPU time of this process* (ITIMER_VIRTUAL) for one delivery;
# normal deliveries use milliseconds, machine load cannot make the timer run


class _WallWatchdog(KeyboardInterrupt):
    """Raised from SIGVTALRM when code under test spins without ever yielding to the loop
    (the simulator's iteration cap cannot see that).  A KeyboardInterrupt subclass because
    asyncio lets only those escape from a task step."""


def _on_alarm(signum, frame):
    raise _WallWatchdog()



class Obs:
    """What one delivery of the stream produced."""

    __slots__ = ("status", "delivered", "tail", "anomalies", "received", "eof", "rst",
                 "records", "loop_errors", "stats", "nseg", "recs", "log_head", "log_full",
                 "main_exc", "responses", "got400", "resp_garbage", "after_close")


def deliver(stream, seg, app_kind, server_kwargs, full_log=False, extra_tapes=None):
    """Run one simulated connection.  ``seg``: {"cuts": [...], "gaps": [...],
    "chunk": int|None, "tapes": {...}}."""
    tapes = dict(seg.get("tapes") or {})
    if extra_tapes:
        tapes.update(extra_tapes)
    kw = dict(server_kwargs or {})
    ch = seg.get("chunk")
    if ch:
        kw["chunk_size"] = max(1, int(ch))
    o = Obs()
    o.responses = None
    o.after_close = False
    o.resp_garbage = b""
    o.got400 = False
    cuts = [c for c in (seg.get("cuts") or []) if isinstance(c, int)]
    gaps = [max(0, g) for g in (seg.get("gaps") or []) if isinstance(g, int)]
    cap = 60_000 + 12 * len(stream)
    state = {}
    o.status = "wall_watchdog"
    o.main_exc = None
    o.received = b""
    o.eof = o.rst = False
    o.records = []
    o.loop_errors = []
    o.recs = []
    o.stats = {"iterations": 0, "sim_time": 0.0, "faults": {}, "probes": {}, "sig": "",
               "digest": "wall_watchdog", "events": 0}
    o.log_head = []
    o.log_full = None
    o.nseg = 0
    # Safety net only: it never fires in a run that yields to the loop (those are bounded by
    # max_iters); it turns "request bytes make the server spin forever inside one callback"
    # into a reported violation instead of a watchdog kill of the whole worker.
    try:
        old_handler = signal.signal(signal.SIGVTALRM, _on_alarm)
    except ValueError:  # not the main thread: run without the net
        old_handler = None
    if old_handler is not None or signal.getsignal(signal.SIGVTALRM) is _on_alarm:
        signal.setitimer(signal.ITIMER_VIRTUAL, WALL_CAP + len(stream) * 2e-4, 3.0)
    try:
        _deliver_inner(o, state, stream, cuts, gaps, cap, tapes, app_kind, kw, full_log)
    except _WallWatchdog:
        o.status = "wall_watchdog"
        rapp = state.get("rapp")
        o.recs = rapp.records if rapp is not None else []
    finally:
        if signal.getsignal(signal.SIGVTALRM) is _on_alarm:
            signal.setitimer(signal.ITIMER_VIRTUAL, 0)
            signal.signal(signal.SIGVTALRM, old_handler if old_handler is not None
                          else signal.SIG_DFL)
    if any(r[3] == "_WallWatchdog" for r in o.records):
        # the interrupt was swallowed by Tornado's blanket exception logging: what the run
        # did afterwards depends on when the timer fired, so it is not an observation
        o.status = "wall_watchdog"
    _digest_recs(o)
    return o


def _deliver_inner(o, state, stream, cuts, gaps, cap, tapes, app_kind, kw, full_log):
    with SimEnv(tapes, max_iters=cap, full_log=full_log) as env:
        async def main():
            server, ls, rapp = httprig.start_server(env, make_app(app_kind), **kw)
            state["rapp"] = rapp
            peer, _srv = httprig.connect(env, ls)
            state["peer"] = peer
            o.nseg = httprig.send_cut(peer, stream, cuts, gaps) if stream else 0
            wait = peer.tx.last_arrival - env.loop.time()
            await asyncio.sleep(max(0.0, wait) + UNIT)
            await env.loop.idle()
            if not peer.ended():
                peer.half_close()
            await peer.wait_eof()
            await env.loop.idle()
            server.stop()

        o.status = env.run(main())
        o.main_exc = repr(getattr(env, "main_exception", None)) if o.status.startswith("error") \
            else None
        peer = state.get("peer")
        rapp = state.get("rapp")
        o.received = bytes(peer.received) if peer is not None else b""
        o.eof = bool(peer is not None and peer.eof)
        o.rst = bool(peer is not None and peer.got_rst)
        o.records = list(env.records)
        o.loop_errors = list(env.loop_errors)
        o.recs = rapp.records if rapp is not None else []
        o.stats = env.stats()
        o.log_head = env.log.head
        o.log_full = env.log.full


def _digest_recs(o):
    """delivered = records that got finish(); tail = a record with headers but no
    finish(); anything else out of shape is an anomaly."""
    o.delivered = []
    o.tail = None
    o.anomalies = []
    seen_unfinished = False
    for r in o.recs:
        ev = r.events
        if not ev:
            continue  # start_request only: the connection ended before a head arrived
        shape_ok = ev[0] == "H" and all(e[0] == "D" for e in ev[1:-1]) and \
            (len(ev) == 1 or ev[-1] in ("F", "C") or ev[-1][0] == "D")
        if not shape_ok or r.finished > 1 or r.closed > 1 or (r.finished and r.closed):
            o.anomalies.append("rec %d: delegate call sequence %s" % (r.idx, "".join(ev)[:60]))
        hm = {}
        for k, v in r.headers or ():
            hm.setdefault(k.lower(), []).append(v.strip(" \t"))
        summ = (r.method, r.target, r.version, hm, r.body())
        if r.finished:
            if seen_unfinished:
                o.anomalies.append("rec %d finished after an unfinished request" % r.idx)
            o.delivered.append(summ)
        else:
            if seen_unfinished:
                o.anomalies.append("rec %d: second request with headers but no finish" % r.idx)
            seen_unfinished = True
            o.tail = summ


# ---------------------------------------------------------------------------
# peer side: split what was read into responses


def split_responses(buf, methods):
    """-> (list of (code, headers dict lower->value, body, raw bytes without Date), garbage)"""
    out = []
    pos = 0
    i = 0
    n = len(buf)
    while pos < n:
        he = buf.find(b"\r\n\r\n", pos)
        if he < 0:
            return out, buf[pos:]
        lines = buf[pos:he].split(b"\r\n")
        sl = lines[0].split(b" ", 2)
        if len(sl) < 2 or not sl[0].startswith(b"HTTP/1.") or not sl[1].isdigit():
            return out, buf[pos:]
        code = int(sl[1])
        hd = {}
        keep = [lines[0]]
        for ln in lines[1:]:
            k, _, v = ln.partition(b":")
            kl = k.strip().lower()
            hd[kl.decode("latin1")] = v.strip().decode("latin1")
            if kl != b"date":
                keep.append(ln)
        body_start = he + 4
        if 100 <= code < 200:
            blen = 0
        else:
            m = methods[i] if i < len(methods) else None
            if code != 400 and (m == "HEAD" or code in (204, 304)):
                blen = 0
            elif hd.get("transfer-encoding", "").lower() == "chunked":
                return out, buf[pos:]  # the rig's applications never stream
            else:
                cl = hd.get("content-length")
                blen = int(cl) if cl is not None and cl.isdigit() else 0
        body = buf[body_start:body_start + blen]
        if len(body) < blen:
            return out, buf[pos:]
        out.append((code, hd, body, b"\r\n".join(keep) + b"\r\n\r\n" + body))
        pos = body_start + blen
        if code >= 200:
            i += 1
    return out, b""


def digest_responses(o):
    methods = [d[0] for d in o.delivered]
    rs, garbage = split_responses(o.received, methods)
    o.responses = rs
    o.resp_garbage = garbage
    o.got400 = bool(rs and rs[-1][0] == 400)


# ---------------------------------------------------------------------------
# the judge


def _short(b, n=40):
    return repr(b[:n]) + (".." if len(b) > n else "")


def _diff_summary(got, exp):
    """Which component of (method, target, version, headers, body) differs."""
    names = ("method", "target", "version", "headers", "body")
    for i, nm in enumerate(names):
        if got[i] != exp[i]:
            if nm == "headers":
                ks = sorted(set(got[3]) | set(exp[3]))
                for k in ks:
                    if got[3].get(k) != exp[3].get(k):
                        return nm, "field %r: got %r expected %r" % (k, got[3].get(k), exp[3].get(k))
            if nm == "body":
                return nm, "got %d bytes %s expected %d bytes %s" % (
                    len(got[4]), _short(got[4]), len(exp[4]), _short(exp[4]))
            return nm, "got %r expected %r" % (got[i], exp[i])
    return None, ""


def judge(ref, o, bad, probe, tag=""):
    """Compare one observation with the reference result.  ``bad(rule, msg, key)``."""
    M = ref.messages
    n = len(M)
    D = o.delivered
    for a in o.anomalies:
        bad("delegate.call_sequence", a, "delegate.call_sequence")
    if o.status == "wall_watchdog":
        bad("run.cpu_hang", "the server spun for more than %.0f s of CPU time inside one loop "
            "callback without yielding (request bytes made it loop forever)" % WALL_CAP,
            "run.cpu_hang")
        return
    if o.status != "done":
        bad("run." + o.status.split(":")[0],
            "simulation ended with %s %s (peer eof=%s)" % (o.status, o.main_exc or "", o.eof),
            "run." + o.status)
        return
    # ---- delivered sequence
    digest_responses(o)
    rs = o.responses
    ok_rs = [r for r in rs if r[0] != 400 and r[0] >= 200]
    n400 = sum(1 for r in rs if r[0] == 400)
    c = 0
    while c < len(D) and c < n and D[c] == M[c].summary():
        c += 1
    # A delivered request that was never answered: the rig's applications answer at once, so
    # the connection was already closed when the request was handed over.
    R = len(ok_rs)
    if not o.resp_garbage and R < len(D) and 1 <= R <= c and M[R - 1].close != "no":
        last = M[R - 1]
        why = "may_close_non11" if last.close == "may" else (
            "http10_no_keepalive" if last.version.endswith("1.0") else "connection_close")
        o.after_close = True
        bad("pipelined_after_close.executed",
            "request %d (%s %s) was answered and the connection closed (%s), yet %d more "
            "request(s) pipelined behind it reached the application unanswered: %s %s" % (
                R - 1, last.method, last.version, why, len(D) - R, D[R][0], D[R][1]),
            "pipelined_after_close.executed/" + why)
        return
    if c < len(D):
        if c < n:
            what, detail = _diff_summary(D[c], M[c].summary())
            bad("delivered.differs",
                "request %d reached the application with a different %s: %s" % (c, what, detail),
                "delivered.differs/%s" % what)
        elif ref.end == "closed":
            last = M[n - 1]
            why = "http10_no_keepalive" if last.version.endswith("1.0") else "connection_close"
            o.after_close = True
            bad("pipelined_after_close.executed",
                "request %d (%s %s) forbids persistence (%s) but %d more request(s) behind it "
                "reached the application: %s %s" % (n - 1, last.method, last.version, why,
                                                    len(D) - n, D[n][0], D[n][1]),
                "pipelined_after_close.executed/" + why)
        elif ref.end == "reject":
            bad("reject.delivered",
                "request %d is malformed for the reference reader (%s) but reached the "
                "application as %s %s %s body=%s" % (n, ref.reason, D[n][0], D[n][1], D[n][2],
                                                     _short(D[n][4], 24)),
                "reject.delivered/" + ref.reason)
        elif ref.end == "incomplete":
            bad("incomplete.delivered",
                "request %d is incomplete (%s) but was finished" % (n, ref.reason),
                "incomplete.delivered/" + ref.reason)
        else:
            bad("delivered.phantom", "%d requests delivered, stream holds %d" % (len(D), n),
                "delivered.phantom")
        return
    if c == n and ref.end == "closed" and (o.tail is not None or n400):
        last = M[n - 1]
        o.after_close = True
        bad("pipelined_after_close.parsed",
            "request %d (%s %s) forbids persistence, yet bytes behind it were parsed as another "
            "request: %s" % (n - 1, last.method, last.version,
                             "its head reached the delegate (%s %s)" % (o.tail[0], o.tail[1])
                             if o.tail is not None else "a 400 was produced for it"),
            "pipelined_after_close.parsed")
        return
    if o.tail is not None and c == n and ref.end == "reject" and ref.partial is None:
        t = o.tail
        bad("reject.delivered",
            "head of request %d (%s %s) was handed to the delegate although the "
            "reference reader rejects it: %s" % (c, t[0], t[1], ref.reason),
            "reject.delivered/" + ref.reason)
        return
    # ---- logs: peer input must never surface as an application error
    for lg, lvl, msg, exc in o.records:
        if exc == "_WallWatchdog":
            bad("run.cpu_hang", "the server spun for more than %.0f s of CPU time inside one "
                "loop callback without yielding" % WALL_CAP, "run.cpu_hang")
            return
        if lvl in ("ERROR", "CRITICAL") and (lg == "tornado.application"
                                             or "Uncaught exception" in msg):
            bad("log.uncaught_exception",
                "%s %s %r exc=%s" % (lg, lvl, msg[:60], exc),
                "log.uncaught_exception/%s/%s/%s" % (
                    lg.split(".")[-1], exc,
                    ref.end + (":" + ref.reason if ref.reason else "")))
            return
    for msg, exc in o.loop_errors:
        bad("log.loop_exception", "asyncio exception handler: %r %s" % (msg, exc),
            "log.loop_exception/%s" % exc)
        return
    # ---- why did it stop at c?
    allow400 = False
    if c < n:
        mc = M[c]
        just_strict = bool(mc.strict)
        just_may = c >= 1 and M[c - 1].close == "may"
        if just_strict:
            allow400 = True
            for t in mc.strict:
                probe("tornado_stricter:" + t)
        if not (just_strict or just_may):
            bad("valid.not_delivered",
                "request %d (%s %s %s, framing %s, %d body bytes) is valid for the reference "
                "reader but was not delivered; peer saw %s" % (
                    c, mc.method, mc.target, mc.version, mc.framing, len(mc.body),
                    "400" if n400 else "EOF"),
                "valid.not_delivered/" + mc.framing + ("/400" if n400 else "/eof"))
            return
        if just_may and not just_strict:
            probe("closed_after_may_close")
        expect_tail = mc
    else:
        if ref.end in ("reject", "incomplete"):
            allow400 = True
            probe("end:" + ref.end)
        elif ref.end_strict:
            allow400 = True
        if n and M[n - 1].close == "may":
            pass
        expect_tail = ref.partial
        for m in M:
            for t in m.strict:
                probe("tornado_accepts:" + t)
    # ---- tail: a request whose head reached the delegate but which was never finished
    if o.tail is not None:
        t = o.tail
        if expect_tail is None:
            if c == n and ref.end == "reject":
                pass  # reported above (before the log check)
            elif c == n and ref.end == "clean":
                bad("delivered.phantom", "head of a request beyond the end of the stream",
                    "delivered.phantom/head")
            # incomplete at stage head with a tail: the head was not complete, impossible
            elif c == n:
                bad("incomplete.head_delivered", "head delivered before it was complete (%s)"
                    % ref.reason, "incomplete.head_delivered")
        else:
            e = expect_tail.summary()
            if t[:4] != e[:4]:
                what, detail = _diff_summary(t[:4] + (b"",), e[:4] + (b"",))
                bad("tail.head_differs", "unfinished request %d: %s %s" % (c, what, detail),
                    "tail.head_differs/%s" % what)
            elif c == n and ref.end == "reject" and ref.stage == "semantic" and t[4]:
                bad("reject.delivered",
                    "request %d is refused by the reference reader before any body (%s) but "
                    "%d body bytes were handed to the delegate" % (c, ref.reason, len(t[4])),
                    "reject.delivered/" + ref.reason)
            elif not e[4].startswith(t[4]):
                bad("tail.body_not_a_prefix",
                    "unfinished request %d was handed %d body bytes %s which are not a prefix of "
                    "the %d well-framed ones" % (c, len(t[4]), _short(t[4]), len(e[4])),
                    "tail.body_not_a_prefix")
    # ---- peer side
    if o.resp_garbage:
        bad("response.unparsable", "peer read bytes that are not a response: %s"
            % _short(o.resp_garbage), "response.unparsable")
        return
    if len(ok_rs) != len(D):
        bad("response.count",
            "%d requests delivered but %d non-400 responses read" % (len(D), len(ok_rs)),
            "response.count")
    else:
        for i, r in enumerate(ok_rs):
            want = echo(D[i][0], D[i][4])
            if r[0] != 200 and D[i][0] not in METHODS:
                probe("odd_method_non200")  # e.g. a method name that collides with an attribute
                continue
            if r[0] != 200 or r[1].get("x-echo") != want:
                bad("response.echo",
                    "response %d: status %d echo %r, application should have seen %r"
                    % (i, r[0], r[1].get("x-echo"), want), "response.echo")
                break
    if n400:
        if n400 > 1 or rs[-1][0] != 400:
            bad("response.400_not_last", "%d 400 responses, last status %d" % (n400, rs[-1][0]),
                "response.400_not_last")
        elif not allow400:
            bad("response.unexpected_400",
                "400 after %d delivered requests although the reference reader ends %s"
                % (len(D), ref.end), "response.unexpected_400/" + ref.end)
        else:
            probe("saw_400")
    elif allow400:
        probe("saw_eof_without_400")
    if not (o.eof or o.rst):
        bad("end.no_eof", "peer never saw the connection end", "end.no_eof")
