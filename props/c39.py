"""C39 - PeriodicCallback stays on its grid, skips missed periods, never overlaps.

The real ``tornado.ioloop.PeriodicCallback`` runs on the AsyncIOMainLoop that
``IOLoop.current()`` builds around the SimLoop.  For the duration of a run the
instance's ``call_at`` (the documented override point: ``add_timeout`` funnels
into it) is replaced by a recording wrapper, so every deadline PeriodicCallback
schedules is observed *exactly* (the float it passed), together with the clock
reading ``IOLoop.time()`` at that moment.  The wrapper also tags the handle
(contextvar) so that every callback invocation can be attributed to the
``call_at`` that produced it ("no run after stop" is judged on that).

The clock: ``IOLoop.time()`` = 1.7e9 + virtual monotonic time + skew.  The
scenario steps the skew forward/backward at chosen instants, stalls the loop
(late/cost tapes, explicit stall events, callbacks that "run long" by advancing
the virtual clock synchronously), lets coroutine callbacks sleep past their
period, and calls stop()/start() from a driver task or from inside the callback.

Exploration only: periods, start times and clock readings are epoch-scale
binary64 values; the oracle works on their exact rational values
(fractions.Fraction) with a tolerance of 4 ulp of the operands.
"""

import asyncio
import contextvars
import datetime
import math
from fractions import Fraction

from sim.env import SimEnv, UNIT

ID = "C39"
LEVEL = "exploration"
QUICK_N = 100000     # ~0.7 ms CPU per run (+ ~0.5 ms generation, hashing, bookkeeping)
THOROUGH_N = 1500000  # longer runs (~2 ms each); bounded by the runner's in-memory hash sets
CHUNK = 2000
RULE = ("gen(seed): period 1us..hours (float ms, int ms or timedelta), sync or coroutine callback, "
        "per-invocation behaviour (run long by advancing the clock, await longer/shorter than the "
        "period, raise, stop / stop+start inside the callback), driver events at instants placed "
        "relative to the period (wall-clock step forward/backward, loop stall, stop, start, "
        "restart), initial skew up to +3e8 s with sub-ulp offsets, late/cost tapes, jitter 0 in "
        "most runs (random tape otherwise). "
        "non-trivial = >=3 deadlines were scheduled AND at least one of: a period was skipped "
        "(advance by >=2 periods), the clock was behind the previous deadline when rescheduling, "
        "a stop()/start() happened while started, a coroutine invocation outlived its period; "
        "distinct = distinct scenario hash")
COMPONENTS = {
    "real": ["tornado.ioloop.PeriodicCallback (start, stop, is_running, _run, _schedule_next, "
             "_update_next)", "tornado.ioloop.IOLoop.add_timeout/remove_timeout/_run_callback",
             "tornado.platform.asyncio.BaseAsyncIOLoop.call_at (called through the recorder)",
             "asyncio timers, Task, Future"],
    "stub": ["event loop iteration and clock (sim.loop.SimLoop)", "time.time (virtual clock + "
             "scripted skew)", "random.random (tape)", "recording wrapper around io_loop.call_at"],
}
ASSUMPTIONS = [
    "the 'exact rationals / proof obligations' half of the quantifier is outside this technique: "
    "only epoch-scale binary64 periods, start times and clock readings are explored, with a "
    "tolerance of 4 ulp of the operands",
    "'on the grid' is checked step by step: each scheduled time minus the previous one (or minus "
    "the clock reading at start()) is a positive integer multiple of the float period "
    "callback_time/1000 within 4 ulp; rounding of the repeated float additions may accumulate "
    "relative to start + k*period and is reported as a probe, not a violation",
    "'while the clock has not gone backwards': the upper bound (<= one period after now) is "
    "required from start() until a backward step of the wall clock, and again from the first "
    "rescheduling at which the clock has caught up with the previously scheduled time",
    "asyncio may fire a timer up to its clock resolution (2**-20 s in SimLoop) early; that slack "
    "is added to the upper bound only",
    "jitter > 0 runs check only: strictly increasing, not before now, at most "
    "period*(1+jitter/2) ahead; jitter <= 1",
    "start() is only called while the callback is stopped (a second start() is a caller error)",
]

HANDLE = contextvars.ContextVar("c39_handle", default=-1)
RES = 2.0 ** -20  # SimLoop._clock_resolution
MAX_US = 10 ** 12   # longest single stall / sleep / clock step (11.6 days)

# violations that are consequences of stop()+start() while a _run is pending or in flight
FAMILY = {"stop.ran_after_stop": "stale_run", "overlap.started_while_running": "overlap",
          "schedule.too_far": "double_chain", "schedule.too_far_jitter": "double_chain"}

PERIODS_US = [1, 1, 2, 3, 7, 10, 100, 250, 333, 1000, 1000, 1024, 10000, 15625, 100000,
              1000000, 60000000, 3600000000, 7200000000]


# ---------------------------------------------------------------------------
# generator


def gen(rng, tier, index):
    thorough = tier == "thorough"
    p = rng.choice(PERIODS_US)
    if rng.random() < 0.3:
        p = max(1, int(p * rng.choice([0.5, 0.9, 1.1, 1.7, 3.3])) + rng.randint(0, 3))
    form = rng.choice(["float", "float", "float", "td", "int"])
    if form == "int" and p % 1000:
        form = "float"
    coro = rng.random() < 0.5
    jitter_pct = 0
    if rng.random() < 0.12:
        jitter_pct = rng.choice([10, 50, 100])
    ncalls = rng.randint(3, 60 if thorough else 10)

    def rel(mult_choices):
        """a duration in us placed relative to the period"""
        m = rng.choice(mult_choices)
        return min(MAX_US, max(0, int(p * m) + rng.choice([0, 0, 0, 1, -1])))

    calls = []
    busy_rate = rng.choice([0.0, 0.15, 0.4])
    act_rate = rng.choice([0.0, 0.0, 0.08, 0.2])
    restart_inside = rng.random() < 0.5   # swarm: half of the runs never restart from inside
    for i in range(ncalls):
        c = {}
        if rng.random() < busy_rate:
            c["busy_us"] = rel([0.25, 0.5, 1, 1, 1.5, 2, 3, 7.5, 100, 100000])
        if coro and rng.random() < 0.5:
            c["sleep_us"] = rel([0, 0.25, 0.5, 1, 1.25, 2, 3.5, 10])
        if rng.random() < 0.08:
            c["raise"] = True
        if rng.random() < act_rate:
            c["act"] = rng.choice(["stop", "restart", "restart"]) if restart_inside else "stop"
            c["act_late"] = rng.random() < 0.5  # coroutine: after its sleep
        calls.append(c)
    events = []
    t = 0
    for _ in range(rng.choice([0, 1, 3, 6, 9, 12] if thorough else [0, 0, 1, 2, 3, 5])):
        t += rel([0, 0.1, 0.5, 1, 1, 1.5, 2.25, 4])
        k = rng.random()
        if k < 0.45:
            sign = -1 if rng.random() < 0.5 else 1
            d = rel([0.1, 0.5, 1, 1, 2, 3.5, 10, 1000]) if rng.random() < 0.8 else \
                rng.choice([1, 1000, 1000000, 3600000000])
            events.append({"at_us": t, "op": "skew", "d_us": sign * max(1, d)})
        elif k < 0.6:
            events.append({"at_us": t, "op": "stall", "d_us": rel([0.5, 1, 2, 3, 10.5, 1000, 1000000])})
        elif k < 0.75:
            events.append({"at_us": t, "op": "stop"})
        elif k < 0.9:
            events.append({"at_us": t, "op": "start"})
        else:
            events.append({"at_us": t, "op": "restart"})
    tapes = {}
    if rng.random() < 0.3:
        tapes["late"] = [rng.choice([0, 0, 1, 2, 7, 40]) for _ in range(rng.randint(1, 10))]
    if rng.random() < 0.2:
        tapes["cost"] = {"v": [rng.choice([0, 0, 1, 1, 3]) for _ in range(rng.randint(1, 8))],
                         "cycle": rng.random() < 0.5}
    if jitter_pct:
        tapes["random"] = {"v": [rng.randint(0, 255) for _ in range(rng.randint(1, 8))], "cycle": True}
    r = rng.random()
    skew_ns = 0
    if r < 0.3:
        skew_ns = rng.randint(0, 3 * 10 ** 17)      # up to +3e8 s, arbitrary sub-ulp offset
    elif r < 0.5:
        skew_ns = rng.randint(-10 ** 9, 10 ** 9)
    return {"property": ID, "version": 1, "period_us": p, "form": form, "coro": coro,
            "jitter_pct": jitter_pct, "start_delay_us": rng.choice([0, 0, 1, 977, rel([0.3, 1, 2.5])]),
            "skew_ns": skew_ns, "calls": calls, "events": events,
            "tail_periods": rng.choice([2, 3, 5]), "tapes": tapes}


def validate(scn):
    try:
        if not (isinstance(scn["period_us"], int) and scn["period_us"] >= 1):
            return False
        if scn.get("form") == "int" and scn["period_us"] % 1000:
            return False
        if not 0 <= scn.get("jitter_pct", 0) <= 100:
            return False
        for c in scn.get("calls", []):
            if not isinstance(c, dict):
                return False
            if not (0 <= c.get("busy_us", 0) <= MAX_US and 0 <= c.get("sleep_us", 0) <= MAX_US):
                return False
        last = 0
        for e in scn.get("events", []):
            if not isinstance(e, dict) or e.get("op") not in ("skew", "stall", "stop", "start", "restart"):
                return False
            if not isinstance(e.get("at_us"), int) or e["at_us"] < last:
                return False
            last = e["at_us"]
            if e["op"] == "stall" and not 0 <= e.get("d_us", 0) <= MAX_US:
                return False
            if e["op"] == "skew" and abs(e.get("d_us", 0)) > 4 * 10 ** 15:
                return False
        return 0 <= scn.get("start_delay_us", 0) <= MAX_US and 0 <= scn.get("tail_periods", 1) <= 8 \
            and isinstance(scn.get("skew_ns", 0), int) and len(scn.get("calls", [])) <= 64 \
            and scn["period_us"] <= 10 ** 11
    except (KeyError, TypeError, AttributeError):
        return False


def simplify(scn):
    """Extra shrink candidates: drop empty tapes so equal cases get equal replay files."""
    t = scn.get("tapes") or {}
    t2 = {k: v for k, v in t.items() if (v.get("v") if isinstance(v, dict) else v)}
    if t2 != t:
        c = dict(scn)
        c["tapes"] = t2
        yield c


# ---------------------------------------------------------------------------
# the run


def run(scn, full_log=False):
    from tornado.ioloop import IOLoop, PeriodicCallback

    viol = []
    probes = {}

    fam = {"cause": None}

    def bad(rule, msg, key=None):
        c = fam["cause"]
        if c and rule in FAMILY:
            # restart family (findings/C39-restart-*): own rule names, so that the shrinker cannot
            # drift from another defect into this one or back
            orig = rule
            rule = "restart." + FAMILY[rule]
            key = rule
            msg += f" [after a start() {c.replace('_', ' ')}; clause {orig}]"
        if len(viol) < 12:
            viol.append({"rule": rule, "key": key or rule, "msg": msg})

    def probe(name, n=1):
        probes[name] = probes.get(name, 0) + n

    p_us = scn["period_us"]
    form = scn.get("form", "float")
    if form == "td":
        cb_time = datetime.timedelta(microseconds=p_us)
        cb_time_ms = cb_time / datetime.timedelta(milliseconds=1)
    elif form == "int":
        cb_time = p_us // 1000
        cb_time_ms = cb_time
    else:
        cb_time = p_us / 1000.0
        cb_time_ms = cb_time
    p_float = cb_time_ms / 1000.0          # the period in seconds as PeriodicCallback derives it
    P = Fraction(p_float)
    jitter = scn.get("jitter_pct", 0) / 100.0
    coro = bool(scn.get("coro"))
    calls = scn.get("calls", [])
    max_calls = len(calls) + 2
    tapes = dict(scn.get("tapes") or {})
    if not jitter:
        tapes.pop("random", None)

    with SimEnv(tapes, max_iters=6000, max_time=2.0 ** 30, full_log=full_log) as env:
        loop = env.loop
        loop.skew = scn.get("skew_ns", 0) * 1e-9
        st = {
            "epoch": 0,          # number of stop() calls so far
            "started": False,    # our view: between start() and stop()
            "origin": None,      # clock reading at the latest start()
            "prev": None,        # previous scheduled deadline in this start epoch
            "backward": False,   # wall clock stepped back and has not caught up yet
            "active": 0,         # invocations in flight
            "ncalls": 0,
            "nsched": 0,
            "handles": [],       # idx -> [deadline, epoch, runs]
            "interesting": 0,
            "pc": None,
        }
        log = env.log

        def ulp(x):
            return math.ulp(abs(x)) if x else 0.0

        # ---- recorder around the IOLoop's call_at ------------------------
        def install(io, pc):
            real_call_at = io.call_at

            def call_at(when, callback, *args, **kwargs):
                if callback != pc._run:
                    return real_call_at(when, callback, *args, **kwargs)
                idx = len(st["handles"])
                now = loop.wall()
                others = sum(1 for h in st["handles"] if h[3] == 0)
                # deadline, epoch, runs, state, epoch when fired, iteration when fired
                ent = [when, st["epoch"], 0, 0, -1, -1]
                st["handles"].append(ent)
                on_schedule(idx, when, now, others)

                def fire(*a, **k):
                    ent[3] = 1
                    ent[4] = st["epoch"]
                    ent[5] = loop.iterations
                    HANDLE.set(idx)
                    return callback(*a, **k)
                h = real_call_at(when, fire, *args, **kwargs)
                by_handle[h] = ent
                return h
            io.call_at = call_at
            real_remove = io.remove_timeout

            def remove_timeout(handle):
                ent = by_handle.get(handle)
                if ent is not None and ent[3] == 0:
                    ent[3] = 2
                return real_remove(handle)
            io.remove_timeout = remove_timeout

        by_handle = {}  # TimerHandle -> entry; looked up only, never iterated

        def on_schedule(idx, when, now, others):
            st["nsched"] += 1
            if others:
                # another timeout of this PeriodicCallback is still pending: two chains are alive
                probe("two_timeouts_pending")
            log.ev("sched", idx, when, now, st["epoch"])
            if not isinstance(when, float):
                bad("schedule.not_a_float", f"call_at deadline {when!r}")
                return
            prev = st["prev"]
            first = prev is None
            anchor = st["origin"] if first else prev
            if anchor is None:      # scheduled without start(): cannot happen through the API
                bad("schedule.without_start", f"deadline {when!r} scheduled while never started")
                return
            D, A, C = Fraction(when), Fraction(anchor), Fraction(now)
            tol = 4 * Fraction(max(ulp(when), ulp(anchor), ulp(now)))
            if not first and now >= prev:
                st["backward"] = False
            if not first and now < prev:
                probe("clock_behind_previous_deadline")
                st["interesting"] += 1
            if not first and now == prev:
                probe("clock_exactly_on_deadline")
            # 1. strictly later than the previously scheduled time
            if not first and not when > prev:
                bad("schedule.not_increasing",
                    f"deadline #{idx} {when!r} is not later than the previous one {prev!r} "
                    f"(clock {now!r}, period {p_float!r})",
                    "schedule.not_increasing/" + ("double_chain" if others else "behind" if now < prev
                                                  else "on_grid" if now == prev else "ahead"))
            # 2. not before the current time
            if D < C - tol:
                bad("schedule.before_now", f"deadline #{idx} {when!r} is {float(C - D)!r}s before "
                                           f"the clock {now!r} (period {p_float!r})")
            if jitter:
                pmax = P * Fraction(1 + jitter / 2)
                if not st["backward"] and D > C + pmax + tol + Fraction(RES):
                    bad("schedule.too_far_jitter", f"deadline #{idx} {when!r} is {float(D - C)!r}s "
                        f"after the clock {now!r}: more than period*(1+jitter/2)={float(pmax)!r}",
                        "schedule.too_far_jitter/" + ("double_chain" if others else "single"))
            else:
                # 3. on the grid (step-wise)
                diff = D - A
                n = round(diff / P)
                tol_g = 4 * Fraction(max(ulp(when), ulp(anchor), ulp(float(n * P))))
                if n < 1 or abs(diff - n * P) > tol_g:
                    bad("schedule.off_grid",
                        f"deadline #{idx} {when!r} - {'start' if first else 'previous'} {anchor!r} = "
                        f"{float(diff)!r} is not a positive multiple of the period {p_float!r} "
                        f"(nearest n={n}, error {float(diff - n * P)!r}, tolerance {float(tol_g)!r})",
                        "schedule.off_grid/" + ("double_chain" if others else "first" if first else "step"))
                elif n >= 2:
                    probe("periods_skipped")
                    st["interesting"] += 1
                    if n >= 100:
                        probe("periods_skipped_100plus")
                # 4. at most one period after now while the clock has not gone backwards
                if not st["backward"]:
                    if D > C + P + tol + Fraction(RES):
                        bad("schedule.too_far",
                            f"deadline #{idx} {when!r} is {float(D - C)!r}s after the clock {now!r}: "
                            f"more than one period ({p_float!r}) although the clock never went "
                            f"backwards since it last caught up (previous deadline {prev!r})",
                            "schedule.too_far/" + ("double_chain" if others else "first" if first else
                                                   "behind" if now < prev else "ahead"))
                else:
                    probe("upper_bound_suspended_after_backward_step")
                # drift against the exact grid anchored at start(): informational
                o = Fraction(st["origin"])
                k = round((D - o) / P)
                if abs(D - o - k * P) > 4 * Fraction(ulp(when)):
                    probe("drift_from_start_grid_gt_4ulp")
            st["prev"] = when

        # ---- the periodic callback -------------------------------------------
        def begin():
            idx = HANDLE.get()
            st["ncalls"] += 1
            n = st["ncalls"]
            now = loop.wall()
            log.ev("call", n, idx, now, st["active"])
            pc = st["pc"]
            if idx < 0:
                bad("run.unattributed", f"invocation {n} not triggered by a recorded deadline")
            else:
                h = st["handles"][idx]
                h[2] += 1
                if h[2] > 1:
                    bad("run.twice_for_one_deadline", f"deadline #{idx} produced {h[2]} invocations")
                if h[1] < st["epoch"]:
                    bad("stop.ran_after_stop",
                        f"invocation {n} at {now!r} was produced by deadline #{idx} scheduled before "
                        f"stop() #{st['epoch']} (is_running()={pc.is_running()})",
                        "stop.ran_after_stop/" +
                        ("timer_fired_before_stop" if h[4] < st["epoch"] else "timer_survived_stop") +
                        ("_restarted" if st["started"] else "_stopped"))
            if not st["started"]:
                bad("stop.ran_while_stopped", f"invocation {n} at {now!r} while stopped",
                    "stop.ran_while_stopped")
            if st["active"] > 0:
                bad("overlap.started_while_running",
                    f"invocation {n} started at {now!r} while {st['active']} earlier invocation(s) "
                    f"of the coroutine callback were still running (epoch {st['epoch']})",
                    "overlap.started_while_running/" +
                    ("after_restart" if any(e < st["epoch"] for e in st["active_epochs"]) else "plain"))
            spec = calls[n - 1] if n - 1 < len(calls) else {}
            if n >= max_calls and st["started"]:
                spec = dict(spec)
                spec["act"] = "stop"
                spec["act_late"] = False
            return spec

        def do_act(spec, inside=True):
            act = spec.get("act")
            if st.get("closing"):
                return
            if act == "stop":
                do_stop("inside")
            elif act == "restart":
                do_stop("inside")
                do_start("inside")

        def busy(spec):
            b = spec.get("busy_us", 0)
            if b:
                loop._now += b * 1e-6
                probe("callback_ran_long")
                if b > p_us:
                    probe("callback_ran_longer_than_period")

        def sync_cb():
            spec = begin()
            busy(spec)
            st["in_sync"] = True
            try:
                do_act(spec)
            finally:
                st["in_sync"] = False
            if spec.get("raise"):
                probe("callback_raised")
                raise RuntimeError("periodic callback failed")

        async def coro_cb():
            spec = begin()
            my_epoch = st["epoch"]
            st["active"] += 1
            st["active_epochs"].append(my_epoch)
            try:
                busy(spec)
                if not spec.get("act_late"):
                    do_act(spec)
                s = spec.get("sleep_us", 0)
                if s:
                    if s > p_us:
                        probe("coroutine_outlives_period")
                        st["interesting"] += 1
                    await asyncio.sleep(s * 1e-6)
                else:
                    await asyncio.sleep(0)
                if spec.get("act_late"):
                    do_act(spec)
                if spec.get("raise"):
                    probe("callback_raised")
                    raise RuntimeError("periodic coroutine failed")
            finally:
                st["active"] -= 1
                st["active_epochs"].remove(my_epoch)
                log.ev("call_end", loop.wall(), my_epoch)

        st["active_epochs"] = []

        def do_start(where):
            pc = st["pc"]
            if st["started"]:
                probe("start_skipped_already_started")
                return
            st["started"] = True
            st["origin"] = loop.wall()
            st["prev"] = None
            st["backward"] = False
            if st["epoch"] > 0:
                probe("restart_" + where)
                st["interesting"] += 1
            if st["active"] > 0 or st.get("in_sync"):
                probe("start_while_invocation_in_flight")
                if fam["cause"] is None:
                    fam["cause"] = "during_an_invocation"
            elif any(h[3] == 1 and h[2] == 0 and loop.iterations - h[5] <= 1 for h in st["handles"][-3:]):
                probe("start_between_timer_and_run")
                if fam["cause"] is None:
                    fam["cause"] = "between_timer_firing_and_run"
            log.ev("start", st["origin"], where)
            pc.start()
            if not pc.is_running():
                bad("is_running.false_after_start", "is_running() is False right after start()")

        def do_stop(where):
            pc = st["pc"]
            if not st["started"]:
                probe("stop_while_stopped")
            else:
                probe("stop_" + where)
                st["interesting"] += 1
                if st["active"] > 0 and where != "inside":
                    probe("stop_while_invocation_in_flight")
            st["started"] = False
            st["epoch"] += 1
            log.ev("stop", loop.wall(), where)
            pc.stop()
            if pc.is_running():
                bad("is_running.true_after_stop", "is_running() is True right after stop()")

        async def main():
            io = IOLoop.current()
            pc = PeriodicCallback(coro_cb if coro else sync_cb, cb_time, jitter=jitter)
            st["pc"] = pc
            install(io, pc)
            if pc.is_running():
                bad("is_running.true_before_start", "is_running() is True before start()")
            d0 = scn.get("start_delay_us", 0)
            if d0:
                await asyncio.sleep(d0 * 1e-6)
            do_start("driver")
            t = 0
            for e in scn.get("events", ()):
                dt = e["at_us"] - t
                if dt > 0:
                    await asyncio.sleep(dt * 1e-6)
                t = e["at_us"]
                op = e["op"]
                if op == "skew":
                    d = e.get("d_us", 0) * 1e-6
                    loop.skew += d
                    log.ev("skew", loop.skew)
                    if d < 0:
                        if st["started"]:
                            st["backward"] = True
                            probe("wall_clock_stepped_back")
                    elif d > 0 and st["started"]:
                        probe("wall_clock_stepped_forward")
                elif op == "stall":
                    loop._now += e.get("d_us", 0) * 1e-6
                    probe("loop_stalled")
                elif op == "stop":
                    do_stop("driver")
                elif op == "start":
                    do_start("driver")
                elif op == "restart":
                    do_stop("driver")
                    do_start("driver")
            await asyncio.sleep(scn.get("tail_periods", 2) * p_float + 4 * UNIT)
            # let it run until the invocation budget stops it, but never forever
            for _ in range(64):
                if not st["started"]:
                    break
                await asyncio.sleep(max(p_float, UNIT) * 2)
            st["closing"] = True
            if st["started"]:
                do_stop("driver")
            st["final_calls"] = st["ncalls"]
            return True

        status = env.run(main())
        if status != "done":
            if status in ("hang", "step_cap", "time_cap"):
                bad("loop." + status, f"run ended with {status} after {loop.iterations} iterations, "
                                      f"{st['ncalls']} invocations, {st['nsched']} deadlines")
            else:
                bad("harness.main_raised", f"{status}: {getattr(env, 'main_exception', None)!r}")
        elif st["ncalls"] != st.get("final_calls"):
            # belt and braces: begin() reports these one by one as stop.ran_*
            if not any(v["rule"].startswith("stop.") for v in viol):
                bad("stop.ran_while_stopped", f"{st['ncalls'] - st['final_calls']} invocation(s) after "
                                              f"the final stop()")
        if st["active"] != 0 and status == "done":
            bad("harness.invocation_never_finished", f"{st['active']} coroutine invocation(s) pending")
        for r in env.records:
            if r[1] in ("ERROR", "CRITICAL") and not (r[0] == "tornado.application"
                                                       and r[3] == "RuntimeError"):
                bad("log.unexpected_error", f"{r[0]} {r[1]} {r[2][:80]} ({r[3]})")
        for m, e in env.loop_errors:
            bad("log.loop_error", f"{m} ({e})")
        out = env.stats()
        out["probes"].update(probes)
        out["probes"]["deadlines_scheduled"] = st["nsched"]
        out["probes"]["invocations"] = st["ncalls"]
        if p_us <= 10:
            out["probes"]["period_le_10us"] = 1
        if p_us >= 60000000:
            out["probes"]["period_minutes_or_hours"] = 1
        if jitter:
            out["probes"]["jitter_run"] = 1
        if fam["cause"]:
            out["probes"]["run_in_restart_family_state"] = 1
        if coro:
            out["probes"]["coroutine_callback"] = 1
        if form == "td":
            out["probes"]["timedelta_period"] = 1
        nontrivial = st["nsched"] >= 3 and st["interesting"] > 0
        return {"violations": viol, "nontrivial": nontrivial, "stats": out,
                "log_head": env.log.head, "log_full": env.log.full,
                "outcome": {"status": status, "deadlines": st["nsched"], "invocations": st["ncalls"],
                            "epochs": st["epoch"]}}
