"""C42 - Subprocess exit is reported once with the right status.

The real tornado.process.Subprocess runs on the SimLoop over a scripted
process table (sim/procs.py): subprocess.Popen returns a fake child (pid, no
pipes), os.waitpid(pid, WNOHANG) answers from the table ((0, 0) while the child
runs, (pid, status) exactly once after it exited, ChildProcessError for
unknown/reaped pids), SIGCHLD is whatever the scenario delivers through
SimLoop.deliver_signal to the handler that Subprocess.initialize() registered
with loop.add_signal_handler.

A scenario is a program over 1..4 children: spawn / child exits / register
(set_exit_callback, or wait_for_exit with raise_error default/True/False) /
deliver SIGCHLD / Subprocess.uninitialize() / Subprocess.initialize(), each
followed by a pause (none, 1-2 loop iterations, run to idle).  So SIGCHLD can
be prompt, late, coalesced for several children, spurious (nobody exited),
arrive before anybody registered (and be lost for that child), or arrive while
no handler is installed.  Kernel rule modelled by the epilogue: after the last
exit at least one SIGCHLD is delivered.

Oracle (history check at quiescence): the exit callback ran at most once, and
exactly once when it is *due*: the child exited and registered and (the exit
preceded the registration [registration-time check] or a SIGCHLD was delivered
to an installed handler after both); its argument is the decoded status (code,
or -signo); wait_for_exit futures resolve with that status, or fail with
CalledProcessError(returncode=status) exactly when raise_error is set and the
status is non-zero; no entry of Subprocess._waiting belongs to a reaped child;
no error is logged except for callbacks the scenario makes raise.
"""

import asyncio
import signal as _signal
from asyncio import events as _events

from sim.env import SimEnv
from sim.loop import SimLoop
from sim.procs import Installed, ProcWorld, SeamBreach, exit_status, returncode_of, signal_status

ID = "C42"
LEVEL = "exploration"
QUICK_N = 20000
THOROUGH_N = 800000
CHUNK = 500
RULE = ("gen(seed): 1..4 children (exit code 0..255 or killing signal, +-core flag), registration "
        "mode per child (set_exit_callback / wait_for_exit default, True, False), random merge of "
        "the per-child programs spawn<exit|register, SIGCHLD placed after exits (prompt, late, "
        "omitted=coalesced) plus spurious ones, optional uninitialize/initialize, pauses between "
        "steps, pid-reuse tape. non-trivial = >=1 exit was reported (callback ran / future done) "
        "AND >=1 timing perturbation fired in the run (exit before registration, SIGCHLD coalesced/"
        "spurious/late/lost before registration/without handler, uninitialize); distinct = distinct "
        "scenario hash")
COMPONENTS = {
    "real": ["tornado.process.Subprocess (__init__, set_exit_callback, wait_for_exit, initialize, "
             "uninitialize, _cleanup, _try_cleanup_process, _set_returncode)",
             "tornado.ioloop.IOLoop.add_callback / tornado.platform.asyncio", "asyncio.Future"],
    "stub": ["subprocess.Popen (sim.procs.FakePopen, no pipes)", "os.waitpid (sim.procs.ProcWorld)",
             "signal delivery (SimLoop.add_signal_handler/deliver_signal)",
             "event loop (sim.loop.SimLoop)"],
}
ASSUMPTIONS = [
    "stdin/stdout/stderr=Subprocess.STREAM is not simulated (PipeIOStream needs real fds): "
    "children have no pipes; os.pipe through tornado.process is a seam breach",
    "one registration per Subprocess (the statement speaks of *the* exit callback); nobody else "
    "reaps the children",
    "kernel rule: at least one SIGCHLD is delivered at or after every child exit (the epilogue "
    "delivers one if the program has none after the last exit); a SIGCHLD that arrives while no "
    "handler is installed is discarded",
    "a pid is reused only after it was reaped",
]

CODES = [1, 1, 2, 3, 126, 127, 128, 129, 137, 143, 255]
SIGS = [1, 2, 3, 6, 9, 11, 13, 14, 15, 64]
PAUSES = [0, 0, 0, 1, 1, 2, -1, -1]
KINDS = ("spawn", "exit", "reg", "chld", "uninit", "init")


def gen(rng, tier, index):
    wide = tier == "thorough" and rng.random() < 0.3
    k = rng.choice([1, 1, 2, 2, 3, 3, 4]) + (rng.randint(0, 2) if wide else 0)
    children = []
    for c in range(k):
        r = rng.random()
        ch = {"sig": 0, "core": 0, "code": 0, "mode": rng.choice([0, 0, 1, 2, 3, 3]), "raises": 0,
              "loop": 0}
        if r < 0.3:
            pass
        elif r < 0.65:
            ch["code"] = rng.choice(CODES) if rng.random() < 0.5 else rng.randint(1, 255)
        else:
            ch["sig"] = rng.choice(SIGS) if rng.random() < 0.8 else rng.randint(1, 64)
            ch["core"] = 1 if rng.random() < 0.3 else 0
        if ch["mode"] == 0 and rng.random() < 0.1:
            ch["raises"] = 1
        children.append(ch)
    seqs = []
    for c in range(k):
        tail = []
        if rng.random() < 0.92:
            tail.append("exit")
        if rng.random() < 0.92:
            tail.append("reg")
        rng.shuffle(tail)
        seqs.append([["spawn", c]] + [[t, c] for t in tail])
    ops = []
    if rng.random() < 0.3:
        for s in seqs:
            ops.append(s.pop(0))
    while any(seqs):
        s = rng.choice([s for s in seqs if s])
        ops.append(s.pop(0))
    # SIGCHLD after exits: prompt / late / omitted (coalesced with a later one or the epilogue)
    for c in range(k):
        idx = [i for i, o in enumerate(ops) if o[0] == "exit" and o[1] == c]
        if not idx:
            continue
        r = rng.random()
        if r < 0.35:
            ops.insert(idx[0] + 1, ["chld", 0])
        elif r < 0.75:
            ops.insert(rng.randint(idx[0] + 1, len(ops)), ["chld", 0])
    for _ in range(rng.choice([0, 0, 1, 1, 2])):
        ops.insert(rng.randint(0, len(ops)), ["chld", 0])
    if rng.random() < 0.12:
        p = rng.randint(0, len(ops))
        ops.insert(p, ["uninit", 0])
        if rng.random() < 0.5:
            ops.insert(rng.randint(p + 1, len(ops)), ["init", 0])
    elif rng.random() < 0.05:
        ops.insert(rng.randint(0, len(ops)), ["init", 0])
    # second event loop ("worker thread"): some children live there; SIGCHLD stays on the main
    # loop, which usually (not always) has been designated by an explicit initialize() first
    r2 = rng
    if r2.random() < 0.25:
        for ch in children:
            if r2.random() < 0.55:
                ch["loop"] = 1
        if r2.random() < 0.65:
            ops.insert(0, ["init", 0])
        elif r2.random() < 0.5:
            # a registration that failed on the worker loop may be retried later
            regs = [o for o in ops if o[0] == "reg" and children[o[1]]["loop"]]
            if regs:
                ops.append(["reg", r2.choice(regs)[1]])
                if r2.random() < 0.7:
                    ops.append(["chld", 0])
    for o in ops:
        o.append(rng.choice(PAUSES))
    reuse = []
    if rng.random() < 0.25:
        reuse = [rng.choice([0, 1, 1, 2]) for _ in range(k)]
    return {"property": ID, "version": 1, "children": children, "ops": ops, "reuse": reuse,
            "tapes": {}}


def validate(scn):
    try:
        for ch in scn["children"]:
            if not (isinstance(ch, dict) and 0 <= ch["sig"] <= 64 and 0 <= ch["code"] <= 255
                    and ch["mode"] in (0, 1, 2, 3) and ch["core"] in (0, 1)
                    and ch["raises"] in (0, 1) and ch.get("loop", 0) in (0, 1)):
                return False
        for o in scn["ops"]:
            if not (isinstance(o, list) and len(o) == 3 and o[0] in KINDS
                    and isinstance(o[1], int) and o[1] >= 0 and isinstance(o[2], int)):
                return False
        return all(isinstance(r, int) and r >= 0 for r in scn.get("reuse", []))
    except Exception:
        return False


class _CallbackBoom(Exception):
    pass


def run(scn, full_log=False):
    from tornado import process as tp

    children = scn["children"]
    ops = scn["ops"]
    nC = len(children)
    viol = []
    probes = {}
    outcome = {}

    def bad(rule, msg, key=None):
        viol.append({"rule": rule, "key": key or rule, "msg": msg})

    def probe(name, k=1):
        probes[name] = probes.get(name, 0) + k

    status = [signal_status(ch["sig"], bool(ch["core"])) if ch["sig"] else exit_status(ch["code"])
              for ch in children]
    SIGCHLD = int(_signal.SIGCHLD)

    with SimEnv(scn.get("tapes"), max_iters=20_000, full_log=full_log) as env:
        log = env.log
        loop = env.loop
        world = ProcWorld(log, reuse=scn.get("reuse", []))
        sp = [None] * nC
        pid = [None] * nC
        exit_idx = [None] * nC
        reg_idx = [None] * nC
        cb_calls = [[] for _ in range(nC)]
        futs = [None] * nC
        chld = []  # (op index, handler installed according to the model)
        wres = [None] * nC  # what the coroutine awaiting wait_for_exit() saw
        st = {"i": 0, "init": False, "raised": 0, "perturbed": 0, "inject": False}
        on_worker = [bool(ch.get("loop", 0)) for ch in children]
        # The worker loop stands for an IOLoop running in another thread.  Threads are modelled
        # by turns: the worker loop runs (to quiescence) only when its wake-up fd was written
        # (call_soon_threadsafe / IOLoop.add_callback from outside) - exactly what a selector
        # blocked without timeout does; work put on it with plain call_soon from the main
        # "thread" is not seen until something else wakes it.  asyncio refuses signal handlers
        # outside the main thread, so add_signal_handler on the worker loop raises.
        wloop = None
        if any(on_worker):
            wloop = SimLoop(env.tapes, log, max_iters=20_000)
            wloop.set_exception_handler(env._on_loop_error)

            def _no_signals(*a, **k):
                st["inject"] = True
                probe("worker_loop_add_signal_handler_refused")
                raise RuntimeError("set_wakeup_fd only works in main thread of the main interpreter")
            wloop.add_signal_handler = _no_signals
            wloop.remove_signal_handler = _no_signals

        def turn_worker(force=False):
            if wloop is None or not (wloop._woken or force):
                if wloop is not None and wloop._ready:
                    probe("worker_loop_has_unseen_work")
                return False
            wloop._woken = False
            prev = _events._get_running_loop()
            _events._set_running_loop(None)
            try:
                log.ev("worker_turn")
                wloop.run_until_quiescent()
            finally:
                _events._set_running_loop(prev)
            probe("worker_loop_turns")
            return True

        def on_loop_of(c, fn):
            if not on_worker[c]:
                return fn()
            box = {}

            def wrapper():
                try:
                    box["r"] = fn()
                except BaseException as e:  # handed back to the caller's "thread"
                    box["e"] = e
            wloop.call_soon_threadsafe(wrapper)
            turn_worker()
            if "e" in box:
                raise box["e"]
            return box.get("r")

        async def awaiter(c, f):
            try:
                v = await f
                wres[c] = ("res", v)
            except Exception as e:
                wres[c] = ("exc", e)
            log.ev("awaiter_done", c, wres[c][0])

        def spawn(c):
            sp[c] = tp.Subprocess(["child", str(c)])
            pid[c] = sp[c].pid
            log.ev("spawn", c, pid[c])
            if world.faults.get("pid_reused"):
                probe("pid_reused")

        def on_exit(c, ret):
            log.ev("cb", c, ret)
            cb_calls[c].append(ret)
            if not sp[c].proc.sim_reaped():
                bad("callback.before_reaped", f"child {c}: callback ran but the child was never "
                    "waited for")
            if children[c]["raises"]:
                st["raised"] += 1
                raise _CallbackBoom(c)

        def register(c):
            mode = children[c]["mode"]
            if mode == 0:
                sp[c].set_exit_callback(lambda ret, c=c: on_exit(c, ret))
            else:
                if mode == 1:
                    f = sp[c].wait_for_exit()
                elif mode == 2:
                    f = sp[c].wait_for_exit(raise_error=True)
                else:
                    f = sp[c].wait_for_exit(raise_error=False)
                futs[c] = f
                f.add_done_callback(lambda f, c=c: log.ev("fut_done", c))
                asyncio.get_running_loop().create_task(awaiter(c, f))

        def deliver(i):
            installed = st["init"]
            due = [c for c in range(nC) if sp[c] is not None and reg_idx[c] is not None
                   and sp[c].proc.sim_zombie()]
            lost = [c for c in range(nC) if sp[c] is not None and reg_idx[c] is None
                    and sp[c].proc.sim_zombie()]
            if not installed:
                probe("sigchld_without_handler")
                st["perturbed"] += 1
            else:
                if len(due) >= 2:
                    probe("sigchld_coalesced")
                    st["perturbed"] += 1
                if not due:
                    probe("sigchld_spurious")
                    st["perturbed"] += 1
                    if any(sp[c] is not None and reg_idx[c] is not None and sp[c].proc.sim_running()
                           for c in range(nC)):
                        probe("sigchld_while_registered_child_running")
                if any(exit_idx[c] is not None and exit_idx[c] < i - 1 for c in due):
                    probe("sigchld_late")
                    st["perturbed"] += 1
            if lost:
                probe("sigchld_before_registration")
                st["perturbed"] += 1
            chld.append((i, installed))
            loop.deliver_signal(SIGCHLD)

        async def pause(p):
            if p < 0:
                await loop.idle()
            else:
                for _ in range(min(p, 3)):
                    await asyncio.sleep(0)
            turn_worker()

        async def settle():
            for _ in range(6):
                await loop.idle()
                if not turn_worker():
                    break

        async def main():
            for i, op in enumerate(ops):
                kind, c, p = op
                st["i"] = i
                try:
                    if kind in ("spawn", "exit", "reg"):
                        if c >= nC:
                            continue
                        if sp[c] is None:
                            on_loop_of(c, lambda: spawn(c))
                    if kind == "exit":
                        if exit_idx[c] is None:
                            sp[c].proc.sim_exit(status[c])
                            exit_idx[c] = i
                    elif kind == "reg":
                        if reg_idx[c] is None:
                            was_init = st["init"]
                            reg_idx[c] = i
                            st["init"] = True
                            st["inject"] = False
                            try:
                                on_loop_of(c, lambda: register(c))
                            except RuntimeError:
                                if not st["inject"]:
                                    raise
                                # the SIGCHLD handler could not be installed from the worker
                                # "thread": this registration did not happen
                                reg_idx[c] = None
                                st["init"] = was_init
                                st["perturbed"] += 1
                                probe("registration_refused_on_worker_loop")
                            else:
                                if on_worker[c]:
                                    probe("registered_on_worker_loop")
                                if exit_idx[c] is not None:
                                    probe("exit_before_registration")
                                    st["perturbed"] += 1
                    elif kind == "chld":
                        deliver(i)
                    elif kind == "uninit":
                        if st["init"]:
                            probe("uninitialize_with_handler")
                            st["perturbed"] += 1
                        tp.Subprocess.uninitialize()
                        st["init"] = False
                    elif kind == "init":
                        tp.Subprocess.initialize()
                        st["init"] = True
                except SeamBreach:
                    raise
                except Exception as e:
                    bad("api.raised", f"op {i} {kind}({c}) raised {type(e).__name__}: {e}",
                        f"api.raised/{kind}/{type(e).__name__}")
                await pause(p)
            await settle()
            # kernel: a SIGCHLD is delivered at or after the last exit
            last_exit = max((x for x in exit_idx if x is not None), default=None)
            if last_exit is not None and not any(ci > last_exit for ci, _ in chld):
                probe("epilogue_sigchld")
                deliver(len(ops))
            await settle()

        with Installed(world, env.breaches):
            run_status = env.run(main())
            waiting = list(tp.Subprocess._waiting.items())
            handler_left = SIGCHLD in loop.signal_handlers
            if wloop is not None:
                # end of the worker "thread": nothing of it may leak into the next run
                try:
                    for t in asyncio.all_tasks(wloop):
                        t.cancel()
                    for h in list(wloop._scheduled):
                        h.cancel()
                    turn_worker(force=True)
                    from tornado.ioloop import IOLoop
                    IOLoop._ioloop_for_asyncio.pop(wloop, None)
                    wloop._ready.clear()
                    wloop.close()
                except Exception as e:  # pragma: no cover
                    bad("harness.worker_loop_cleanup", repr(e))

        if run_status != "done":
            bad("harness.run_status", f"{run_status}: {getattr(env, 'main_exception', None)!r}",
                "harness.run_status/" + run_status)

        reported = 0
        for c in range(nC):
            if sp[c] is None:
                continue
            ch = children[c]
            exp = returncode_of(status[c])
            exited = exit_idx[c] is not None
            registered = reg_idx[c] is not None
            stk = "signal" if ch["sig"] else ("zero" if ch["code"] == 0 else "nonzero")
            due = False
            timing = "-"
            if exited and registered:
                if exit_idx[c] < reg_idx[c]:
                    due = True
                    timing = "exit_before_registration"
                else:
                    timing = "exit_after_registration"
                    probe("exit_after_registration")
                    lim = max(exit_idx[c], reg_idx[c])
                    due = any(ci > lim and inst for ci, inst in chld)
                if not due:
                    probe("report_not_due")
            if ch["mode"] == 0 or not registered:
                calls = cb_calls[c]
                if calls:
                    reported += 1
                    if on_worker[c]:
                        probe("reported_on_worker_loop")
                if len(calls) > 1:
                    bad("callback.more_than_once", f"child {c}: exit callback ran {len(calls)} times "
                        f"with {calls}", "callback.more_than_once")
                if due and not calls:
                    bad("callback.never", f"child {c} ({timing}): exited with status "
                        f"{status[c]:#x}, exit callback never ran", f"callback.never/{timing}")
                if calls and not exited:
                    bad("callback.before_exit", f"child {c}: callback ran, child still running")
                for v in calls:
                    if v != exp:
                        bad("callback.wrong_status", f"child {c}: wait status {status[c]:#x} "
                            f"reported as {v!r}, expected {exp}", f"callback.wrong_status/{stk}")
                        break
                if not calls:
                    continue
            else:
                f = futs[c]
                raise_error = ch["mode"] in (1, 2)
                if f is None:
                    continue
                seen = wres[c]
                if seen is None:
                    if f.done() and not f.cancelled():
                        f.exception()  # retrieved
                    if due:
                        how = ("future still pending" if not f.done() else
                               "future was completed but the coroutine awaiting it on its own "
                               "event loop was never resumed")
                        where = "worker_loop" if on_worker[c] else "main_loop"
                        bad("wait.never_resolves", f"child {c} ({timing}, {where}): exited with "
                            f"status {status[c]:#x}, {how}",
                            f"wait.never_resolves/{timing}" + ("/worker_loop" if on_worker[c] else ""))
                    continue
                reported += 1
                if on_worker[c]:
                    probe("reported_on_worker_loop")
                if not exited:
                    bad("wait.before_exit", f"child {c}: future resolved, child still running")
                exc = seen[1] if seen[0] == "exc" else None
                if exc is None:
                    v = seen[1]
                    if raise_error and exp != 0:
                        bad("wait.no_error_raised", f"child {c}: status {exp} with raise_error set "
                            f"resolved with {v!r} instead of CalledProcessError",
                            f"wait.no_error_raised/{stk}")
                    elif v != exp:
                        bad("wait.wrong_status", f"child {c}: wait status {status[c]:#x} resolved "
                            f"as {v!r}, expected {exp}", f"wait.wrong_status/{stk}")
                    else:
                        probe("wait_resolved_value")
                elif not isinstance(exc, tp.CalledProcessError):
                    bad("wait.wrong_exception", f"child {c}: {type(exc).__name__}: {exc}",
                        f"wait.wrong_exception/{type(exc).__name__}")
                elif not raise_error:
                    bad("wait.raised_though_raise_error_false", f"child {c}: CalledProcessError("
                        f"{exc.returncode}) with raise_error=False",
                        "wait.raised_though_raise_error_false")
                elif exp == 0:
                    bad("wait.raised_for_zero_status", f"child {c}: CalledProcessError for status 0")
                elif exc.returncode != exp:
                    bad("wait.wrong_status", f"child {c}: CalledProcessError.returncode="
                        f"{exc.returncode!r}, expected {exp}", f"wait.wrong_status/{stk}/error")
                else:
                    probe("wait_raised_called_process_error")
            if exited:
                if ch["sig"]:
                    probe("reported_signal")
                    if ch["core"]:
                        probe("reported_signal_core_flag")
                elif ch["code"]:
                    probe("reported_nonzero")
                else:
                    probe("reported_zero")
        # nothing that was reaped may still be waited for
        for wpid, obj in waiting:
            who = [c for c in range(nC) if sp[c] is obj]
            if not who:
                bad("waiting.foreign_entry", f"pid {wpid} in Subprocess._waiting is not ours")
            elif sp[who[0]].proc.sim_reaped() or wpid != pid[who[0]]:
                bad("waiting.stale_entry", f"child {who[0]} (pid {wpid}) was reaped but is still in "
                    "Subprocess._waiting")
        if waiting:
            probe("still_waiting_at_end")
        spawned = [c for c in range(nC) if sp[c] is not None]
        if spawned and all(sp[c].proc.sim_reaped() for c in spawned):
            probe("all_children_reaped")
        if sum(1 for c in spawned if reg_idx[c] is not None) >= 2:
            probe("concurrent_registered_children")
        # errors: only the callbacks the scenario made raise may log
        errs = env.errors()
        if len(errs) != st["raised"] or env.loop_errors:
            what = [f"{r[0]} {r[3]}" for r in errs] + [f"loop: {m} {t}" for m, t in env.loop_errors]
            kinds = sorted({r[3] or "-" for r in errs} | {t or "-" for _, t in env.loop_errors})
            bad("subprocess.error_logged", f"{len(errs)} error record(s), {st['raised']} expected "
                f"from raising callbacks; {what[:3]}",
                "subprocess.error_logged/" + ",".join(kinds))
        if st["raised"]:
            probe("callback_raised")
        if handler_left:
            probe("handler_installed_at_end")
        stt = env.stats()
        for k_, v in world.faults.items():
            stt["faults"][k_] = stt["faults"].get(k_, 0) + v
        for k_ in ("sigchld_spurious", "sigchld_coalesced", "sigchld_late", "sigchld_without_handler",
                   "sigchld_before_registration", "exit_before_registration", "callback_raised",
                   "uninitialize_with_handler"):
            if probes.get(k_):
                stt["faults"][k_] = probes[k_]
        stt["probes"].update(probes)
        stt["probes"]["waitpid_calls"] = world.waitpid_calls
        outcome = {"callbacks": cb_calls, "reported": reported, "status": run_status}
        nontrivial = reported >= 1 and st["perturbed"] >= 1
        return {"violations": viol, "nontrivial": nontrivial, "stats": stt,
                "log_head": env.log.head, "log_full": env.log.full, "outcome": outcome}
