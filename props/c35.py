"""C35 - queues conserve items and match their ordering discipline.

Real tornado.queues.Queue / LifoQueue / PriorityQueue (maxsize 0..3) on the
SimLoop, driven op by op together with ref.models_sync.QueueModel (shared
machinery in props/_syncrig.py).  Ops: put / put_nowait / get / get_nowait
(put and get with optional timeout), task_done, join([timeout]), cancel of a
handed-out future.  join is an Event wait (see C34 for the allowed-set rule of
waits with a timeout).  An epilogue drains the queue with get_nowait, calls
task_done until the model's count is zero and once more, and then checks
conservation from observations only.
"""

from sim.env import SimEnv
from props import _syncrig as R
from ref.models_sync import QueueModel, PENDING, OK, WOKEN, EITHER

ID = "C35"
LEVEL = "exploration"
QUICK_N = 40000
THOROUGH_N = 1600000
CHUNK = 500
RULE = ("gen(seed): queue class (Queue | LifoQueue | PriorityQueue), maxsize 0..3, 3..24 ops "
        "(put/get [abs deadline | timedelta | zero | past], put_nowait, get_nowait, task_done, "
        "join [timeout], cancel), distinct int items (priority = item // 64), a gap before every "
        "op (same callback | one iteration | idle | advance to a pending deadline -1/0/+1 | "
        "advance d), lateness tape; swarm weights per run. non-trivial = measured in the "
        "generated part of the run: >=1 blocked getter or putter later served by the opposite "
        "operation AND >=1 put/get/join future timed out or was cancelled; distinct = distinct "
        "scenario hash")
COMPONENTS = {
    "real": ["tornado.queues.Queue/LifoQueue/PriorityQueue/_set_timeout", "tornado.locks.Event",
             "tornado.gen.with_timeout/chain_future", "tornado.ioloop.IOLoop.add_timeout/"
             "remove_timeout", "tornado.platform.asyncio.BaseAsyncIOLoop.call_at",
             "asyncio.Future/Handle/TimerHandle"],
    "stub": ["event loop clock + timer dispatch (sim.loop.SimLoop)", "time.time (SimEnv proxy)",
             "iteration order of Queue._finished._waiters (tornado._verif.OrderedSet, permuted)"],
}
ASSUMPTIONS = [
    "a blocked put/get counts as timed out from the moment its future carries TimeoutError, not "
    "from its deadline",
    "when a get finds a full queue with a blocked putter, the item returned may be chosen before "
    "or after the putter's item enters the queue (differs only for LIFO / priority queues): the "
    "blocked put is concurrent with the get, so it may take effect on either side of it; choosing "
    "first is the order a strictly bounded queue dictates (the queue never holds maxsize+1 items), "
    "admitting first is what Tornado does (an atomic exchange, never observable as qsize > maxsize)",
    "join(timeout): unfinished reaching 0 at/after the deadline but before the timer callback "
    "was observed to have run may legally complete the join or raise TimeoutError",
    "resolution order is compared among blocked getters/putters; join futures are excluded",
]

KINDS = ("fifo", "lifo", "prio")


def gen(rng, tier, index):
    kind = rng.choice(KINDS)
    maxsize = rng.choice([0, 1, 1, 2, 2, 3])
    nops = rng.randint(3, 24)
    if tier == "thorough" and rng.random() < 0.2:
        nops = rng.randint(20, 40)
    p_to = rng.choice([0.0, 0.4, 0.7, 0.7, 1.0])
    w = rng.choice([
        # put  putn  get  getn  done  join  cancel
        (0.28, 0.08, 0.28, 0.08, 0.12, 0.10, 0.06),
        (0.40, 0.10, 0.20, 0.05, 0.10, 0.10, 0.05),  # producer-heavy: putters block
        (0.18, 0.05, 0.42, 0.08, 0.10, 0.10, 0.07),  # consumer-heavy: getters block
        (0.22, 0.08, 0.22, 0.08, 0.20, 0.20, 0.00),  # accounting
        (0.25, 0.05, 0.25, 0.05, 0.05, 0.10, 0.25),  # cancellations
    ])
    mix = rng.choice(R.GAP_MIXES)
    ops = []
    used = set()
    tn = 0
    serial = 0
    for i in range(nops):
        g = R.gen_gap(rng, mix) if i else ["none"]
        if g[0] == "adv":
            tn += g[1]
        elif g[0] == "dl":
            fut = [x for x in used if x >= tn]
            if fut:
                tn = min(fut)
        r = rng.random()
        acc = 0.0
        k = 6
        for j, p in enumerate(w):
            acc += p
            if r < acc:
                k = j
                break
        if k in (0, 1):
            serial += 1
            item = rng.randrange(4) * 64 + (serial % 64)
            if k == 0:
                ops.append({"op": "put", "item": item, "t": R.gen_timeout(rng, p_to, used, tn),
                            "gap": g})
            else:
                ops.append({"op": "putn", "item": item, "gap": g})
        elif k == 2:
            ops.append({"op": "get", "t": R.gen_timeout(rng, p_to, used, tn), "gap": g})
        elif k == 3:
            ops.append({"op": "getn", "gap": g})
        elif k == 4:
            ops.append({"op": "done", "gap": g})
        elif k == 5:
            ops.append({"op": "join", "t": R.gen_timeout(rng, max(p_to, 0.4), used, tn), "gap": g})
        else:
            ops.append({"op": "cancel", "w": rng.randrange(8), "gap": g})
    return {"property": ID, "version": 1, "obj": {"kind": kind, "maxsize": maxsize}, "ops": ops,
            "permute": rng.choice([0, 0, 1, 2, 64, 65]), "tapes": R.gen_tapes(rng)}


def validate(scn):
    try:
        o = scn["obj"]
        if o["kind"] not in KINDS or not isinstance(o["maxsize"], int) or not 0 <= o["maxsize"] <= 8:
            return False
        for op in scn["ops"]:
            k = op["op"]
            if k not in ("put", "putn", "get", "getn", "done", "join", "cancel"):
                return False
            if not R.valid_gap(op.get("gap")):
                return False
            if k in ("put", "get", "join") and not R.valid_timeout(op.get("t")):
                return False
            if k in ("put", "putn") and not (isinstance(op.get("item"), int) and op["item"] >= 0):
                return False
            if k == "cancel" and not (isinstance(op.get("w"), int) and op["w"] >= 0):
                return False
        return isinstance(scn.get("permute", 0), int) and isinstance(scn.get("tapes", {}), dict)
    except Exception:
        return False


def run(scn, full_log=False):
    from tornado import queues, _verif

    kind = scn["obj"]["kind"]
    maxsize = scn["obj"]["maxsize"]
    viol = []
    probes = {}
    outcome = {}

    with SimEnv(scn.get("tapes"), max_iters=20000, full_log=full_log) as env:
        _verif.OrderedSet.permute = R.permuter(scn.get("permute", 0))
        model = QueueModel(kind, maxsize)
        rig = R.Rig(env, model, "queue", viol, probes)
        bad, probe = rig.bad, rig.probe
        st = {"q": None}
        put_items = {}  # wid -> item of a put() future
        putn_ok = []  # items accepted by put_nowait
        getn_got = []  # items returned by get_nowait
        gmirror = []  # blocked getters / putters in arrival order incl. dead (probes)
        pmirror = []

        def served(mirror, wid, name):
            dead = 0
            while mirror and mirror[0] != wid:
                mirror.pop(0)
                dead += 1
            if mirror:
                mirror.pop(0)
            if dead:
                probe(name)

        def do_op(op):
            q = st["q"]
            now = rig.now()
            k = op["op"]
            if k == "put":
                has, arg, dl = rig.timeout(op.get("t"))
                wid = rig.new_wid()
                item = op["item"]
                try:
                    fut = q.put(item, arg) if has else q.put(item)
                except Exception as e:
                    bad("queue.put_raised", f"put raised {type(e).__name__}: {e}",
                        f"queue.put_raised/{type(e).__name__}")
                    return
                s, res = model.put(wid, item, dl, now)
                put_items[wid] = item
                rig.track(wid, fut)
                rig.after_create(wid)
                rig.resolved_by_op(res)
                if s == PENDING:
                    pmirror.append(wid)
                    probe("put_blocked")
                if res:
                    probe("put_serves_blocked_getter")
                    served(gmirror, res[0], "put_skips_dead_getter")
                env.log.ev("put", wid, item, s, tuple(res))
            elif k == "putn":
                item = op["item"]
                exc = None
                try:
                    q.put_nowait(item)
                except queues.QueueFull:
                    exc = "QueueFull"
                except Exception as e:
                    exc = type(e).__name__
                mexc, res = model.put_nowait(item)
                rig.resolved_by_op(res)
                if exc is None:
                    putn_ok.append(item)
                if exc != mexc:
                    if exc is None:
                        bad("queue.put_nowait_accepted_when_full",
                            f"put_nowait({item}) accepted with qsize {model.qsize()} == maxsize "
                            f"{maxsize} (model: {mexc})")
                    else:
                        bad("queue.put_nowait_raised", f"put_nowait({item}) raised {exc}; model: "
                            f"{mexc}", f"queue.put_nowait_raised/{exc}")
                if mexc:
                    probe("put_nowait_queue_full")
                if res:
                    probe("put_serves_blocked_getter")
                    served(gmirror, res[0], "put_skips_dead_getter")
                env.log.ev("putn", item, exc, tuple(res))
            elif k == "get":
                has, arg, dl = rig.timeout(op.get("t"))
                wid = rig.new_wid()
                try:
                    fut = q.get(arg) if has else q.get()
                except Exception as e:
                    bad("queue.get_raised", f"get raised {type(e).__name__}: {e}",
                        f"queue.get_raised/{type(e).__name__}")
                    return
                observed = None
                if fut.done() and not fut.cancelled() and fut.exception() is None:
                    observed = fut.result()
                cands = model.get_candidates()
                if len(cands) > 1:
                    probe("get_with_putter_handoff_two_legal_items")
                    if observed == cands[1]:
                        # legal (strict bounded-queue order: pop, then admit), not what
                        # Tornado does; only appears in the table when it happens
                        probe("handoff_item_chosen_before_putter_admitted")
                s, res = model.get(wid, dl, now, observed)
                rig.track(wid, fut)
                rig.after_create(wid)
                rig.resolved_by_op(res)
                if s == PENDING:
                    gmirror.append(wid)
                    probe("get_blocked")
                if res:
                    probe("get_admits_blocked_putter")
                    served(pmirror, res[0], "get_skips_dead_putter")
                env.log.ev("get", wid, s, observed, tuple(res))
            elif k == "getn":
                exc = None
                item = None
                try:
                    item = q.get_nowait()
                except queues.QueueEmpty:
                    exc = "QueueEmpty"
                except Exception as e:
                    exc = type(e).__name__
                cands = model.get_candidates()
                if len(cands) > 1:
                    probe("get_with_putter_handoff_two_legal_items")
                    if exc is None and item == cands[1]:
                        probe("handoff_item_chosen_before_putter_admitted")
                mexc, mitem, res = model.get_nowait(item)
                rig.resolved_by_op(res)
                if exc is None:
                    getn_got.append(item)
                if exc != mexc:
                    bad("queue.get_nowait_outcome", f"get_nowait: real {exc or item!r}, model "
                        f"{mexc or mitem!r}", f"queue.get_nowait_outcome/{exc}/{mexc}")
                elif exc is None and item != mitem:
                    bad("queue.wrong_item", f"get_nowait returned {item!r}; {kind} discipline "
                        f"gives {mitem!r}", f"queue.wrong_item/{kind}")
                if mexc:
                    probe("get_nowait_queue_empty")
                if res:
                    probe("get_admits_blocked_putter")
                    served(pmirror, res[0], "get_skips_dead_putter")
                env.log.ev("getn", item, exc, tuple(res))
            elif k == "done":
                exc = None
                try:
                    q.task_done()
                except Exception as e:
                    exc = type(e).__name__
                mexc, hit = model.task_done(now)
                if exc != mexc:
                    if exc is None:
                        bad("queue.extra_task_done_silent", "task_done() beyond the number of puts "
                            "did not raise")
                    else:
                        bad("queue.task_done_raised", f"task_done raised {exc}; model {mexc}",
                            f"queue.task_done_raised/{exc}")
                if mexc:
                    probe("task_done_extra_raises")
                if hit:
                    probe("task_done_completes_join")
                for w in hit:
                    s = model.waiter(w).state
                    if s == EITHER:
                        probe("join_completion_at_or_after_deadline_before_timer_ran")
                env.log.ev("done", exc, tuple(hit))
            elif k == "join":
                has, arg, dl = rig.timeout(op.get("t"))
                wid = rig.new_wid()
                try:
                    fut = q.join(arg) if has else q.join()
                except Exception as e:
                    bad("queue.join_raised", f"join raised {type(e).__name__}: {e}",
                        f"queue.join_raised/{type(e).__name__}")
                    return
                s = model.join(wid, dl, now)
                rig.track(wid, fut)
                probe("join_blocked" if s == PENDING else "join_immediate")
                env.log.ev("join", wid, s)
            elif k == "cancel":
                rig.cancel(op["w"])
                env.log.ev("cancel", op["w"])
            # ---- public observations after the op
            n = q.qsize()
            if n != model.qsize():
                bad("queue.qsize", f"qsize() {n} ; model {model.qsize()}")
            if maxsize and n > maxsize:
                bad("queue.exceeds_maxsize", f"qsize() {n} > maxsize {maxsize}")
            if q.empty() != model.empty() or q.full() != model.full():
                bad("queue.empty_full", f"empty() {q.empty()} full() {q.full()} ; model "
                    f"{model.empty()} {model.full()}")

        async def main():
            cls = {"fifo": queues.Queue, "lifo": queues.LifoQueue, "prio": queues.PriorityQueue}
            st["q"] = cls[kind](maxsize=maxsize)
            done = await R.drive(rig, scn["ops"], do_op)
            outcome["ops_done"] = done
            outcome["blocked"] = len(rig.blocked)
            outcome["served"] = rig.n_served
            outcome["expired"] = rig.n_expired
            outcome["cancelled"] = rig.n_cancelled
            if viol:
                return
            # ---- epilogue
            dls = model.pending_deadlines()
            await R.drive(rig, [{"op": "nop", "gap": ["adv", max(1, (dls[-1] - rig.now() + 1)
                                                                if dls else 1)]}], do_op)
            k = 0
            while not viol and (model.get_candidates() or st["q"].qsize()) and k < 200:
                k += 1
                await R.drive(rig, [{"op": "getn", "gap": [("none", "yield")[k % 2]]}], do_op)
            k = 0
            while not viol and model.unfinished > 0 and k < 400:
                k += 1
                await R.drive(rig, [{"op": "done", "gap": ["none"]}], do_op)
            if viol:
                return
            await R.drive(rig, [{"op": "done", "gap": ["none"]}, {"op": "getn", "gap": ["idle"]},
                                {"op": "nop", "gap": ["idle"]}], do_op)
            if viol:
                return
            # conservation, from observations only
            puts = list(putn_ok)
            gots = list(getn_got)
            for wid, f in rig.futs.items():
                role = model.waiter(wid).role
                if f.done() and not f.cancelled() and f.exception() is None:
                    if role == "put":
                        puts.append(put_items[wid])
                    elif role == "get":
                        gots.append(f.result())
            if sorted(puts) != sorted(gots):
                lost = sorted(set(puts) - set(gots))
                extra = sorted(set(gots) - set(puts))
                bad("queue.conservation", f"after draining: successfully put {sorted(puts)}, "
                    f"handed out {sorted(gots)} (lost {lost}, invented/duplicated {extra})",
                    "queue.conservation/" + ("lost" if lost else "extra"))
            left = [w for w in rig.open if model.waiter(w).role != "get"]
            if left:
                bad("queue.waiter_left", f"non-getter waiters {left} unresolved after the epilogue")

        status = env.run(main())
        if status != "done":
            bad("harness." + status.split(":")[0],
                f"{status}: {getattr(env, 'main_exception', None)!r}")
        rig.check_order()
        rig.check_logs()
        if not viol:
            for pmsg in model.problems():
                bad("harness.model_invariant", pmsg)
        stt = env.stats()
        stt["probes"].update(probes)
        nontrivial = (outcome.get("served", 0) >= 1
                      and outcome.get("expired", 0) + outcome.get("cancelled", 0) >= 1)
        return {"violations": viol, "nontrivial": nontrivial, "stats": stt,
                "log_head": env.log.head, "log_full": env.log.full, "outcome": outcome}
