"""C09 - the HTTP client completes each fetch once, honours max_clients, redirects safely.

Real SimpleAsyncHTTPClient (one instance, max_clients 1..3) -> TCPClient -> IOStream on the
simulated network; N concurrent fetches against scripted raw servers: respond after a delay,
refuse, black-hole, reset mid-response, close silently, redirect chains (301/302/303/307/308;
absolute / relative / scheme-relative Location; other host, port, scheme; with userinfo).
Requests carry single and multi-valued Authorization / Cookie headers, URL credentials,
auth_username/auth_password; small connect/request timeouts make queue timeouts fire.

Every fetch i lives in its own name space (hosts o<i>.test, p<i>.test, sub.o<i>.test,
10.<i>.3.1; paths /f<i>/h<hop>), so every DNS query, socket and request seen by a server
is attributed to (fetch, hop) from the outside.
"""

import base64

from sim.env import SimEnv, UNIT

ID = "C09"
LEVEL = "exploration"
QUICK_N = 40000
THOROUGH_N = 900000
CHUNK = 400
RULE = ("gen(seed): 1..8 fetches (method, body, header sets built with HTTPHeaders.add, URL "
        "credentials, auth_username, timeouts on a per-run time scale, max_redirects; 12% with "
        "allow_nonstandard_methods: GET/DELETE/OPTIONS/QUERY with a body, POST without) submitted at "
        "generated instants to one client with max_clients 1..3; per fetch a chain of hops "
        "(target kind, Location form, redirect code, connect outcome/delay, response kind/delay, "
        "DNS delay/failure/never answering, or an 'odd' last hop whose Location urllib rejects or "
        "parses unusually; connect_timeout / request_timeout each None, a value or 0 = disabled); "
        "late/delay/recv_cap/defer/order tapes.  non-trivial = at least one "
        "request waited in the queue, or a redirect was followed, or (>=2 submissions and a timeout "
        "/ connect failure / DNS failure / reset fired); distinct = distinct scenario hash")
COMPONENTS = {
    "real": ["tornado.simple_httpclient.SimpleAsyncHTTPClient/_HTTPConnection",
             "tornado.httpclient.AsyncHTTPClient.fetch/HTTPRequest/HTTPResponse/_RequestProxy",
             "tornado.httputil.HTTPHeaders", "tornado.http1connection.HTTP1Connection",
             "tornado.tcpclient.TCPClient/_Connector", "tornado.netutil.DefaultLoopResolver",
             "tornado.iostream.IOStream", "tornado.ioloop.IOLoop (timeouts)", "asyncio.Future/Task"],
    "stub": ["event loop poller+clock (sim.loop.SimLoop)", "sockets (sim.net.SimSocket)",
             "getaddrinfo (scripted latency/failure)", "HTTP servers (sim.net.RawPeer scripts)",
             "time.time", "TLS: https targets refuse the TCP connection; what would be sent to "
             "them is observed at AsyncHTTPClient.fetch_impl (the documented subclass hook)"],
}
ASSUMPTIONS = [
    "one address per host name, so one socket per request (connection racing is C10)",
    "'in progress' is observed on the wire: a client socket that is open and belongs to a fetch "
    "whose future is not done, or that is transmitting; a socket left connecting to a black hole "
    "by a request that already timed out is not a request in progress",
    "start order is the order of getaddrinfo calls (first thing a started request does); "
    "submission order is the order of fetch_impl calls (redirect follow-ups are submissions)",
    "origin = (scheme, lower-case host, effective port); different origin than the ORIGINAL url",
    "https targets cannot be served (no TLS in the simulator): the follow-up request is inspected "
    "at fetch_impl (headers, url userinfo, auth_username) instead of on the wire",
    "a request that times out in the queue although fewer than max_clients earlier requests are "
    "still incomplete was starved: counted as 'did not start in order'",
]

REDIRECT_CODES = (301, 302, 303, 307, 308)
FINAL_CODES = (200, 200, 200, 204, 404, 500)
TARGETS = ("rel", "relpath", "same", "defport", "port", "host", "ip", "sub", "https", "odd")

# Location values that urllib refuses, parses oddly, or that name no usable target ("odd"
# hops; always the last hop of a chain).  {i} fetch, {j} hop, {ip} the fetch's literal address.
ODD_LOCATIONS = (
    "http://[::1/f{i}/h{j}",                       # unbalanced bracket: urlsplit raises
    "http://[o{i}.test]/f{i}/h{j}",                # bracketed non-address
    "http://ru:rp@{ip}:99999/f{i}/h{j}",           # cross-origin, userinfo, port out of range
    "http://ru:rp@{ip}:8o/f{i}/h{j}",              # ... non-numeric port
    "http://o{i}.test:99999/f{i}/h{j}",            # port out of range, no userinfo
    "http://o{i}.test:/f{i}/h{j}",                 # empty port
    "http:///f{i}/h{j}",                           # empty host
    "http://:80/f{i}/h{j}",                        # empty host with port
    "//p{i}.test\\@o{i}.test/f{i}/h{j}",          # backslash before @
    "http://p{i}.test\\f{i}\\h{j}",               # backslashes as separators
    "http://ru:r@p:x@p{i}.test/f{i}/h{j}",         # userinfo containing ':' and '@'
    "/f{i}/h{j}?" + "a" * 5000,                    # very long
    "http://p{i}.test/f{i}/h{j}/caf\xe9",          # obs-text
    "http://p{i}.test/f{i}/h{j}\t",                # trailing whitespace inside the value
    "ftp://p{i}.test/f{i}/h{j}",                   # unsupported scheme
    "",                                            # empty: the same URL again
    "http:f{i}/h{j}",                              # scheme without //
    "http://p{i}.test:80:80/f{i}/h{j}",            # two ports
)


def _ip(i, kind):
    return "10.%d.%d.1" % (i, {"o": 1, "p": 2, "ip": 3, "sub": 4}[kind])


def _resolve_hops(i, hops):
    """[(scheme, host, port, netloc_text)] per hop; hop 0 is the original target."""
    out = []
    cur = ("http", "o%d.test" % i, 80, "o%d.test" % i)
    for j, h in enumerate(hops):
        to = h.get("to", "same") if j else "same0"
        if to in ("rel", "relpath"):
            pass
        elif to in ("same", "same0"):
            cur = ("http", "o%d.test" % i, 80, "o%d.test" % i)
        elif to == "defport":
            cur = ("http", "o%d.test" % i, 80, "o%d.test:80" % i)
        elif to == "port":
            cur = ("http", "o%d.test" % i, 8080, "o%d.test:8080" % i)
        elif to == "host":
            cur = ("http", "p%d.test" % i, 80, "p%d.test" % i)
        elif to == "ip":
            cur = ("http", _ip(i, "ip"), 80, _ip(i, "ip"))
        elif to == "sub":
            cur = ("http", "sub.o%d.test" % i, 80, "sub.o%d.test" % i)
        elif to == "https":
            cur = ("https", "o%d.test" % i, 443, "o%d.test" % i)
        elif to == "odd":
            cur = ("odd", "", -1, "")
        out.append(cur)
    return out


def _host_ip(i, host):
    if host.startswith("10."):
        return host
    if host.startswith("sub."):
        return _ip(i, "sub")
    return _ip(i, "o" if host.startswith("o") else "p")


def _location(i, j, hop, tgt):
    to = hop.get("to", "same")
    path = "/f%d/h%d" % (i, j)
    if to == "odd":
        t = ODD_LOCATIONS[hop.get("loc", 0) % len(ODD_LOCATIONS)]
        return t.replace("{i}", str(i)).replace("{j}", str(j)).replace("{ip}", _ip(i, "ip"))
    if to == "rel":
        return path
    if to == "relpath":
        return "h%d" % j
    scheme, host, port, netloc = tgt
    ui = "ru%d:rp%d@" % (i, i) if hop.get("userinfo") else ""
    if hop.get("schemerel") and scheme == "http":
        return "//" + ui + netloc + path
    return scheme + "://" + ui + netloc + path


# --------------------------------------------------------------------------
# generation


def gen(rng, tier, index):
    thorough = tier == "thorough"
    n = rng.choice([1, 2, 2, 3, 3, 4, 5, 6, 8])
    max_clients = rng.choice([1, 1, 2, 2, 3])
    # one time scale per run so that delays and timeouts are comparable
    scale = rng.choice([8, 32, 128, 512])
    fetches = []
    # most runs keep redirect follow-ups healthy (failures at hop 0 only), so that a failing
    # follow-up - which has one dominant consequence - does not crowd out everything else
    clean = rng.random() < 0.85
    multi_ok = rng.random() < 0.15  # runs in which headers may be built with two add() calls
    for i in range(n):
        method = rng.choice(["GET"] * 5 + ["POST"] * 4 + ["HEAD", "PUT"])
        nh = rng.choice([1, 1, 1, 2, 2, 3, 4, 5] if not thorough else [1, 1, 2, 2, 3, 4, 5, 7])
        hops = []
        for j in range(nh):
            last = j == nh - 1
            hop = {
                "code": rng.choice(FINAL_CODES) if last else rng.choice(REDIRECT_CODES),
                "delay": rng.choice([0, 0, 1, scale // 4, scale, 2 * scale]),
                "resp": rng.choice(["ok"] * 12 + ["reset_mid", "close_silent", "never"]),
            }
            if j:
                hop["to"] = rng.choice(TARGETS[:-1])  # "odd" only as the last hop, below
                if hop["to"] not in ("rel", "relpath"):
                    if rng.random() < 0.2:
                        hop["userinfo"] = True
                    if rng.random() < 0.15:
                        hop["schemerel"] = True
            c = rng.random()
            if c < 0.08:
                hop["connect"] = "refuse"
            elif c < 0.14:
                hop["connect"] = "blackhole"
            if rng.random() < 0.3:
                hop["cdelay"] = rng.choice([1, scale // 2, scale, 2 * scale, 4 * scale])
            d = rng.random()
            if d < 0.2:
                hop["dns_delay"] = rng.choice([1, scale // 2, scale, 3 * scale])
            elif d < 0.24:
                hop["dns_fail"] = True
            if last and j and rng.random() < 0.12:
                hop["to"] = "odd"
                hop["loc"] = rng.randrange(len(ODD_LOCATIONS))
                hop.pop("userinfo", None)
                hop.pop("schemerel", None)
            if d >= 0.24 and d < 0.27:
                hop["dns_never"] = True
            if clean and nh > 1 and j >= 1:
                hop["resp"] = "ok"
                hop.pop("dns_never", None)
                hop.pop("connect", None)
                hop.pop("dns_fail", None)
                if hop.get("to") == "https":
                    hop["to"] = rng.choice(["port", "host", "ip", "sub", "same"])
            hops.append(hop)
        if clean and nh > 1:
            # the first hop must redirect for the chain to be exercised at all
            hops[0]["resp"] = "ok"
        f = {
            "at": rng.choice([0, 0, 0, 0, 1, scale // 2, scale, 3 * scale]),
            "method": method,
            "body": rng.choice([0, 1, 20, 300]) if method in ("POST", "PUT") else 0,
            "auth_hdr": rng.choice([0, 0, 1, 1, 2, 2] if multi_ok else [0, 0, 1, 1, 1]),
            "cookie": rng.choice([0, 1, 1, 2, 2] if multi_ok else [0, 1, 1, 1]),
            "hdr_dict": rng.random() < 0.15,
            "url_creds": rng.random() < 0.25,
            "auth_user": rng.random() < 0.2,
            "connect_timeout": rng.choice([None, None, scale // 2, scale, 2 * scale, 8 * scale]),
            "request_timeout": rng.choice([None, None, scale, 2 * scale, 4 * scale, 16 * scale]),
            "max_redirects": rng.choice([None, None, None, 0, 1, 2, 3]),
            "hops": hops,
        }
        # 0 = "no timeout", for each of the two separately.  Never generated: a request that
        # may legitimately stay pending (no request_timeout and a silent server; neither
        # timeout and a connection attempt that never finishes).
        z = rng.random()
        if z < 0.10:
            f["connect_timeout_zero"] = True
        elif z < 0.20:
            f["request_timeout_zero"] = True
        elif z < 0.23:
            f["connect_timeout_zero"] = f["request_timeout_zero"] = True
        if f.get("request_timeout_zero"):
            for h in hops:
                if h["resp"] == "never":
                    h["resp"] = "ok"
            if f.get("connect_timeout_zero"):
                for h in hops:
                    h.pop("dns_never", None)
                    if h.get("connect") == "blackhole":
                        h["connect"] = "refuse"
        if clean and nh > 1:
            f["connect_timeout"] = None
            f["request_timeout"] = None
        elif clean:
            # failing single-hop fetches must not occupy a slot for 20 s
            if f["request_timeout"] is None:
                f["request_timeout"] = 16 * scale
        if rng.random() < 0.12:
            # allow_nonstandard_methods: any method may carry a body (or a POST none)
            f["nonstd"] = True
            f["method"] = rng.choice(["GET", "GET", "GET", "DELETE", "OPTIONS", "QUERY", "POST"])
            f["has_body"] = rng.random() < (0.5 if f["method"] == "POST" else 0.8)
            f["body"] = rng.choice([0, 1, 20, 300])
            f["body_type"] = rng.random() < 0.6
        fetches.append(f)
    tapes = {}
    if rng.random() < 0.35:
        tapes["late"] = [rng.choice([0, 0, 1, 2, scale // 4, scale]) for _ in range(rng.randint(2, 12))]
    if rng.random() < 0.2:
        tapes["delay"] = [rng.choice([0, 1, 2, scale // 8]) for _ in range(8)]
    if rng.random() < 0.2:
        tapes["recv_cap"] = {"v": [rng.choice([0, 1, 7, 40])
                                   for _ in range(rng.randint(1, 8))], "cycle": True}
    if rng.random() < 0.15:
        tapes["defer"] = [rng.choice([0, 1]) for _ in range(10)]
    if rng.random() < 0.15:
        tapes["order"] = [rng.choice([0, 1, 2, 65]) for _ in range(10)]
    if rng.random() < 0.1:
        tapes["send_cap"] = [rng.choice([0, 3, 50, -1]) for _ in range(8)]
    return {"property": ID, "version": 1, "knobs": {"max_clients": max_clients},
            "fetches": fetches, "tapes": tapes}


def validate(scn):
    try:
        mc = scn["knobs"]["max_clients"]
        if not isinstance(mc, int) or mc < 1:
            return False
        fs = scn["fetches"]
        if not fs or len(fs) > 9:
            return False
        for f in fs:
            if f.get("method") not in ("GET", "POST", "HEAD", "PUT") and not (
                    f.get("nonstd") and f.get("method") in ("DELETE", "OPTIONS", "QUERY")):
                return False
            if any(h.get("to") == "odd" for h in f["hops"][:-1]):
                return False
            if not f["hops"] or not all(isinstance(h, dict) for h in f["hops"]):
                return False
            for h in f["hops"]:
                if h.get("to", "same") not in TARGETS:
                    return False
                if not 200 <= h.get("code", 200) <= 599:
                    return False
        return True
    except Exception:
        return False


# --------------------------------------------------------------------------

_CLIENT_CLS = {}


def _client_class():
    from tornado import simple_httpclient
    cls = _CLIENT_CLS.get(simple_httpclient)
    if cls is None:
        class RecordingClient(simple_httpclient.SimpleAsyncHTTPClient):
            """fetch_impl is the documented implementation hook of AsyncHTTPClient: every
            submission (user fetch or redirect follow-up) passes through it."""
            on_submit = None

            def fetch_impl(self, request, callback):
                cb = callback
                hook = self.on_submit
                if hook is not None:
                    cb = hook(request, callback)
                super().fetch_impl(request, cb)
        cls = _CLIENT_CLS[simple_httpclient] = RecordingClient
    return cls


def _units(v):
    return None if v is None else max(1, v) * UNIT


def _dechunk(data):
    """Body of a chunked request as sent by the client (well-formed by construction)."""
    out = bytearray()
    pos = 0
    while True:
        eol = data.find(b"\r\n", pos)
        if eol < 0:
            return bytes(out)
        try:
            n = int(data[pos:eol], 16)
        except ValueError:
            return bytes(out)
        if n == 0:
            return bytes(out)
        out += data[eol + 2:eol + 2 + n]
        pos = eol + 2 + n + 2


def _parse_path(path):
    """'/f3/h2' -> (3, 2) or None"""
    try:
        a, b = path.split("?")[0].strip("/").split("/")[:2]
        if a[0] == "f" and b[0] == "h":
            return int(a[1:]), int(b[1:])
    except Exception:
        pass
    return None


def run(scn, full_log=False):
    import asyncio
    from tornado.httpclient import HTTPRequest
    from tornado.httputil import HTTPHeaders

    fetches = scn["fetches"]
    max_clients = scn["knobs"]["max_clients"]
    nf = len(fetches)
    viol = []
    seen_keys = set()
    probes = {}

    def bad(rule, msg, key=None):
        key = key or rule
        if key in seen_keys:
            return
        seen_keys.add(key)
        # rule == key: shrinking must not drift into the class of another (known) defect
        viol.append({"rule": key, "key": key, "msg": msg})

    def probe(name, k=1):
        probes[name] = probes.get(name, 0) + k

    targets = [_resolve_hops(i, f["hops"]) for i, f in enumerate(fetches)]
    has_odd = [any(h.get("to") == "odd" for h in f["hops"][1:]) for f in fetches]
    # May fetch i legitimately stay pending?  Only with no request_timeout and a server that
    # never answers, or with neither timeout and a connection attempt (or a wait for a slot
    # held by such a fetch) that never ends.  0 = no timeout; None = the 20 s default.
    ct0 = [bool(f.get("connect_timeout_zero")) for f in fetches]
    rt0 = [bool(f.get("request_timeout_zero")) for f in fetches]
    basic = []
    for i, f in enumerate(fetches):
        silent = any(h.get("resp") == "never" for h in f["hops"])
        stall = any(h.get("connect") == "blackhole" or h.get("dns_never") for h in f["hops"])
        basic.append((rt0[i] and silent) or (ct0[i] and rt0[i] and stall))
    may_never = [basic[i] or (ct0[i] and rt0[i] and any(basic)) for i in range(nf)]
    # secrets of fetch i
    secrets = []
    for i, f in enumerate(fetches):
        s = {"auth": ["Bearer SECRETa%dx%d" % (i, k) for k in range(f.get("auth_hdr") or 0)],
             "cookie": ["sid%d=SECRETc%dx%d" % (k, i, k) for k in range(f.get("cookie") or 0)],
             "url": ("uu%d" % i, "SECRETu%d" % i) if f.get("url_creds") else None,
             "user": ("au%d" % i, "SECRETp%d" % i) if f.get("auth_user") else None}
        b64 = []
        for cred in (s["url"], s["user"]):
            if cred:
                b64.append(base64.b64encode(("%s:%s" % cred).encode()).decode())
        s["b64"] = b64
        secrets.append(s)

    with SimEnv(scn.get("tapes"), max_iters=400_000, full_log=full_log) as env:
        loop = env.loop
        net = env.net
        subs = []  # submissions in fetch_impl order: dict(i, j, t, callbacks, started, done, ...)
        sub_by = {}
        starts = []  # (i, j) in getaddrinfo order
        dns_count = [0] * nf
        received = {}  # (i, j) -> list of dict(raw, ip, port)
        fut_done = [0] * nf
        results = [None] * nf
        futs = [None] * nf
        state = {"max_open": 0, "client": None}

        def owner_of(sock):
            pa = sock.peer_addr
            if not pa:
                return None
            try:
                return int(pa[0].split(".")[1])
            except Exception:
                return None

        sock_hop = {}  # fd -> (i, j): the hop that was starting when the socket appeared

        def hop_over(s):
            """True if the request this socket was opened for is over (its completion callback
            ran, or its redirect follow-up was submitted, or the whole fetch completed)."""
            o = owner_of(s)
            if o is None or o >= nf:
                return False
            if fut_done[o]:
                return True
            ij = sock_hop.get(s._fd)
            if ij is None:
                ij = sock_hop[s._fd] = (o, dns_count[o] - 1)
            rec = sub_by.get(ij)
            return rec is not None and (rec["done"] is not None or rec.get("superseded") is not None)

        def check_open(sending=None, where=""):
            n = 0
            for s in net.created:
                if s.closed:
                    continue
                if s is sending or not hop_over(s):
                    n += 1
            if n > state["max_open"]:
                state["max_open"] = n
            if n > max_clients:
                zombie = sending is not None and hop_over(sending)
                bad("c09.max_clients_exceeded",
                    f"{n} client connections in progress with max_clients={max_clients} ({where})",
                    "c09.max_clients_exceeded" + ("/request_sent_after_its_fetch_completed"
                                                  if zombie else ""))

        net.send_tap = lambda sock, data: check_open(sock, "while sending")

        # ---- servers
        async def script(peer, key):
            check_open(None, "on connect")
            for cs in net.created:
                if cs._fd == peer.remote_fd and not cs.closed and hop_over(cs):
                    probe("connect_completed_after_request_was_over")
            idx = await peer.wait_for(b"\r\n\r\n")
            if idx < 0:
                return
            head = bytes(peer.received[:idx + 4])
            lines = head.split(b"\r\n")
            rl = lines[0].split(b" ")
            cl = 0
            for ln in lines[1:]:
                if ln[:15].lower() == b"content-length:":
                    try:
                        cl = int(ln[15:].strip())
                    except ValueError:
                        cl = 0
            chunked = b"\r\ntransfer-encoding: chunked\r\n" in head.lower()
            if chunked:
                await peer.wait_for(b"0\r\n\r\n", idx + 4)
            else:
                await peer.wait_bytes(idx + 4 + cl)
            raw = bytes(peer.received)
            method = rl[0].decode("latin1")
            ij = _parse_path(rl[1].decode("latin1")) if len(rl) > 1 else None
            env.log.ev("req", key[0], key[1], method, rl[1] if len(rl) > 1 else b"", len(raw))
            if ij is None or ij[0] >= nf or ij[1] >= len(fetches[ij[0]]["hops"]):
                if not peer.closed:
                    peer.send(b"HTTP/1.1 404 Not Found\r\nContent-Length: 0\r\n\r\n")
                    peer.half_close()
                return
            i, j = ij
            received.setdefault(ij, []).append({"raw": raw, "ip": key[0], "port": key[1],
                                                "method": method, "head": head,
                                                "body": _dechunk(raw[idx + 4:]) if chunked
                                                else raw[idx + 4:]})
            hop = fetches[i]["hops"][j]
            d = hop.get("delay", 0)
            if d:
                await asyncio.sleep(d * UNIT)
            if peer.ended() and peer.got_rst:
                return
            kind = hop.get("resp", "ok")
            if kind == "never":
                await peer.wait_eof()
                return
            if kind == "close_silent":
                peer.half_close()
                return
            code = hop.get("code", 200)
            last = j == len(fetches[i]["hops"]) - 1
            body = b"" if (method == "HEAD" or code in (204, 304)) else b"f%dh%d" % (i, j)
            hdr = b"HTTP/1.1 %d X\r\n" % code
            if not last:
                loc = _location(i, j + 1, fetches[i]["hops"][j + 1], targets[i][j + 1])
                hdr += b"Location: " + loc.encode("latin1") + b"\r\n"
                nxt = fetches[i]["hops"][j + 1]
                if nxt.get("to") == "odd":
                    probe("odd_location_sent_%02d" % (nxt.get("loc", 0) % len(ODD_LOCATIONS)))
            if code != 204:
                hdr += b"Content-Length: %d\r\n" % (len(b"f%dh%d" % (i, j)) if method == "HEAD"
                                                  else len(body))
            hdr += b"\r\n"
            data = hdr + body
            if kind == "reset_mid":
                peer.send(data[:max(1, len(data) // 2)])
                peer.reset(delay=1)
                return
            peer.send(data)
            peer.half_close()

        def make_factory(key):
            return lambda peer: loop.create_task(script(peer, key))

        # ---- DNS table and listeners
        never_hosts = set()
        for i, f in enumerate(fetches):
            for j, h in enumerate(f["hops"]):
                scheme, host, port, _ = targets[i][j]
                if scheme == "odd":
                    # whatever the client makes of the Location, the fetch's usual hosts exist
                    for hn, kind in (("o%d.test" % i, "o"), ("p%d.test" % i, "p")):
                        loop.dns.setdefault(hn, {"addrs": [[2, _ip(i, kind)]]})
                    for key in ((_ip(i, "o"), 80), (_ip(i, "p"), 80), (_ip(i, "ip"), 80)):
                        if key not in net.listeners:
                            net.connect_script.setdefault(key, {"outcome": "accept", "delay": 0})
                            net.raw_listen(key[0], key[1], make_factory(key))
                    continue
                ip = _host_ip(i, host)
                if not host.startswith("10."):
                    ent = loop.dns.setdefault(host, {"addrs": [[2, ip]]})
                    if h.get("dns_delay"):
                        ent["delay"] = max(ent.get("delay", 0), h["dns_delay"])
                    if h.get("dns_fail"):
                        ent["fail"] = True
                if h.get("dns_never"):
                    never_hosts.add(host)
                key = (ip, port)
                if scheme == "https":
                    net.connect_script[key] = {"outcome": "refuse", "delay": h.get("cdelay", 0)}
                    continue
                cs = net.connect_script.get(key)
                if cs is None:
                    net.connect_script[key] = {"outcome": h.get("connect", "accept"),
                                               "delay": h.get("cdelay", 0)}
                if key not in net.listeners:
                    net.raw_listen(ip, port, make_factory(key))


        # ---- DNS observation
        orig_gai = loop.getaddrinfo

        async def gai(host, port, **kw):
            h = host.decode("latin1") if isinstance(host, bytes) else host
            i = None
            try:
                if h.startswith("10."):
                    i = int(h.split(".")[1])
                else:
                    i = int(h.split(".")[-2][1:])
            except Exception:
                i = None
            if i is not None and i < nf:
                j = dns_count[i]
                dns_count[i] += 1
                starts.append((i, j))
                s = sub_by.get((i, j))
                if s is not None:
                    s["started"] = loop.time()
            if h in never_hosts:
                loop.faults["dns_never"] += 1
                await loop.create_future()  # a resolver that never answers
            return await orig_gai(host, port, **kw)

        loop.getaddrinfo = gai

        # ---- submissions
        def on_submit(request, callback):
            url = request.url
            ij = None
            try:
                first = getattr(request, "original_request", None)
                u0 = url if first is None else first.url
                i0 = _parse_path("/" + u0.split("://", 1)[1].split("/", 1)[1])[0]
                ij = (i0, sum(1 for x in subs if x["ij"] is not None and x["ij"][0] == i0))
            except Exception:
                ij = None
            if ij is not None and not has_odd[ij[0]]:
                try:
                    pij = _parse_path("/" + url.split("://", 1)[1].split("/", 1)[1])
                except Exception:
                    pij = None
                if pij is not None and pij != ij:
                    bad("c09.hop_submitted_twice", f"submission number {ij[1]} of fetch {ij[0]} "
                                                   f"asks for hop {pij} (delegate finish() ran twice?)")
            rec = {"ij": ij, "t": loop.time(), "callbacks": 0, "started": None, "done": None,
                   "url": url, "headers": list(request.headers.get_all()),
                   "auth_username": request.auth_username, "auth_password": request.auth_password,
                   "method": request.method, "body": request.body, "queue_timeout": False,
                   "n": len(subs)}
            subs.append(rec)
            if ij is not None:
                sub_by[ij] = rec
                if ij[1] > 0:
                    prev = sub_by.get((ij[0], ij[1] - 1))
                    if prev is not None and prev["done"] is None:
                        prev["superseded"] = loop.time()
            env.log.ev("submit", ij[0] if ij else -1, ij[1] if ij else -1)

            def cb(response):
                rec["callbacks"] += 1
                if rec["callbacks"] > 1:
                    bad("c09.callback_twice", f"the completion callback of hop {ij} was invoked "
                                              f"{rec['callbacks']} times")
                rec["done"] = loop.time()
                rec["code"] = response.code
                err = getattr(response, "error", None)
                # (a follow-up's queue timeout is handed down the redirect chain: it is the
                # timeout of *this* hop only if this hop never started)
                if response.code == 599 and err is not None and rec["started"] is None \
                        and "in request queue" in str(err):
                    rec["queue_timeout"] = True
                    # starvation: fewer than max_clients earlier submissions still incomplete
                    busy = 0
                    for other in subs[:rec["n"]]:
                        if other["done"] is None and other.get("superseded") is None:
                            busy += 1
                    if busy < max_clients:
                        bad("c09.starved_in_queue",
                            f"hop {ij} timed out in the request queue although only {busy} earlier "
                            f"requests were incomplete (max_clients={max_clients})")
                env.log.ev("cb", ij[0] if ij else -1, ij[1] if ij else -1, response.code)
                callback(response)
            return cb

        async def main():
            client = _client_class()(force_instance=True, max_clients=max_clients)
            client.on_submit = on_submit
            state["client"] = client
            for i, f in enumerate(fetches):
                at = f.get("at") or 0
                if at > 0:
                    await asyncio.sleep(at * UNIT)
                sec = secrets[i]
                if f.get("hdr_dict"):
                    hd = {}
                    if sec["auth"]:
                        hd["Authorization"] = sec["auth"][0]
                    if sec["cookie"]:
                        hd["Cookie"] = sec["cookie"][0]
                    headers = hd
                else:
                    headers = HTTPHeaders()
                    for v in sec["auth"]:
                        headers.add("Authorization", v)
                    for v in sec["cookie"]:
                        headers.add("Cookie", v)
                    headers.add("X-Fetch", str(i))
                netloc = "o%d.test" % i
                if sec["url"]:
                    netloc = "%s:%s@%s" % (sec["url"][0], sec["url"][1], netloc)
                kw = {}
                if sec["user"]:
                    kw["auth_username"], kw["auth_password"] = sec["user"]
                if f.get("connect_timeout") is not None:
                    kw["connect_timeout"] = _units(f["connect_timeout"])
                if f.get("request_timeout") is not None:
                    kw["request_timeout"] = _units(f["request_timeout"])
                if ct0[i]:
                    kw["connect_timeout"] = 0
                if rt0[i]:
                    kw["request_timeout"] = 0
                if f.get("max_redirects") is not None:
                    kw["max_redirects"] = f["max_redirects"]
                method = f.get("method", "GET")
                body = None
                if method in ("POST", "PUT"):
                    body = b"B%d-" % i + b"z" * max(0, f.get("body") or 0)
                if f.get("nonstd"):
                    kw["allow_nonstandard_methods"] = True
                    body = (b"B%d-" % i + b"z" * max(0, f.get("body") or 0)) \
                        if f.get("has_body") else None
                    if body is not None and f.get("body_type") and not f.get("hdr_dict"):
                        headers.add("Content-Type", "text/x-body%d" % i)
                req = HTTPRequest("http://%s/f%d/h0" % (netloc, i), method=method,
                                  headers=headers, body=body, **kw)
                fut = client.fetch(req, raise_error=False)
                futs[i] = fut

                def done(fu, i=i):
                    fut_done[i] += 1
                    try:
                        r = fu.result()
                        results[i] = ("ok", r.code, r.body, r.effective_url)
                    except BaseException as e:
                        results[i] = ("exc", type(e).__name__, str(e)[:60])
                    env.log.ev("done", i, results[i][0], results[i][1])
                    check_open(None, "at completion")
                fut.add_done_callback(done)

        status = env.run(main())
        if state["client"] is not None:
            try:
                state["client"].close()
            except Exception as e:  # pragma: no cover
                bad("harness.client_close", repr(e))
        # ---------------------------------------------------------------- oracle
        if status in ("step_cap", "time_cap"):
            bad("c09.livelock", status)
        elif status.startswith("error"):
            bad("harness.main_raised", f"{status} {getattr(env, 'main_exception', None)!r}")
        # exactly once
        for i in range(nf):
            if futs[i] is None:
                continue
            if fut_done[i] == 0 and may_never[i]:
                probe("fetch_legitimately_pending")
            elif fut_done[i] == 0:
                # why?  name the common cause for the key
                chain_failed = any(s["ij"] and s["ij"][0] == i and s["ij"][1] > 0
                                   for s in subs)
                bad("c09.fetch_never_completes",
                    f"fetch {i} is still pending at quiescence (hops submitted: "
                    f"{[s['ij'][1] for s in subs if s['ij'] and s['ij'][0] == i]})",
                    "c09.fetch_never_completes/" + ("after_redirect" if chain_failed
                                                    else "first_hop"))
            elif fut_done[i] > 1:
                bad("c09.fetch_completed_twice", f"fetch {i}: {fut_done[i]} completions")
        for s in subs:
            if s["callbacks"] == 0 and s["ij"] is not None and fut_done[s["ij"][0]]:
                bad("c09.callback_never", f"hop {s['ij']} callback never invoked although the "
                                          f"fetch completed")
        # log records: InvalidStateError anywhere = double completion; an exception escaping one
        # of the client's own callbacks = lost or duplicated completion.  A network error of a
        # request that had already timed out, re-raised by run() and logged, is not.
        benign = ("gaierror", "ConnectionRefusedError", "ConnectionResetError", "BrokenPipeError",
                  "OSError", "TimeoutError", "StreamClosedError", "HTTPStreamClosedError",
                  "HTTPTimeoutError")
        for r in env.records:
            if r[3] == "InvalidStateError" or "InvalidStateError" in r[2]:
                bad("c09.invalid_state_error", f"{r[0]} {r[1]} {r[2][:160]}")
            elif "Exception in callback" in r[2] and r[1] in ("ERROR", "CRITICAL"):
                if "_HTTPConnection.run()" in r[2] and r[3] in benign:
                    probe("late_network_error_logged_after_completion")
                else:
                    where = "SimpleAsyncHTTPClient._on_timeout" if "_on_timeout" in r[2] else "other"
                    bad("c09.exception_in_callback", f"{r[0]} {r[2][:200]} [{r[3]}]",
                        f"c09.exception_in_callback/{where}/{r[3]}")
        for msg, exc in env.loop_errors:
            m = msg or ""
            if exc == "InvalidStateError":
                bad("c09.invalid_state_error", f"asyncio: {m[:160]}")
            elif "_HTTPConnection.finish" in m:
                bad("c09.exception_in_callback", f"asyncio: {m[:200]} [{exc}]",
                    "c09.exception_in_callback/redirect_followup_failed")
            else:
                bad("c09.exception_in_callback", f"asyncio: {m[:200]} [{exc}]",
                    f"c09.exception_in_callback/asyncio/{exc}")
        # start order: starts must be a subsequence of the submissions
        order = [s["ij"] for s in subs if s["ij"] is not None]
        pos = 0
        for st_ in starts:
            try:
                k = order.index(st_, pos)
            except ValueError:
                if st_ in order:
                    bad("c09.start_order",
                        f"request {st_} started after a request submitted later "
                        f"(submitted {order}, started {starts})")
                else:
                    bad("c09.started_without_submission", f"{st_} (submitted {order})")
                break
            pos = k + 1
        started_set = set(starts)
        for s in subs:
            if s["ij"] is not None and s["ij"] not in started_set and s["done"] is not None \
                    and not s["queue_timeout"] and s.get("code") != 599:
                bad("c09.completed_without_start",
                    f"hop {s['ij']} completed without ever starting and without a queue timeout")
        # redirects
        for i, f in enumerate(fetches):
            mr = f.get("max_redirects")
            mr = 5 if mr is None else mr
            hops_sub = sorted(s["ij"][1] for s in subs if s["ij"] and s["ij"][0] == i)
            if hops_sub and hops_sub[-1] > mr:
                bad("c09.too_many_redirects",
                    f"fetch {i}: hop {hops_sub[-1]} requested with max_redirects={mr}")
            orig = targets[i][0][:3]
            sec = secrets[i]
            toks = ["SECRET"] + sec["b64"]
            for j in range(1, len(f["hops"])):
                tgt = targets[i][j][:3]
                cross = tgt != orig
                sub = sub_by.get((i, j))
                reqs = received.get((i, j), [])
                if sub is None and not reqs:
                    continue
                if tgt[0] == "odd":
                    # where an unusual Location leads is the client's business; what a server
                    # at another address than the original one receives is ours
                    probe("odd_location_followed")
                    probe("odd_location_%02d" % (f["hops"][j].get("loc", 0) % len(ODD_LOCATIONS)))
                    for rq in reqs:
                        if (rq["ip"], rq["port"]) != (_ip(i, "o"), 80):
                            probe("odd_location_reaches_other_origin")
                            if any(t.encode() in rq["raw"] for t in toks):
                                bad("c09.credentials_leaked_cross_origin",
                                    f"fetch {i}: Location {_location(i, j, f['hops'][j], None)[:60]!r}"
                                    f" led to {rq['ip']}:{rq['port']}, which received the "
                                    f"original credentials",
                                    "c09.credentials_leaked_cross_origin/odd_location")
                    continue
                probe("redirect_followed")
                if f["hops"][j].get("userinfo") and f["hops"][j].get("to") not in ("rel", "relpath"):
                    probe("location_with_userinfo")
                if f["hops"][j].get("schemerel"):
                    probe("location_scheme_relative")
                if not (tgt != orig) and any(b"SECRET" in rq["raw"] for rq in reqs):
                    probe("same_origin_hop_keeps_credentials")
                prev_code = f["hops"][j - 1].get("code")
                # ---- credentials
                if cross:
                    probe("cross_origin_hop")
                    kind = ("scheme" if tgt[0] != orig[0] else "host" if tgt[1] != orig[1]
                            else "port")
                    probe("cross_" + kind)
                    leaks = []
                    for rq in reqs:
                        for t in toks:
                            if t.encode() in rq["raw"]:
                                for ln in rq["head"].split(b"\r\n")[1:]:
                                    if t.encode() in ln:
                                        leaks.append(ln.split(b":")[0].decode("latin1").lower())
                                if not leaks:
                                    leaks.append("body-or-request-line")
                    if sub is not None:
                        for k, v in sub["headers"]:
                            if any(t in v for t in toks):
                                leaks.append(k.lower())
                        if any(t in sub["url"] for t in toks):
                            leaks.append("url-userinfo")
                        if sub["auth_username"] is not None and sec["user"] and \
                                sub["auth_username"] == sec["user"][0]:
                            leaks.append("auth_username")
                    if leaks:
                        names = sorted(set(leaks))
                        explained = set()
                        if (f.get("cookie") or 0) >= 2 and not f.get("hdr_dict"):
                            explained.add("cookie")
                        if (f.get("auth_hdr") or 0) >= 2 and not f.get("hdr_dict") \
                                and not sec["url"] and not sec["user"]:
                            explained.add("authorization")
                        multi = all(x in explained for x in names)
                        bad("c09.credentials_leaked_cross_origin",
                            f"fetch {i} hop {j} ({tgt[0]}://{tgt[1]}:{tgt[2]}, original "
                            f"{orig[0]}://{orig[1]}:{orig[2]}; differs in {kind}) received the "
                            f"original {names}" + (" (header built with two add() calls)"
                                                   if multi else ""),
                            "c09.credentials_leaked_cross_origin/"
                            + ("multi_valued_header" if multi else "+".join(names)))
                # ---- method / body rewriting
                prev_reqs = received.get((i, j - 1), [])
                # (a path requested more than once - an empty Location repeats the URL - cannot
                # be paired with the request that led to it)
                if len(reqs) == 1 and len(prev_reqs) == 1 and prev_code in REDIRECT_CODES:
                    pm = prev_reqs[-1]["method"]
                    rq = reqs[-1]
                    rewrite = (prev_code == 303 and pm != "HEAD") or \
                        (prev_code in (301, 302) and pm == "POST")
                    if rewrite:
                        probe("redirect_rewrites_to_get")
                        hl = rq["head"].lower()
                        if prev_reqs[-1]["body"]:
                            probe("redirect_rewrites_request_with_body_%d_%s" % (prev_code, pm))
                        if rq["method"] != "GET" or rq["body"] or b"\r\ntransfer-encoding:" in hl \
                                or (b"\r\ncontent-length:" in hl
                                    and b"\r\ncontent-length: 0\r\n" not in hl):
                            bad("c09.redirect_not_rewritten_to_bodiless_get",
                                f"fetch {i}: {prev_code} after {pm} "
                                f"({len(prev_reqs[-1]['body'])} body bytes) was followed by "
                                f"{rq['method']} with {len(rq['body'])} body bytes "
                                f"(headers {rq['head'][:160]!r})",
                                f"c09.redirect_not_rewritten_to_bodiless_get/{prev_code}/{pm}")
                        elif b"\r\ncontent-type: text/x-body" in hl:
                            bad("c09.redirect_not_rewritten_to_bodiless_get",
                                f"fetch {i}: {prev_code} after {pm}: the bodiless GET still "
                                f"carries the body's Content-Type",
                                f"c09.redirect_not_rewritten_to_bodiless_get/{prev_code}/{pm}"
                                f"/content_type_kept")
                    elif prev_code in (307, 308):
                        probe("redirect_preserves_method")
                        if rq["method"] != pm or rq["body"] != prev_reqs[-1]["body"]:
                            bad("c09.redirect_307_308_changed_request",
                                f"fetch {i}: {prev_code} after {pm} was followed by "
                                f"{rq['method']} with {len(rq['body'])} body bytes")
            # result sanity: a response must come from the hop where the chain has to stop
            r = results[i]
            if r is not None and r[0] == "ok" and 200 <= r[1] < 600 and r[1] != 599 \
                    and not has_odd[i]:
                stop = min(len(f["hops"]) - 1, mr)
                exp_code = f["hops"][stop].get("code")
                if r[1] != exp_code and not (r[1] == 404):
                    bad("c09.wrong_final_response",
                        f"fetch {i} returned {r[1]} {r[2][:20]!r}; the chain must stop at hop "
                        f"{stop} with {exp_code}")
        leaked = [fd for fd in net.leaked()
                  if net.sockets[fd].state == "connected"]
        if leaked and not viol:
            bad("c09.connected_socket_leaked", f"fds {leaked} still connected at quiescence")
        # ---- probes / stats
        st = env.stats()
        faults = st["faults"]
        queued = sum(1 for s in subs if s["started"] is not None and s["started"] > s["t"])
        nqt = sum(1 for s in subs if s["queue_timeout"])
        probe("fetches", nf)
        probe("submissions", len(subs))
        if queued:
            probe("request_waited_in_queue", queued)
        if nqt:
            probe("queue_timeout_fired", nqt)
        if state["max_open"] == max_clients:
            probe("open_sockets_reached_max_clients")
        for r in results:
            if r is None:
                probe("fetch_pending")
            elif r[0] == "ok":
                probe("fetch_response")
            else:
                probe("fetch_exc_" + r[1])
                if "while connecting" in r[2]:
                    probe("timeout_while_connecting")
                if "during request" in r[2]:
                    probe("timeout_during_request")
        for i, f in enumerate(fetches):
            if (f.get("cookie") or 0) >= 2 or (f.get("auth_hdr") or 0) >= 2:
                if any(targets[i][j][:3] != targets[i][0][:3] and (i, j) in sub_by
                       for j in range(1, len(f["hops"]))):
                    probe("multi_valued_header_reaches_cross_origin_redirect")
            mr = f.get("max_redirects")
            if mr is not None and len(f["hops"]) - 1 > mr and (i, mr) in sub_by:
                probe("max_redirects_exhausted")
        st["probes"].update(probes)
        failure = bool(faults.get("connect_refused") or faults.get("connect_blackhole")
                       or faults.get("peer_rst") or faults.get("dns_fail")
                       or probes.get("timeout_while_connecting")
                       or probes.get("timeout_during_request"))
        nontrivial = bool(queued or nqt or probes.get("redirect_followed")
                          or (failure and len(subs) >= 2))
        outcome = {"results": [list(r[:2]) if r else None for r in results],
                   "starts": [list(x) for x in starts[:20]], "max_open": state["max_open"]}
        return {"violations": viol, "nontrivial": nontrivial, "stats": st,
                "log_head": env.log.head, "log_full": env.log.full, "outcome": outcome}


if __name__ == "__main__":  # developer aid: violation classes over N seeds
    import sys
    from collections import Counter
    from sim.runner import sub_rng
    n = int(sys.argv[1]) if len(sys.argv) > 1 else 2000
    tier = sys.argv[2] if len(sys.argv) > 2 else "quick"
    cnt = Counter()
    first = {}
    pr = Counter()
    nt = 0
    for i in range(n):
        scn = gen(sub_rng(0, ID, i), tier, i)
        r = run(scn)
        nt += r["nontrivial"]
        pr.update(r["stats"]["probes"])
        for v in r["violations"]:
            cnt[v["key"]] += 1
            first.setdefault(v["key"], (i, v["msg"]))
    for k, c in cnt.most_common():
        print(c, k, first[k])
    print("nontrivial", nt, dict(pr))
