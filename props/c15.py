"""C15 - WebSocket peers that violate the protocol are cut off without bad data.

fault_enumeration: gen() draws a VALID frame sequence (messages - fragmented,
compressed, with control frames in the gaps, incl. a message of exactly
max_message_size) plus one violation kind; expand() yields one scenario per
position 0..N of that sequence at which the violation can be expressed: the
violating frame (group) is inserted *before* valid frame k, all remaining valid
frames are still sent after it.

Rigs: raw frame peer -> real WebSocketHandler (raw_client) and raw frame peer
<- real websocket_connect client (raw_server).

Oracle (exactly the statement): every message completed before the violating
frame is delivered intact and in order; nothing else is ever delivered; the
connection is aborted (the peer sees EOF / RST before the run quiesces; a close
code, if one was sent, is recorded); the application's close notification
fires exactly once.
"""

from ref import ws_codec as W
from sim.env import SimEnv, UNIT  # noqa: F401

from . import _speedups
from . import _wsrig as R

ID = "C15"
LEVEL = "fault_enumeration"
QUICK_N = 10000
THOROUGH_N = 250000
CHUNK = 40
RULE = ("gen(seed): rig (raw peer as client of the real handler / as server of the real client), "
        "permessage-deflate on/off with window bits, max_message_size, a valid frame sequence "
        "(1-5 messages, fragment cuts, pings/pongs in gaps, one message exactly at the limit), "
        "application pacing (sync / async on_message, optionally echoing every message when it "
        "resumes), peer disconnect right after its last byte (RST, or FIN then RST) so that buffered "
        "frames are parsed from a stream a failed echo/pong write already closed, segmentation "
        "pattern, recv_cap/defer tapes, and "
        "ONE violation kind out of: rsv2 / rsv3 / rsv1 without extension (on data and on control "
        "frames), rsv1 on a continuation (extension agreed), fragmented control, control > 125 "
        "bytes, continuation without start, data frame inside a fragmented message, invalid UTF-8 "
        "(single frame, split over fragments incl. a truncated tail followed by empty final "
        "fragments, compressed), unknown opcode, a 64-bit length with the reserved top bit set, "
        "limit+1 (single frame, "
        "accumulated over fragments, after inflation). expand(): that violation inserted before "
        "valid frame k for EVERY k in 0..N where it is expressible (kinds that need a message "
        "in progress / no message in progress are self-contained or skipped at the other "
        "positions). non-trivial = handshake completed AND the violating frame was put on the "
        "wire AND (>=1 message was completed before it, OR valid frames follow it and an I/O "
        "perturbation fired / the stream was multi-segment / an async on_message was running "
        "when it arrived); distinct = scenario hash")
COMPONENTS = {
    "real": ["tornado.websocket.WebSocketHandler/WebSocketProtocol13/_PerMessageDeflate*",
             "tornado.websocket.websocket_connect/WebSocketClientConnection",
             "tornado.web.Application", "tornado.httpserver.HTTPServer", "tornado.http1connection",
             "tornado.simple_httpclient", "tornado.tcpclient", "tornado.iostream.IOStream", "zlib"],
    "stub": ["event loop poller+clock (SimLoop)", "sockets/network (SimNet)",
             "violating frame peer (props/_wsrig.RawWS + ref/ws_codec.py)"],
}
ASSUMPTIONS = [
    "the valid part of the traffic avoids the C14 findings (no control frame between compressed "
    "fragments, control payloads small next to the size limit, no BFINAL blocks) so that an early "
    "abort is always due to the inserted violation",
    "mask-bit violations are not in the property statement and are not injected",
    "when the peer itself resets/closes the connection after its last byte, bytes Tornado had not "
    "yet read are legitimately lost: 'every earlier message delivered' is relaxed to 'a prefix is "
    "delivered' in those runs only (never a wrong, duplicated or later message); a reset that "
    "arrives before the HTTP upgrade completed leaves nothing to judge",
]

_speedups.ensure()

KINDS = ["rsv2", "rsv3", "rsv23", "rsv1_no_ext", "rsv1_cont", "frag_control", "long_control",
         "cont_no_start", "data_in_frag", "bad_utf8_single", "bad_utf8_split", "bad_utf8_z",
         "unknown_opcode", "too_big_single", "too_big_frag", "too_big_inflated", "len64_msb"]
# not generated (corrupt deflate data is not in the statement's list); reachable by a hand-written
# scenario only: see findings/C15-observation-corrupt-deflate-not-aborted
EXTRA_KINDS = ["bad_deflate"]
BAD_UTF8 = ["ff", "c328", "e282", "c0af", "eda080", "f4908080", "61e228a1", "f0288cbc", "80"]
TRUNCATED_UTF8 = ["c3", "e282", "f09f98", "61c3a9e2", "f0"]
SPLIT_UTF8 = [["e2", "28a1"], ["61f09f", "9828"], ["c3", "c3a9"], ["e282", "41"], ["61", "ff"]]


# ---------------------------------------------------------------------------
# generation


def gen(rng, tier, index):
    mode = rng.choice(["raw_client", "raw_client", "raw_server"])
    kind = rng.choice(KINDS)
    need_ext = kind in ("rsv1_cont", "bad_utf8_z", "too_big_inflated")
    need_no_ext = kind == "rsv1_no_ext"
    need_limit = kind.startswith("too_big")
    deflate = None
    if need_ext or (not need_no_ext and rng.random() < 0.5):
        params = {}
        if rng.random() < 0.3:
            params["server_max_window_bits"] = rng.randint(9, 15)
        if rng.random() < 0.3:
            params["client_max_window_bits"] = rng.randint(9, 15)
        deflate = {"params": params, "opts": {}, "peer_level": rng.choice([1, 6]), "peer_mem": 8,
                   "peer_reset": rng.random() < 0.3}
    limit = None
    if need_limit or rng.random() < 0.35:
        limit = rng.choice([200, 256, 300, 1000, 4096]) if tier == "quick" or rng.random() < 0.8 \
            else rng.choice([65535, 65536, 70000])
    nmsg = rng.choice([1, 2, 2, 3, 4, 5])
    at_limit_slot = rng.randrange(nmsg) if (limit is not None and rng.random() < 0.6) else -1
    msgs = []
    for i in range(nmsg):
        t = rng.choice([1, 2])
        cap = (limit - 16) if limit is not None else 2000
        n = min(cap, rng.choice([0, 1, 5, 20, 125, 126, 127, 300]))
        if i == at_limit_slot:
            n = limit
        kinds = R.TEXT_KINDS if t == 1 else R.BIN_KINDS
        m = {"t": t, "d": {"k": rng.choice(kinds), "n": n, "s": rng.getrandbits(12),
                           "p": rng.choice([8, 64, 700])},
             "z": ("sync" if deflate is not None and rng.random() < 0.7 else None)}
        cuts = []
        if rng.random() < 0.5:
            for _ in range(rng.choice([1, 1, 2, 3])):
                cuts.append(rng.choice([0, 1, 2, 7, max(1, n // 2), max(1, n - 1), 126]))
        m["cuts"] = cuts
        ctl = []
        if rng.random() < 0.4:
            ctl.append([0, rng.choice([9, 10]), "hex:" + bytes([0x50 + i]).hex()])
        if cuts and not m["z"] and i != at_limit_slot and rng.random() < 0.5:
            for g in range(1, len(cuts) + 1):
                if rng.random() < 0.6:
                    ctl.append([g, rng.choice([9, 9, 10]), "hex:" + bytes([0x60 + g]).hex()])
        m["ctl"] = ctl
        msgs.append(m)
    viol = {"kind": kind, "at": 0, "v": rng.getrandbits(16)}
    seg = {"pat": [], "hdr": rng.random() < 0.15}
    if rng.random() < 0.6:
        for _ in range(rng.randint(1, 5)):
            seg["pat"].append([rng.choice([1, 2, 3, 7, 20, 64, 200, 0, 0]), rng.choice([0, 1, 1, 2, 5])])
    tapes = {}
    r = rng.random()
    if r < 0.08:
        tapes["recv_cap"] = {"v": [rng.choice([1, 2, 3])], "cycle": True}
    elif r < 0.4:
        tapes["recv_cap"] = {"v": [rng.choice([0, 0, 1, 2, 3, 6, 10, 130]) for _ in range(rng.randint(1, 8))],
                             "cycle": rng.random() < 0.5}
    if rng.random() < 0.15:
        tapes["defer"] = [rng.choice([0, 1]) for _ in range(10)]
    if rng.random() < 0.1:
        tapes["spurious"] = [rng.choice([0, 1]) for _ in range(10)]
    if rng.random() < 0.3:
        tapes["urandom"] = [rng.choice([0, 1, 255, rng.randint(2, 254)]) for _ in range(4)]
    knobs = {"mode": mode, "mask": rng.choice(["c", "python"]), "deflate": deflate, "limit": limit,
             "pattern": [rng.choice([0, 0, -1, 1, 2, 5]) for _ in range(rng.randint(0, 3))],
             "client_cb": rng.random() < 0.4, "key": rng.getrandbits(8),
             "window": rng.choice([64, 1024, 65536, 65536]),
             "echo": rng.random() < 0.3, "end": None, "end_dt": 0}
    # the peer disconnects (RST, or FIN + RST for whatever Tornado still sends) right after its
    # last byte: with an application that is still busy, the frames - violation included - are
    # parsed from the buffer of a stream that a failed echo / pong write has already closed
    if rng.random() < 0.25:
        knobs["end"] = rng.choice(["rst", "rst", "fin"])
        knobs["end_dt"] = rng.choice([0, 1, 2, 5])
        if rng.random() < 0.75:
            seg = {"pat": [], "hdr": False}  # everything in one segment
            tapes.pop("recv_cap", None)
            knobs["pattern"] = [rng.choice([3, 7, 20]) for _ in range(rng.randint(1, 3))]
            knobs["echo"] = rng.random() < 0.7
            knobs["client_cb"] = False
            for m in msgs:
                if not m["ctl"] and rng.random() < 0.4:
                    m["ctl"].append([0, 9, "hex:" + bytes([0x70]).hex()])
    return {"property": ID, "version": 1, "knobs": knobs, "msgs": msgs, "viol": viol,
            "seg": seg, "tapes": tapes}


def _inside(plan, k):
    """True if a fragmented message is in progress just before valid frame k."""
    ins = False
    for ent in plan[:k]:
        if ent[0] == "frag":
            ins = ent[2] < ent[3] - 1
    return ins


def _applicable(kind, inside):
    if kind in ("cont_no_start", "bad_utf8_single", "bad_utf8_split", "bad_utf8_z", "too_big_single",
                "too_big_frag", "too_big_inflated", "bad_deflate"):
        return not inside
    return True


def expand(scn):
    plan = R.plan_frames(scn["msgs"])
    kind = scn["viol"]["kind"]
    for k in range(len(plan) + 1):
        if not _applicable(kind, _inside(plan, k)):
            continue
        s = dict(scn)
        s["viol"] = dict(scn["viol"], at=k)
        yield s


def validate(scn):
    try:
        k = scn["knobs"]
        if k["mode"] not in ("raw_client", "raw_server") or k["mask"] not in ("c", "python"):
            return False
        v = scn["viol"]
        if v["kind"] not in KINDS + EXTRA_KINDS or not isinstance(v["at"], int) or v["at"] < 0:
            return False
        lim = k.get("limit")
        if lim is not None and (not isinstance(lim, int) or lim < 130):
            return False
        if v["kind"].startswith("too_big") and lim is None:
            return False
        if v["kind"] in ("rsv1_cont", "bad_utf8_z", "too_big_inflated", "bad_deflate") \
                and k.get("deflate") is None:
            return False
        if v["kind"] == "rsv1_no_ext" and k.get("deflate") is not None:
            return False
        if not isinstance(k.get("window"), int) or k["window"] < 1:
            return False
        if k.get("end") not in (None, "rst", "fin") or not isinstance(k.get("end_dt", 0), int) \
                or k.get("end_dt", 0) < 0:
            return False
        for m in scn["msgs"]:
            if m["t"] not in (1, 2):
                return False
            d = R.expand_data(m["d"])
            if m["t"] == 1:
                d.decode("utf-8")
            if lim is not None and len(d) > lim:
                return False
            cuts, ctl = R._msg_layout(m)
            if m.get("z") and any(1 <= g <= len(cuts) for g in ctl):
                return False  # would trip the C14 finding, not the injected violation
            for g, cs in ctl.items():
                for c in cs:
                    p = R.expand_data(c[2])
                    if len(p) > 125:
                        return False
                    if lim is not None and 1 <= g <= len(cuts) and len(p) + sum(cuts[:g]) > lim:
                        return False
        plan = R.plan_frames(scn["msgs"])
        if v["at"] > len(plan) or not _applicable(v["kind"], _inside(plan, v["at"])):
            return False
        return True
    except Exception:
        return False


# ---------------------------------------------------------------------------
# violations


def _violation_frames(kind, v, inside, deflater, limit, ext):
    """The frame group to insert: a list of frame dicts; only the LAST one (or
    the completed message it ends) violates the protocol given the context.
    Payloads of data frames start with b"VIOL" where the content is free."""
    tag = b"VIOL-%d" % (v & 0xFF)
    ftype = 1 if v & 1 else 2

    def fr(op, payload=b"", fin=True, rsv=0):
        return {"op": op, "fin": fin, "rsv": rsv, "payload": payload}

    if kind in ("rsv2", "rsv3", "rsv23", "rsv1_no_ext"):
        bits = {"rsv2": W.RSV2, "rsv3": W.RSV3, "rsv23": W.RSV2 | W.RSV3, "rsv1_no_ext": W.RSV1}[kind]
        which = (v >> 1) % 3
        if which == 0:
            return [fr(9, tag, rsv=bits)]  # on a control frame
        if which == 1 and ext and kind != "rsv1_no_ext":
            bits |= W.RSV1  # together with a legitimately set RSV1
            if inside:
                return [fr(0, tag, fin=False, rsv=bits)]
            return [fr(ftype, deflater.compress(tag, "sync") if deflater else tag, rsv=bits)]
        if inside:
            return [fr(0, tag, fin=bool(v & 8), rsv=bits)]
        return [fr(ftype, tag, fin=bool(v & 8), rsv=bits)]
    if kind == "rsv1_cont":
        if inside:
            return [fr(0, tag, fin=bool(v & 2), rsv=W.RSV1)]
        return [fr(ftype, tag, fin=False), fr(0, b"-more", fin=True, rsv=W.RSV1)]
    if kind == "frag_control":
        op = (8, 9, 10)[(v >> 1) % 3]
        return [fr(op, b"" if op == 8 else tag, fin=False)]
    if kind == "long_control":
        op = (8, 9, 10)[(v >> 1) % 3]
        n = (126, 127, 200, 65536)[(v >> 3) % 4]
        body = (b"\x03\xe8" if op == 8 else b"") + b"x" * n
        return [fr(op, body[:max(n, 126)])]
    if kind == "cont_no_start":
        return [fr(0, tag, fin=bool(v & 2))]
    if kind == "data_in_frag":
        new = fr(ftype, tag, fin=bool(v & 2))
        if inside:
            return [new]
        return [fr(3 - ftype, b"VIOL-start", fin=False), new]
    if kind == "unknown_opcode":
        op = (3, 4, 5, 6, 7, 0xB, 0xC, 0xD, 0xE, 0xF)[(v >> 1) % 10]
        return [fr(op, tag, fin=True)]
    if kind == "bad_utf8_single":
        bad = bytes.fromhex(BAD_UTF8[(v >> 1) % len(BAD_UTF8)])
        pre = b"VIOL" if v & 0x100 else b""
        return [fr(1, pre + bad + (b"tail" if v & 0x200 else b""))]
    if kind == "bad_utf8_z":
        bad = bytes.fromhex(BAD_UTF8[(v >> 1) % len(BAD_UTF8)])
        return [fr(1, deflater.compress(b"VIOL" + bad + b"tail", "sync"), rsv=W.RSV1)]
    if kind == "bad_utf8_split":
        if (v >> 9) % 3 == 0:
            # the message ENDS inside a multi-byte sequence and the remaining fragment(s),
            # incl. the final one, are empty: only the end of the message reveals it
            out = [fr(1, b"VIOL" + bytes.fromhex(TRUNCATED_UTF8[(v >> 1) % len(TRUNCATED_UTF8)]),
                      fin=False)]
            if v & 0x100:
                out.append(fr(9, b"mid"))
            if v & 0x2000:
                out.append(fr(0, b"", fin=False))
            out.append(fr(0, b"", fin=True))
            return out
        a, b = SPLIT_UTF8[(v >> 1) % len(SPLIT_UTF8)]
        out = [fr(1, b"VIOL" + bytes.fromhex(a), fin=False)]
        if v & 0x100:
            out.append(fr(9, b"mid"))
        out.append(fr(0, bytes.fromhex(b) + b"tail", fin=True))
        return out
    if kind == "len64_msb":
        # 64-bit length form with the reserved top bit set: declares >= 2**63 bytes (above any
        # max_message_size, and forbidden by RFC 6455 5.2); the low 63 bits equal the number of
        # payload bytes that really follow
        body = (tag + b"-top-bit" * 20)[:(0, 5, 125, 126, 200)[(v >> 1) % 5]]
        f = fr(0 if inside else ftype, body, fin=bool(v & 0x10) or not inside)
        f["declared"] = (1 << 63) | len(body)
        return [f]
    if kind == "too_big_single":
        return [fr(ftype, (b"VIOL" + b"a" * (limit + 1))[:limit + 1])]
    if kind == "too_big_frag":
        a = (1, limit // 2, limit, limit - 1)[(v >> 1) % 4]
        body = (b"VIOL" + b"b" * (limit + 1))[:limit + 1]
        out = [fr(ftype, body[:a], fin=False)]
        if v & 0x100:
            out.append(fr(10, b""))
        if v & 0x200 and a < limit:
            mid = a + (limit - a) // 2
            out.append(fr(0, body[a:mid], fin=False))
            a = mid
        out.append(fr(0, body[a:], fin=True))
        return out
    if kind == "too_big_inflated":
        body = (b"VIOL" + b"c" * (limit + 1))[:limit + 1]
        return [fr(ftype, deflater.compress(body, "sync"), rsv=W.RSV1)]
    if kind == "bad_deflate":
        # BTYPE=11 is reserved: not a deflate stream at all
        return [fr(ftype, b"\x07VIOL-not-deflate", rsv=W.RSV1)]
    raise ValueError(kind)


# ---------------------------------------------------------------------------
# the run


def run(scn, full_log=False):
    knobs = scn["knobs"]
    mode = knobs["mode"]
    viol = []
    probes = {}
    vk = scn["viol"]["kind"]
    at = scn["viol"]["at"]
    state = {"handshake": None, "sent_violation": False, "phase": "start", "expected": None,
             "inflight_at_violation": None, "later_same_segment": False, "inside": None}

    def bad(rule, msg):
        viol.append({"rule": rule, "key": f"{rule}/{vk}/{mode}", "msg": msg})

    def probe(name, n=1):
        probes[name] = probes.get(name, 0) + n

    msgs = [m for m in scn["msgs"] if isinstance(m, dict)]
    deflate = knobs.get("deflate")
    limit = knobs.get("limit")
    all_msgs = [(m["t"], R.expand_data(m["d"])) for m in msgs]

    with _speedups.use(knobs.get("mask", "c")) as mask_eff, \
            SimEnv(scn.get("tapes"), max_iters=400_000, max_time=300.0,
                   window=knobs.get("window", 65536), full_log=full_log) as env:
        net = env.net
        loop = env.loop
        rec = R.SideRec(env, "server" if mode == "raw_client" else "client")
        box = {"ws": None}

        def send_all(ws):
            defl = None
            if ws.pmd is not None and deflate is not None:
                defl = ws.make_deflater(deflate["peer_level"], deflate["peer_mem"],
                                        deflate["peer_reset"])
            # deflate contexts must advance in wire order: messages that start before the
            # insertion point, then the violation, then the rest
            plan = R.plan_frames(msgs)
            k = min(at, len(plan))
            inside = _inside(plan, k)
            if k >= len(plan):
                split = len(msgs)
            else:
                split = plan[k][1] + (1 if inside else 0)
            frames = R.build_frames(msgs[:split], defl, limit)
            if not _applicable(vk, inside):
                state["skip"] = True
                vfr = []
            else:
                vfr = _violation_frames(vk, scn["viol"].get("v", 0), inside, defl, limit,
                                        ws.pmd is not None)
            frames += R.build_frames(msgs[split:], defl, limit, mi0=split)
            # messages completed strictly before the insertion point
            done = [f["mi"] for f in frames[:k] if f.get("last")]
            state["expected"] = [all_msgs[i] for i in done]
            state["inside"] = inside
            for i, f in enumerate(frames[:k]):
                ws.send_frame(f["op"], f["payload"], fin=f["fin"], rsv=f["rsv"],
                              mask=R.mask_for(i + 17, i))
            for i, f in enumerate(vfr):
                ws.send_frame(f["op"], f["payload"], fin=f["fin"], rsv=f["rsv"],
                              mask=R.mask_for(i + 91, i), declared_len=f.get("declared"))
            state["sent_violation"] = bool(vfr)
            when = ws.peer.tx.last_arrival
            loop.call_at(max(when, loop.time()), snapshot)
            nseg = ws.seg.nsegs
            for i, f in enumerate(frames[k:]):
                ws.send_frame(f["op"], f["payload"], fin=f["fin"], rsv=f["rsv"],
                              mask=R.mask_for(i + 33, i))
            state["later_frames"] = len(frames) - k
            state["later_same_segment"] = (len(frames) > k and not ws.seg.pat and not ws.seg.hdr)
            state["nframes"] = len(frames)

        def snapshot():
            state["inflight_at_violation"] = rec.in_flight

        from tornado.websocket import WebSocketClosedError
        pat = R.Pattern(knobs.get("pattern"))
        echo = bool(knobs.get("echo"))

        async def busy_then_echo(target, message, k):
            """An application that does some asynchronous work, then replies."""
            if k:
                rec.in_flight += 1
                rec.max_in_flight = max(rec.max_in_flight, rec.in_flight)
                try:
                    await R.pace(env, k)
                finally:
                    rec.in_flight -= 1
            if echo:
                try:
                    await target.write_message(message, binary=isinstance(message, bytes))
                    state["echo_ok"] = state.get("echo_ok", 0) + 1
                except WebSocketClosedError:
                    state["echo_failed"] = state.get("echo_failed", 0) + 1  # the usual idiom

        def on_message_hook(handler, message):
            k = pat.next()
            if not k and not echo:
                return None
            return busy_then_echo(handler, message, k)

        def end_connection(ws):
            how = knobs.get("end")
            if how and not ws.peer.closed:
                # at least one tick after the last byte arrived (an RST is not queued behind data)
                d = max(0, int((ws.peer.tx.last_arrival - loop.time()) / UNIT)) + 1 + knobs.get("end_dt", 0)
                if how == "rst":
                    ws.peer.reset(delay=d)
                else:
                    ws.peer.close(delay=d)
                state["ended_by_peer"] = how

        async def main_raw_client():
            server, ls = R.start_ws_server(env, rec, compression=(deflate["opts"] if deflate else None),
                                           on_message_hook=on_message_hook, max_message_size=limit)
            peer, ssock = net.raw_connect(ls, window=knobs.get("window", 65536))
            ws = R.RawWS(env, peer, "client", scn.get("seg"))
            box["ws"] = ws
            ok = await ws.handshake_client(dict(deflate["params"]) if deflate else None,
                                           knobs.get("key", 1))
            state["handshake"] = ok
            if not ok:
                peer.close()
                await R.stop_server(server)
                return
            ws.make_receiver()
            ws.start_reader()
            send_all(ws)
            end_connection(ws)
            state["phase"] = "wait_eof"
            await peer.wait_eof()
            state["phase"] = "wait_close_cb"
            ws.pump()
            peer.close()
            await rec.wait(lambda: rec.closed)
            state["phase"] = "settle"
            await loop.idle()
            await R.stop_server(server)
            state["phase"] = "done"

        async def main_raw_server():
            started = loop.create_future()

            async def script(ws):
                ok = await ws.handshake_server(
                    lambda offers: dict(deflate["params"]) if deflate is not None and any(
                        n == "permessage-deflate" for n, _ in offers) else None)
                state["handshake"] = ok
                if ok:
                    ws.make_receiver()
                    ws.start_reader()
                    send_all(ws)
                    end_connection(ws)
                else:
                    ws.peer.close()
                if not started.done():
                    started.set_result(ok)

            def factory(peer):
                ws = R.RawWS(env, peer, "server", scn.get("seg"))
                box["ws"] = ws
                box["script"] = loop.create_task(script(ws))

            net.raw_listen(R.HOST, 81, factory)
            with R.client_class_patch(rec):
                fut = R.client_connect(env, rec, port=81,
                                       compression=(deflate["opts"] if deflate else None),
                                       max_message_size=limit,
                                       callback_mode=knobs.get("client_cb", False))
            try:
                conn = await fut
            except Exception as e:
                state["handshake"] = False
                state["connect_error"] = type(e).__name__
                return
            rec.conn = conn
            await started
            if not knobs.get("client_cb"):
                async def reader():
                    while True:
                        msg = await conn.read_message()
                        if msg is None:
                            rec.got_close(conn.close_code, conn.close_reason)
                            break
                        rec.got_message(msg)
                        await busy_then_echo(conn, msg, pat.next())
                    # a second close notification would show up here
                    m = await conn.read_message()
                    if m is None:
                        rec.got_close(conn.close_code, conn.close_reason)
                    else:
                        rec.got_message(m)
                box["reader"] = loop.create_task(reader())
            ws = box["ws"]
            state["phase"] = "wait_eof"
            await ws.peer.wait_eof()
            state["phase"] = "wait_close_cb"
            ws.pump()
            ws.peer.close()
            await rec.wait(lambda: rec.closed)
            state["phase"] = "settle"
            await loop.idle()
            state["phase"] = "done"

        status = env.run({"raw_client": main_raw_client, "raw_server": main_raw_server}[mode]())

        # ------------------------------------------------------------ oracle
        ws = box["ws"]
        if ws is not None:
            ws.pump()
        if state["handshake"] is not True and state.get("ended_by_peer"):
            probe("reset_before_handshake_completed")  # no WebSocket connection: nothing to judge
        elif state["handshake"] is not True:
            viol.append({"rule": "handshake.failed", "key": f"handshake.failed/{mode}",
                         "msg": f"handshake did not complete: {ws.why if ws else ''} "
                                f"{state.get('connect_error', '')} status {status}"})
        elif state.get("skip"):
            pass  # position not expressible for this kind (only reachable by a mutilated scenario)
        else:
            exp = state["expected"]
            got = list(rec.messages)
            n = min(len(exp), len(got))
            wrong = None
            for i in range(n):
                if got[i] != exp[i]:
                    wrong = i
                    break
            if wrong is not None:
                bad("before.corrupt", f"message {wrong} completed before the violation was delivered "
                                      f"as type {got[wrong][0]} {len(got[wrong][1])} bytes "
                                      f"{got[wrong][1][:20]!r}; sent type {exp[wrong][0]} "
                                      f"{len(exp[wrong][1])} bytes {exp[wrong][1][:20]!r}")
            elif len(got) > len(exp):
                extra = got[len(exp)]
                bad("after.delivered", f"{len(got) - len(exp)} message(s) delivered that derive from the "
                                       f"violating frame or later frames; first: type {extra[0]} "
                                       f"{len(extra[1])} bytes {extra[1][:24]!r} (violation {vk} "
                                       f"before frame {at} of {state.get('nframes')}, "
                                       f"{'inside' if state['inside'] else 'outside'} a fragmented message)")
            elif len(got) < len(exp) and state.get("ended_by_peer"):
                # the peer reset the connection itself: bytes Tornado had not read yet are gone
                probe("prefix_only_after_peer_reset")
            elif len(got) < len(exp):
                bad("before.lost", f"only {len(got)} of the {len(exp)} messages completed before the "
                                   f"violation were delivered (status {status}, phase {state['phase']})")
            if rec.bad_types:
                bad("after.delivered", f"application was handed {rec.bad_types[:3]}")
            peer = ws.peer
            if not peer.ended() or state["phase"] in ("start", "wait_eof"):
                bad("abort.missing", f"connection not closed by Tornado after {vk} before frame {at}: "
                                     f"run status {status}, phase {state['phase']}, peer eof={peer.eof} "
                                     f"rst={peer.got_rst}")
            else:
                probe("abort_rst" if peer.got_rst else "abort_fin")
                if rec.closed != 1:
                    bad("close.count", f"close notification fired {rec.closed} times "
                                       f"(status {status}, phase {state['phase']})")
            cl = [e for e in ws.rx.events if e[0] == "close"] if ws.rx is not None else []
            if cl:
                probe("close_code_%s" % cl[0][1])
            else:
                probe("no_close_frame")
            if status in ("hang", "time_cap") and not viol:
                bad("abort.hang", f"run status {status} in phase {state['phase']}")
        if status == "step_cap":
            viol.append({"rule": "run.step_cap", "key": "run.step_cap", "msg": f"{loop.iterations} iterations"})
        elif status.startswith("error"):
            viol.append({"rule": "harness.main_raised", "key": "harness.main_raised",
                         "msg": f"{status}: {getattr(env, 'main_exception', None)!r}"})
        for r in env.errors():
            probe("error_logged:%s:%s" % (r[0], r[3]))
        for m, e in env.loop_errors:
            probe("loop_error:%s" % e)

        st = env.stats()
        probe("kind_" + vk)
        probe("mode_" + mode)
        probe("mask_" + mask_eff)
        if state["inside"] is not None:
            probe("ctx_inside_fragmented_message" if state["inside"] else "ctx_between_messages")
        if at == 0:
            probe("position_first")
        if state.get("later_frames") == 0:
            probe("position_last")
        elif state.get("later_frames"):
            probe("valid_frames_follow_violation")
            if state["later_same_segment"]:
                probe("later_frames_in_same_segment")
        if state.get("ended_by_peer"):
            probe("peer_" + state["ended_by_peer"] + "_after_last_byte")
        if state.get("echo_failed"):
            probe("echo_write_failed_on_dead_connection")
        if state.get("echo_ok"):
            probe("echo_written")
        if state["inflight_at_violation"]:
            probe("async_on_message_running_when_violation_arrives")
        if state["expected"]:
            probe("messages_completed_before_violation", len(state["expected"]))
        if ws is not None and ws.pmd is not None:
            probe("deflate_agreed")
        if limit is not None and any(len(d) == limit for _, d in all_msgs):
            probe("valid_message_at_limit")
        if ws is not None and ws.seg.hdr_cuts:
            probe("cut_inside_frame_header")
        st["probes"].update(probes)
        perturbed = any(st["faults"].get(k) for k in ("short_read", "readiness_deferred",
                                                      "spurious_wakeup", "partial_send"))
        nontrivial = bool(state["handshake"] is True and state["sent_violation"] and (
            state["expected"] or state.get("later_frames") and (
                perturbed or state["inflight_at_violation"]
                or (ws is not None and ws.seg.nsegs > ws.sent_frames + 1))))
        outcome = {"status": status, "phase": state["phase"], "delivered": len(rec.messages),
                   "expected": len(state["expected"] or ()), "closed": rec.closed, "kind": vk, "at": at}
        return {"violations": viol, "nontrivial": nontrivial, "stats": st,
                "log_head": env.log.head, "log_full": env.log.full, "outcome": outcome}
