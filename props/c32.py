"""C32 - xheaders yield a valid client IP and never leak between requests.

Real HTTPServer(xheaders=True, trusted_downstream=...) with _ProxyAdapter /
_HTTPRequestContext in front of a web.Application (sync, async, streaming,
early-finishing and raising handlers) or a plain callable.  Raw clients send
2-4 keep-alive requests per connection, each with its own mix of X-Real-Ip,
X-Forwarded-For, X-Scheme, X-Forwarded-Proto (valid IPs, short numeric forms,
lists with trusted entries, garbage, empty values, odd white space, repeated
lines, odd header-name case), pipelined or sequential under a segmentation, some
requests rejected after their headers (bad chunked body, CL+TE), with disconnects
between requests.  Every handler records request.remote_ip / request.protocol
when it starts and when it ends; the oracle is ref.xheaders.expected(), a pure
function of the socket address and THIS request's headers.
"""

import asyncio

from tornado import httputil, web

from sim.env import SimEnv, UNIT
from props import httprig, _rigx
from ref.xheaders import expected, valid_ip

ID = "C32"
LEVEL = "exploration"
QUICK_N = 48000
THOROUGH_N = 3000000
CHUNK = 500
RULE = ("gen(seed): 1-2 connections (IPv4 / IPv6 / unix-socket peers), 2-4 keep-alive requests each "
        "with per-request X-Real-Ip / X-Forwarded-For / X-Scheme / X-Forwarded-Proto drawn from "
        "valid, short-form, trusted, garbage, empty and list values; handler kinds sync / async "
        "sleeping / streaming / early finish / raising, requests rejected after headers; 25% slow-reader "
        "connections (small client window, peer.auto=False, drain starts late) with early answers "
        "too large for the window; pipelined or "
        "sequential segmentation; disconnect after the last request; trusted_downstream and "
        "protocol knobs; low-rate recv_cap / defer tapes. "
        "non-trivial = some connection had an observed request k>=2 whose allowed (remote_ip, "
        "protocol) excludes what an earlier request of that connection observed, i.e. a leak from "
        "that earlier request would be visible; distinct = distinct scenario hash")
COMPONENTS = {
    "real": ["tornado.httpserver.HTTPServer/_ProxyAdapter/_HTTPRequestContext/_CallableAdapter",
             "tornado.netutil.is_valid_ip (libc getaddrinfo AI_NUMERICHOST)",
             "tornado.http1connection.*", "tornado.httputil.HTTPHeaders/HTTPServerRequest",
             "tornado.web.Application/RequestHandler/stream_request_body",
             "tornado.tcpserver.TCPServer.add_socket", "tornado.iostream.IOStream"],
    "stub": ["event loop poller+clock (sim.loop.SimLoop)", "sockets/network (sim.net)",
             "HTTP clients (sim.net.RawPeer scripts)", "scripted handlers written for the harness"],
}
ASSUMPTIONS = [
    "reference = ref/xheaders.py: precedence and 'numeric IP' per the property text; list / case / "
    "white-space details and X-Scheme-over-X-Forwarded-Proto taken from the code where the text is "
    "silent; both readings accepted where the text is ambiguous",
    "an observation is matched to its request by the request target",
]

_NOLOG = (lambda handler: None)
_PAD = b"n" * 20000


# --------------------------------------------------------------------------
# handlers


class _St:
    def __init__(self, env, conns):
        self.env = env
        self.conns = conns
        self.obs = {}  # (ci, ri) -> {"prep": (ip, proto), "end": (ip, proto)}
        self.probes = {}

    def spec(self, ci, ri):
        try:
            return self.conns[ci]["requests"][ri]
        except (IndexError, KeyError, TypeError):
            return {}

    def see(self, ci, ri, when, request):
        ip, proto = request.remote_ip, request.protocol
        self.obs.setdefault((ci, ri), {})[when] = (ip, proto)
        self.env.log.ev("obs", ci, ri, when, ip if isinstance(ip, str) else repr(type(ip)),
                        proto if isinstance(proto, str) else repr(type(proto)))


def _ids(path):
    try:
        p = path.split("/")
        return int(p[2]), int(p[3])
    except (ValueError, IndexError, AttributeError):
        return -1, -1


class _H(web.RequestHandler):
    def initialize(self):
        self.st = self.application.settings["st"]
        self.ci, self.ri = _ids(self.request.path)
        self.sp = self.st.spec(self.ci, self.ri)

    def prepare(self):
        self.st.see(self.ci, self.ri, "prep", self.request)

    def _done(self):
        self.st.see(self.ci, self.ri, "end", self.request)
        self.write(b"ok")


class _Sync(_H):
    def get(self, *a):
        self._done()

    post = put = get


class _Async(_H):
    async def get(self, *a):
        await asyncio.sleep((self.sp.get("sleep") or 1) * UNIT)
        self._done()

    post = put = get


@web.stream_request_body
class _Stream(_H):
    def data_received(self, chunk):
        if self.sp.get("sleep"):
            return asyncio.sleep(1 * UNIT)
        return None

    async def get(self, *a):
        if self.sp.get("sleep"):
            await asyncio.sleep(self.sp["sleep"] * UNIT)
        self._done()

    post = put = get


@web.stream_request_body
class _Early(_H):
    """Finishes in prepare(), before the body was read: Tornado then notifies the
    delegate through on_connection_close and closes the connection."""

    def prepare(self):
        self.st.see(self.ci, self.ri, "prep", self.request)
        self.st.see(self.ci, self.ri, "end", self.request)
        self.set_status(403)
        self.finish(_PAD[:self.sp.get("big") or 2])
        if self.request.connection.stream.writing():
            self.st.probes["early_answer_write_pending"] = \
                self.st.probes.get("early_answer_write_pending", 0) + 1

    def data_received(self, chunk):
        return None

    def get(self, *a):
        pass

    post = put = get


class _Raise(_H):
    def prepare(self):
        self.st.see(self.ci, self.ri, "prep", self.request)
        if not self.sp.get("sleep"):
            self.st.see(self.ci, self.ri, "end", self.request)
            raise web.HTTPError(403)

    async def get(self, *a):
        await asyncio.sleep(self.sp["sleep"] * UNIT)
        self.st.see(self.ci, self.ri, "end", self.request)
        raise ZeroDivisionError("scripted")

    post = put = get


def _make_app(kind, st):
    if kind == "callable":
        def app(request):
            ci, ri = _ids(request.path)
            st.see(ci, ri, "prep", request)
            sp = st.spec(ci, ri)

            def respond():
                st.see(ci, ri, "end", request)
                hd = httputil.HTTPHeaders()
                hd["Content-Length"] = "2"
                request.connection.write_headers(
                    httputil.ResponseStartLine("HTTP/1.1", 200, "OK"), hd, b"ok")
                request.connection.finish()
            if sp.get("sleep") and sp.get("hk") in ("a", "t", "x"):
                asyncio.get_event_loop().call_later(sp["sleep"] * UNIT, respond)
            else:
                respond()
        return app
    return web.Application(
        [(r"/s/.*", _Sync), (r"/a/.*", _Async), (r"/t/.*", _Stream), (r"/e/.*", _Early),
         (r"/x/.*", _Raise)], st=st, log_function=_NOLOG)


# --------------------------------------------------------------------------
# generation

V4 = ["1.2.3.4", "8.8.8.8", "192.168.0.7", "203.0.113.9", "4.4.4.4"]
V6 = ["2001:db8::1", "::1", "::ffff:9.9.9.9", "2001:DB8:0:0::5"]
SHORT = ["127.1", "1", "0x7f.1", "010.0.0.1", "4294967295"]
PROXIES = ["10.0.0.1", "10.0.0.2", "127.0.0.1", "::1", "192.168.0.1", "5.5.5.5"]
GARBAGE = ["", "unknown", "1.2.3.4.5", "256.1.1.1", "1.2.3.4:80", "[::1]", "a" * 70, "1..2",
           "\xe9", "localhost", "-", "1.2.3.4;", "1.2.3.4 5.6.7.8", "::g", "1.2.3", "0x",
           "12345678901", "fe80::1%1", "1.2.3.4/32"]
WS = ["\xa0", "\x85"]  # latin-1 bytes that str.strip() treats as white space
SEPS = [",", ", ", " , ", ",  ", ",\t"]
NAMES = {
    "xri": ["X-Real-Ip", "X-Real-IP", "x-real-ip", "X-REAL-IP"],
    "xff": ["X-Forwarded-For", "x-forwarded-for", "X-FORWARDED-FOR"],
    "xs": ["X-Scheme", "x-scheme", "X-SCHEME"],
    "xfp": ["X-Forwarded-Proto", "x-forwarded-proto", "X-Forwarded-PROTO"],
}
PROTOS = ["http", "https", "https", "http", "HTTPS", "ws", "", "https ", "ftp", "http/1.1", "on"]


def _one_ip(rng, trusted, addrs):
    k = rng.random()
    if k < 0.40:
        return rng.choice(V4)
    if k < 0.52:
        return rng.choice(V6)
    if k < 0.60:
        return rng.choice(SHORT)
    if k < 0.75 and trusted:
        return rng.choice(trusted)
    if k < 0.80:
        return rng.choice(addrs)
    if k < 0.84:
        return rng.choice(V4) + rng.choice(WS) if rng.random() < 0.5 else rng.choice(WS) + rng.choice(V4)
    return rng.choice(GARBAGE)


def _xff(rng, trusted, addrs):
    n = rng.choice([1, 1, 2, 2, 3, 4])
    ents = [_one_ip(rng, trusted, addrs) for _ in range(n)]
    if trusted and rng.random() < 0.5:
        # typical proxy chain: client, ..., trusted proxies on the right
        k = rng.randint(1, min(3, n))
        for j in range(n - k, n):
            ents[j] = rng.choice(trusted)
    if rng.random() < 0.08:
        ents.insert(rng.randint(0, len(ents)), "")
    out = ents[0]
    for e in ents[1:]:
        out += rng.choice(SEPS) + e
    return out


def _proto(rng):
    if rng.random() < 0.25:
        return rng.choice(SEPS).join(rng.choice(PROTOS) for _ in range(rng.randint(2, 3)))
    return rng.choice(PROTOS)


def _headers(rng, trusted, addrs):
    """Per-request proxy header lines (possibly none)."""
    lines = []
    style = rng.random()
    if style < 0.22:
        return lines
    if rng.random() < 0.5:
        lines.append([rng.choice(NAMES["xff"]), _xff(rng, trusted, addrs)])
        if rng.random() < 0.12:
            lines.append([rng.choice(NAMES["xff"]), _xff(rng, trusted, addrs)])
    if rng.random() < 0.4:
        lines.append([rng.choice(NAMES["xri"]), _one_ip(rng, trusted, addrs)])
        if rng.random() < 0.06:
            lines.append([rng.choice(NAMES["xri"]), _one_ip(rng, trusted, addrs)])
    if rng.random() < 0.35:
        lines.append([rng.choice(NAMES["xs"]), _proto(rng)])
    if rng.random() < 0.35:
        lines.append([rng.choice(NAMES["xfp"]), _proto(rng)])
    rng.shuffle(lines)
    if rng.random() < 0.15:
        lines = [[k, rng.choice([" ", "\t", "  "]) + v + rng.choice(["", " ", "\t "])]
                 for k, v in lines]
    return lines


def build_request(ci, ri, r):
    body = b""
    b = r.get("body")
    if isinstance(b, str) and b.startswith("hex:"):
        try:
            body = bytes.fromhex(b[4:])
        except ValueError:
            body = b""
    te = r.get("te", "none")
    method = "GET" if te == "none" else "POST"
    head = ["%s /%s/%d/%d HTTP/1.1" % (method, r.get("hk", "s"), ci, ri), "Host: h"]
    for kv in r.get("xh") or ():
        if isinstance(kv, list) and len(kv) == 2 and isinstance(kv[0], str) \
                and isinstance(kv[1], str):
            head.append("%s:%s" % (kv[0], kv[1]))
    if te == "cl":
        head.append("Content-Length: %d" % len(body))
        tail = body
    elif te == "chunked":
        head.append("Transfer-Encoding: chunked")
        tail = (b"%x\r\n" % len(body) + body + b"\r\n" if body else b"") + b"0\r\n\r\n"
    elif te == "badchunk":
        head.append("Transfer-Encoding: chunked")
        tail = b"zz\r\n" + body + b"\r\n0\r\n\r\n"
    elif te == "clte":
        head.append("Content-Length: %d" % len(body))
        head.append("Transfer-Encoding: chunked")
        tail = body
    else:
        tail = b""
    return "\r\n".join(head).encode("latin1") + b"\r\n\r\n" + tail


ADDRS = [["127.0.0.1", 4], ["10.0.0.1", 4], ["192.0.2.44", 4], ["198.51.100.7", 4],
         ["::1", 6], ["2001:db8::99", 6], ["", 1]]


def gen(rng, tier, index):
    trusted = rng.choice([[], [], ["10.0.0.1"], ["10.0.0.1", "10.0.0.2"], ["127.0.0.1", "::1"],
                          ["10.0.0.1", "5.5.5.5", "192.168.0.1"], ["10.0.0.2", "1.2.3.4"]])
    app = "web" if rng.random() < 0.8 else "callable"
    nconn = 1 if rng.random() < 0.75 else 2
    conns = []
    for ci in range(nconn):
        addr = rng.choice(ADDRS) if rng.random() < 0.9 else ["", 1]
        addrs = [addr[0] or "0.0.0.0"]
        nreq = rng.choice([2, 2, 3, 3, 4]) if tier == "quick" else rng.choice([2, 3, 4, 4, 6])
        # slow reader: small client window, the client starts draining the responses late, so
        # a response can still be in the server's write buffer when the handler has finished
        slow = rng.random() < 0.25
        drain = rng.choice([3, 6, 12]) if slow else 0
        reqs = []
        for ri in range(nreq):
            hk = rng.choice(["s", "s", "a", "a", "t", "t", "e", "x"])
            te = rng.choice(["none", "none", "cl", "chunked"])
            if hk == "e":
                te = rng.choice(["cl", "chunked", "none"])
            rej = rng.random() < 0.06
            if rej:
                te = rng.choice(["badchunk", "clte"])
            n = 0 if te == "none" else rng.choice([0, 1, 5, 20])
            r = {"hk": hk, "te": te, "body": "hex:" + bytes(65 + (i % 26) for i in range(n)).hex(),
                 "xh": _headers(rng, trusted, addrs),
                 "sleep": rng.choice([0, 1, 2, 4]) if hk in ("a", "t", "x") else 0}
            if hk == "a" and not r["sleep"]:
                r["sleep"] = 1
            if slow and ri < nreq - 1 and rng.random() < 0.5:
                # answered before the body is read, with a response that does not fit the window
                r["hk"] = "e"
                if r["te"] in ("badchunk", "clte"):
                    r["te"] = "cl"
                r["big"] = rng.choice([600, 3000, 9000])
            reqs.append(r)
        # segmentation: pipelined (no boundary gaps), sequential (gap after each request) or mixed
        sizes = [len(build_request(ci, ri, r)) for ri, r in enumerate(reqs)]
        total = sum(sizes)
        mode = rng.choice(["pipelined", "pipelined", "sequential", "mixed", "bytes"])
        cuts, gaps = [], []
        pos = 0
        for ri, sz in enumerate(sizes[:-1]):
            pos += sz
            if mode == "sequential" or (mode == "mixed" and rng.random() < 0.5):
                cuts.append(pos)
                gaps.append(3 + reqs[ri]["sleep"] + rng.choice([0, 0, 2]) + drain)
            elif mode == "pipelined" and rng.random() < 0.3:
                cuts.append(pos)
                gaps.append(rng.choice([0, 1]))
        if mode == "bytes" or rng.random() < 0.25:
            extra = sorted(rng.sample(range(1, total), min(total - 1, rng.randint(1, 6))))
            merged = sorted(set(cuts) | set(extra))
            g2 = []
            for c in merged:
                g2.append(gaps[cuts.index(c)] if c in cuts else rng.choice([0, 1, 1, 2]))
            cuts, gaps = merged, g2
        conns.append({"addr": addr, "requests": reqs, "cuts": cuts, "gaps": gaps,
                      "start": 0 if ci == 0 else rng.choice([0, 1, 3, 9]),
                      "end": rng.choice(["keep", "keep", "fin", "close", "rst"]
                                        + (["keep"] * 6 if slow else [])),
                      "end_gap": rng.choice([0, 1, 3, 8]) + drain,
                      "tail": rng.choice([0, 0, 0, 10, 40]),
                      "window": rng.choice([32, 100, 400]) if slow else None,
                      "drain": drain})
    tapes = {}
    if rng.random() < 0.2:
        tapes["recv_cap"] = {"v": [rng.choice([0, 1, 7, 30]) for _ in range(rng.randint(1, 5))],
                             "cycle": True}
    if rng.random() < 0.1:
        tapes["defer"] = [rng.choice([0, 1]) for _ in range(8)]
    if rng.random() < 0.1:
        tapes["order"] = [rng.choice([0, 1, 65]) for _ in range(8)]
    return {"property": ID, "version": 1,
            "knobs": {"trusted": trusted, "protocol": rng.choice([None, None, None, "https"]),
                      "app": app, "chunk_size": rng.choice([None, None, 8, 64])},
            "conns": conns, "tapes": tapes}


def validate(scn):
    try:
        kn = scn["knobs"]
        if kn.get("app") not in ("web", "callable"):
            return False
        if not isinstance(kn.get("trusted"), list) or any(not isinstance(t, str) for t in kn["trusted"]):
            return False
        if kn.get("chunk_size") is not None and kn["chunk_size"] < 1:
            return False
        if not scn["conns"]:
            return False
        for c in scn["conns"]:
            a = c["addr"]
            if not (isinstance(a, list) and len(a) == 2 and a[1] in (1, 4, 6) and isinstance(a[0], str)):
                return False
            if a[1] != 1 and not valid_ip(a[0]):
                return False
            if not isinstance(c["requests"], list):
                return False
            for r in c["requests"]:
                if not isinstance(r, dict) or r.get("hk") not in ("s", "a", "t", "e", "x"):
                    return False
                if r.get("te", "none") not in ("none", "cl", "chunked", "badchunk", "clte"):
                    return False
                for kv in r.get("xh") or ():
                    if not (isinstance(kv, list) and len(kv) == 2):
                        return False
        return True
    except Exception:
        return False


# --------------------------------------------------------------------------
# run + oracle


def run(scn, full_log=False):
    import socket as _s
    knobs = scn["knobs"]
    conns = scn["conns"]
    trusted = list(knobs.get("trusted") or ())
    conn_proto = knobs.get("protocol") or "http"
    viol = []
    seen = set()

    def bad(rule, msg, disc=""):
        key = rule + ("/" + disc if disc else "")
        if key not in seen:
            seen.add(key)
            viol.append({"rule": rule, "key": key, "msg": msg})

    bound = 20
    for c in conns:
        bound += (c.get("start") or 0) + (c.get("end_gap") or 0) + (c.get("drain") or 0)
        bound += sum(g for g in c.get("gaps") or () if isinstance(g, int) and g > 0)
        bound += sum((r.get("sleep") or 0) + 2 + len(r.get("body") or "") // 2
                     for r in c.get("requests") or ())

    with SimEnv(scn.get("tapes"), max_iters=60_000, max_time=2000.0, full_log=full_log) as env:
        loop = env.loop
        st = _St(env, conns)
        box = {}

        async def main():
            kw = {"xheaders": True, "trusted_downstream": trusted}
            if knobs.get("protocol"):
                kw["protocol"] = knobs["protocol"]
            if knobs.get("chunk_size"):
                kw["chunk_size"] = knobs["chunk_size"]
            server, ls4, rapp = _rigx.start_server(env, _make_app(knobs.get("app"), st), **kw)
            box["server"], box["rapp"] = server, rapp
            listeners = {4: ls4}
            peers = []
            for ci, c in enumerate(conns):
                fam = c["addr"][1]
                if fam not in listeners:
                    if fam == 6:
                        l2 = env.net.listen("::1", 80, int(_s.AF_INET6))
                    else:
                        l2 = env.net.listen("/sock", 0, int(_s.AF_UNIX))
                    server.add_socket(l2)
                    listeners[fam] = l2
                if fam == 1:
                    pa = ""
                elif fam == 6:
                    pa = (c["addr"][0], 40000 + ci, 0, 0)
                else:
                    pa = (c["addr"][0], 40000 + ci)
                data = b"".join(build_request(ci, ri, r) for ri, r in enumerate(c["requests"]))
                tail = c.get("tail") or 0
                if tail:
                    data += build_request(ci, 99, {"hk": "s", "te": "none",
                                                   "xh": [["X-Real-Ip", "66.66.66.66"]]})[:tail]
                loop.call_later((c.get("start") or 0) * UNIT, _drive, env, listeners[fam], ci, c,
                                pa, data, peers)
            await asyncio.sleep(bound * UNIT)
            await loop.idle()
            await httprig.shutdown(server)

        async def _drain(peer, delay):
            """Slow reader: nothing is read for `delay` units, then everything as it comes."""
            if delay:
                await asyncio.sleep(delay * UNIT)
            rx = peer.rx
            while True:
                await peer.wait(lambda: bool(rx.rbuf) or rx.fin or rx.rst or peer.closed)
                if peer.closed or rx.rst:
                    return
                if rx.rbuf:
                    st.probes["slow_reader_drained"] = 1
                peer.consume()
                if rx.fin and not rx.rbuf:
                    return

        def _drive(env, ls, ci, c, pa, data, peers):
            w = c.get("window")
            peer, _ = httprig.connect(env, ls, name="c%d" % ci, peer_addr=pa,
                                      window=w if isinstance(w, int) and w > 0 else None)
            peers.append(peer)
            if isinstance(w, int) and w > 0:
                peer.auto = False
                loop.create_task(_drain(peer, c.get("drain") or 0))
            if data:
                httprig.send_cut(peer, data, c.get("cuts") or (), c.get("gaps") or ())
            D = max(0.0, (peer.tx.last_arrival - loop.time()) / UNIT) if data else 0
            end = c.get("end", "keep")
            g = c.get("end_gap") or 0
            if end == "fin":
                peer.half_close(gap=g)
            elif end == "close":
                loop.call_later((D + g) * UNIT, peer.close)
            elif end == "rst":
                loop.call_later((D + g) * UNIT, peer.reset)

        status = env.run(main())
        if status != "done":
            bad("harness.run_" + status.split(":")[0],
                f"{status}: {getattr(env, 'main_exception', None)!r}")

        # ---------------- oracle
        probes = st.probes

        def probe(n):
            probes[n] = probes.get(n, 0) + 1

        rapp = box.get("rapp")
        term = {}  # (ci, ri) -> "F" / "C" / ""
        for rec in (rapp.records if rapp else ()):
            if rec.target:
                ci, ri = _ids(rec.target)
                term[(ci, ri)] = "F" if rec.finished else ("C" if rec.closed else "")
        nontrivial = False
        nobs = 0
        for ci, c in enumerate(conns):
            fam = c["addr"][1]
            sock_ip = "0.0.0.0" if fam == 1 else c["addr"][0]
            earlier = []  # (ri, observed ip, observed proto, terminal)
            for ri, r in enumerate(c["requests"]):
                o = st.obs.get((ci, ri))
                if not o or "prep" not in o:
                    continue
                nobs += 1
                lines = [(kv[0], kv[1]) for kv in r.get("xh") or ()]
                ips, protos, tags = expected(sock_ip, conn_proto, lines, trusted)
                for t in tags:
                    probe(t)
                ip, proto = o["prep"]
                where = f"conn {ci} request {ri} (/{r.get('hk')}, headers {lines!r}, socket {sock_ip})"
                if "end" in o and o["end"] != o["prep"]:
                    bad("xheaders.changed_during_request",
                        f"{where}: {o['prep']} at prepare, {o['end']} at the end of the handler")
                if not isinstance(ip, str) or not valid_ip(ip):
                    bad("xheaders.remote_ip_not_numeric", f"{where}: remote_ip={ip!r}")
                if proto not in ("http", "https"):
                    bad("xheaders.protocol_not_http_or_https", f"{where}: protocol={proto!r}")
                prev_term = earlier[-1][3] if earlier else ""
                if ip not in ips:
                    own = " ".join(v for _, v in lines)
                    src = [e for e in earlier if e[1] == ip]
                    if src and ip != sock_ip and (not isinstance(ip, str) or ip not in own):
                        bad("xheaders.remote_ip_leak",
                            f"{where}: remote_ip={ip!r}, allowed {sorted(ips)}; that is what request "
                            f"{src[-1][0]} of the same connection had (it ended with "
                            f"{src[-1][3] or '?'})", "after-" + (src[-1][3] or "none"))
                    else:
                        bad("xheaders.remote_ip_wrong",
                            f"{where}: remote_ip={ip!r}, allowed {sorted(ips)}",
                            "from_header" if ip != sock_ip else "socket")
                if proto not in protos:
                    own = " ".join(v for _, v in lines)
                    src = [e for e in earlier if e[2] == proto]
                    if src and proto != conn_proto and (not isinstance(proto, str)
                                                        or proto not in own):
                        bad("xheaders.protocol_leak",
                            f"{where}: protocol={proto!r}, allowed {sorted(protos)}; that is what "
                            f"request {src[-1][0]} of the same connection had (it ended with "
                            f"{src[-1][3] or '?'})", "after-" + (src[-1][3] or "none"))
                    else:
                        bad("xheaders.protocol_wrong",
                            f"{where}: protocol={proto!r}, allowed {sorted(protos)}")
                if earlier:
                    probe("observed_request_k_ge_2")
                    if any(e[1] not in ips or e[2] not in protos for e in earlier):
                        nontrivial = True
                        probe("leak_would_be_visible")
                    if prev_term == "C":
                        # unreachable since /repo d60607c (the serving loop stops once the stream
                        # is closed); if it ever fires again, cleanup through on_connection_close
                        # is observable again (selftest/mutants/equivalent/C32-close-no-cleanup)
                        probe("observed_after_close_terminated_request")
                    if not lines and any(e[4] for e in earlier):
                        probe("plain_request_after_proxied_request")
                earlier.append((ri, ip, proto, term.get((ci, ri), ""), bool(lines)))
        for (ci, ri), t in term.items():
            if t == "C":
                probe("delegate_ended_by_close")
        if nobs == 0:
            probe("nothing_observed")
        stt = env.stats()
        stt["probes"].update(probes)
        outcome = {"status": status,
                   "obs": sorted((k[0], k[1], v.get("prep"), v.get("end")) for k, v in st.obs.items()),
                   "term": sorted((k[0], k[1], v) for k, v in term.items())}
        return {"violations": viol, "nontrivial": nontrivial, "stats": stt,
                "log_head": env.log.head, "log_full": env.log.full, "outcome": outcome}
