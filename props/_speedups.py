"""(Re)build tornado/speedups.c and select the WebSocket mask routine per run.

`tornado/speedups.abi3.so` is git-ignored: after a fresh restore it is absent
or stale.  ``ensure()`` compiles `<repo>/tornado/speedups.c` (the repo tornado
was imported from, so VERIF_REPO scratch copies build their own) with gcc into
`/verif/.build/speedups-<sha256 of the source, python ABI>/`, exactly as setup.py
does (Py_LIMITED_API=0x030a0000 unless the interpreter is free-threaded), and
loads that file explicitly - never whatever .so happens to lie in the tree.

``use(kind)`` is a context manager that makes tornado.websocket (and
tornado.util) mask with the C routine ("c") or with
tornado.util._websocket_mask_python ("python") for the duration of a run and
reports which one really ran ("c", "python", or "python_fallback" when the C
build failed).
"""

import contextlib
import hashlib
import importlib.machinery
import importlib.util
import os
import subprocess
import sys
import sysconfig

VERIF = os.path.dirname(os.path.dirname(os.path.abspath(__file__)))
BUILD = os.path.join(VERIF, ".build")

_state = {"done": False, "fn": None, "why": None, "path": None}


def _source_path():
    import tornado
    return os.path.join(os.path.dirname(os.path.abspath(tornado.__file__)), "speedups.c")


def ensure():
    """Returns the C ``websocket_mask`` function, or None (reason in ``status()``)."""
    if _state["done"]:
        return _state["fn"]
    _state["done"] = True
    try:
        src = _source_path()
        with open(src, "rb") as f:
            code = f.read()
        limited = not sysconfig.get_config_var("Py_GIL_DISABLED")
        tagsrc = code + sys.version.encode() + (b"L" if limited else b"F")
        tag = hashlib.sha256(tagsrc).hexdigest()[:16]
        d = os.path.join(BUILD, "speedups-" + tag)
        so = os.path.join(d, "speedups.abi3.so" if limited else
                          "speedups" + (sysconfig.get_config_var("EXT_SUFFIX") or ".so"))
        if not os.path.exists(so):
            os.makedirs(d, exist_ok=True)
            inc = sysconfig.get_paths()["include"]
            tmp = so + ".tmp%d" % os.getpid()
            cmd = ["gcc", "-shared", "-fPIC", "-O2", "-fno-strict-aliasing",
                   "-I", inc]
            if limited:
                cmd.append("-DPy_LIMITED_API=0x030a0000")
            cmd += [src, "-o", tmp]
            p = subprocess.run(cmd, capture_output=True, text=True, timeout=120)
            if p.returncode != 0 or not os.path.exists(tmp):
                _state["why"] = "gcc failed: " + (p.stderr or p.stdout or "")[-300:]
                return None
            os.replace(tmp, so)  # atomic: concurrent checks may race here
        loader = importlib.machinery.ExtensionFileLoader("tornado.speedups", so)
        spec = importlib.util.spec_from_file_location("tornado.speedups", so, loader=loader)
        mod = importlib.util.module_from_spec(spec)
        loader.exec_module(mod)
        fn = mod.websocket_mask
        # smoke test against the definition in RFC 6455 5.3
        m = b"\x01\x80\xff\x10"
        data = bytes(range(37))
        if fn(m, data) != bytes(b ^ m[i % 4] for i, b in enumerate(data)):
            _state["why"] = "built extension returned a wrong mask"
            return None
        _state["fn"] = fn
        _state["path"] = so
        return fn
    except Exception as e:  # gcc missing, unreadable source, load error ...
        _state["why"] = "%s: %s" % (type(e).__name__, e)
        return None


def status():
    ensure()
    return {"c_available": _state["fn"] is not None, "path": _state["path"],
            "why_not": _state["why"]}


@contextlib.contextmanager
def use(kind):
    """kind: "c" | "python".  Yields what is really in effect."""
    import tornado.util
    import tornado.websocket
    fn = ensure() if kind == "c" else None
    if kind == "c" and fn is None:
        eff = "python_fallback"
    else:
        eff = kind
    if fn is None:
        fn = tornado.util._websocket_mask_python
    saved = (tornado.util._websocket_mask, tornado.websocket._websocket_mask)
    tornado.util._websocket_mask = fn
    tornado.websocket._websocket_mask = fn
    try:
        yield eff
    finally:
        tornado.util._websocket_mask, tornado.websocket._websocket_mask = saved
