"""Shared driver machinery for C33 / C34 / C35 (locks, conditions/events, queues).

A driver coroutine on the SimLoop executes an op list against the real object
and against a sequential model (ref/models_sync.py).  This file holds what the
three modules have in common: timeout specs, the gap between consecutive ops,
tracking of the futures handed out, observing timer expiries and feeding them
to the model, comparing every future with the model after every op, and the
final check of the order in which futures resolved.

Time: all instants are integer multiples of UNIT since the start of the run
(``Rig.now()``).  Inside the simulation ``IOLoop.time() == time.time() ==
loop.wall() == WALL0 + now*UNIT`` exactly.

Timeout spec (scenario JSON):   None | ["abs", k] | ["td", k] | ["zero"]
  ["abs", k]  absolute deadline  WALL0 + (now + k) * UNIT   (k <= 0: already past)
  ["td", k]   datetime.timedelta of 16*k UNITs (timedelta has microsecond
              resolution; 16 UNITs = 15625 us is exact), k = 0: timedelta(0)
  ["zero"]    the number 0 (an absolute deadline far in the past; the 6.6 rule:
              zero is a timeout, not "wait forever")

Gap spec:   ["none"] same callback | ["yield"] one loop iteration |
            ["idle"] run to idle at the current instant |
            ["adv", d] advance the clock d units, then idle |
            ["dl", j, delta] advance to (j-th smallest pending deadline) + delta, then idle
"""

import asyncio
import datetime

from sim.env import UNIT, T0, WALL0
from ref.models_sync import (PENDING, OK, TIMEOUT, CANCELLED, WOKEN, EITHER, FINAL)

PEND = ("pending",)
CANC = ("cancelled",)
TMO = ("exc", "TimeoutError")
EVENT_ROLES = ("ewait", "join")
TD16 = 15625  # microseconds in 16 UNITs


def valid_timeout(t):
    if t is None:
        return True
    if not isinstance(t, list) or not t:
        return False
    if t[0] == "zero":
        return len(t) == 1
    if t[0] == "abs":
        return len(t) == 2 and isinstance(t[1], int) and -1000 <= t[1] <= 100000
    if t[0] == "td":
        return len(t) == 2 and isinstance(t[1], int) and 0 <= t[1] <= 5000
    return False


def valid_gap(g):
    if g is None:
        return True
    if not isinstance(g, list) or not g:
        return False
    if g[0] in ("none", "yield", "idle"):
        return len(g) == 1
    if g[0] == "adv":
        return len(g) == 2 and isinstance(g[1], int) and 0 <= g[1] <= 100000
    if g[0] == "dl":
        return (len(g) == 3 and isinstance(g[1], int) and g[1] >= 0
                and isinstance(g[2], int) and -3 <= g[2] <= 3)
    return False


def gen_timeout(rng, p_timeout, used, tn):
    """Draw a timeout spec; ``used``: nominal deadlines already taken, ``tn``: nominal now."""
    if rng.random() >= p_timeout:
        return None
    r = rng.random()
    if r < 0.10:
        return ["zero"]
    if r < 0.18:
        return ["td", 0]
    if r < 0.25:
        return ["abs", rng.choice([0, 0, -1, -3])]
    if r < 0.40:
        k = rng.choice([1, 1, 2])
        used.add(tn + 16 * k)
        return ["td", k]
    for _ in range(8):
        k = rng.randint(1, 14)
        if tn + k not in used:
            break
    used.add(tn + k)
    return ["abs", k]


def gen_gap(rng, mix):
    """mix: cumulative thresholds (none, yield, idle, dl); rest = adv."""
    r = rng.random()
    if r < mix[0]:
        return ["none"]
    if r < mix[1]:
        return ["yield"]
    if r < mix[2]:
        return ["idle"]
    if r < mix[3]:
        return ["dl", rng.choice([0, 0, 0, 1, 2]), rng.choice([-1, 0, 0, 1])]
    return ["adv", rng.choice([1, 1, 2, 3, 5, 16, 17])]


GAP_MIXES = [
    (0.35, 0.55, 0.70, 0.95),
    (0.60, 0.80, 0.88, 0.97),  # mostly same-callback bursts
    (0.10, 0.25, 0.45, 0.95),  # mostly settled
    (0.25, 0.40, 0.50, 0.98),  # deadline-centred
    (0.20, 0.70, 0.80, 0.95),  # single iterations
]


def gen_tapes(rng):
    tapes = {}
    if rng.random() < 0.3:
        tapes["late"] = [rng.choice([0, 0, 1, 1, 2, 3]) for _ in range(rng.randint(1, 8))]
    return tapes


def permuter(p):
    """Iteration order for tornado._verif.OrderedSet: rotate by p, reverse if p & 64."""
    if not p:
        return None

    def permute(items):
        n = len(items)
        if n < 2:
            return items
        r = p % n
        out = items[r:] + items[:r]
        if p & 64:
            out.reverse()
        return out
    return permute


class Rig:
    def __init__(self, env, model, prefix, viol, probes):
        self.env = env
        self.loop = env.loop
        self.model = model
        self.prefix = prefix
        self.viol = viol
        self.probes = probes
        self.futs = {}  # wid -> future
        self.open = []  # wids whose model state or real state is not final yet
        self.order = []  # wids in the order their done-callbacks ran
        self.done_at = {}  # wid -> loop time when its done-callback ran
        self.exp = {}  # wid -> (phase, rank): where the model says it resolved
        self.blocked = set()  # wids that were pending after the op that created them
        self.phase = 0
        self.nwid = 0
        self.n_expired = 0
        self.n_cancelled = 0
        self.n_served = 0  # blocked waiters later resolved successfully by an op
        self.n_event_served = 0  # Event-style waits with a timeout that completed successfully
        self.n_closed_ok = 0  # closed waiters whose real future carries a result
        self.on_final = None  # callback(wid) when a waiter is final (e.g. finish a coroutine)

    # ---- bookkeeping ----------------------------------------------------
    def bad(self, rule, msg, key=None):
        self.viol.append({"rule": rule, "key": key or rule, "msg": msg})

    def probe(self, name, n=1):
        self.probes[name] = self.probes.get(name, 0) + n

    def now(self):
        return int((self.loop.time() - T0) * 1024)

    def new_wid(self):
        self.nwid += 1
        return self.nwid

    def timeout(self, spec):
        """-> (has_timeout, argument for Tornado, deadline in units for the model)."""
        if spec is None:
            return False, None, None
        now = self.now()
        k = spec[0]
        if k == "zero":
            self.probe("timeout_zero")
            return True, 0, now
        if k == "td":
            n = spec[1]
            if n == 0:
                self.probe("timeout_zero")
            return True, datetime.timedelta(microseconds=TD16 * n), now + 16 * n
        n = spec[1]
        if n <= 0:
            self.probe("timeout_past")
        return True, WALL0 + (now + n) * UNIT, now + n

    def track(self, wid, fut):
        self.futs[wid] = fut
        self.open.append(wid)
        order = self.order
        done_at = self.done_at
        loop = self.loop

        def cb(f, w=wid):
            order.append(w)
            done_at[w] = loop.time()  # callbacks run at the instant of resolution
        fut.add_done_callback(cb)

    def after_create(self, wid):
        """Call after the creating op was applied to the model."""
        if self.model.waiter(wid).state == PENDING:
            self.blocked.add(wid)

    def resolved_by_op(self, wids):
        """The model says the current op resolved these waiters, in this order."""
        for r, wid in enumerate(wids):
            self.exp[wid] = (self.phase, r)
            if wid in self.blocked:
                self.n_served += 1

    def rstate(self, wid):
        f = self.futs[wid]
        if not f.done():
            return PEND
        if f.cancelled():
            return CANC
        e = f.exception()
        if e is not None:
            return ("exc", type(e).__name__)
        r = f.result()
        if r is None or r is True or r is False or isinstance(r, int):
            return ("ok", r)
        return ("ok", type(r).__name__)

    # ---- the gap between two ops ---------------------------------------------
    async def gap(self, g):
        """-> None (no gap), False (ran, not necessarily idle), True (idle reached)."""
        k = g[0] if g else "none"
        if k == "none":
            return None
        loop = self.loop
        if k == "yield":
            await asyncio.sleep(0)
            return False
        if k == "idle":
            await loop.idle()
            return True
        if k == "adv":
            d = g[1]
        else:
            dls = self.model.pending_deadlines()
            if dls:
                d = dls[g[1] % len(dls)] + g[2] - self.now()
            else:
                d = 1
        if d > 0:
            await asyncio.sleep(d * UNIT)
        else:
            await asyncio.sleep(0)
        await loop.idle()
        return True

    # ---- expectations ------------------------------------------------------------
    def expected(self, w):
        st = w.state
        if st == PENDING:
            return PEND
        if st == CANCELLED:
            return CANC
        if st == TIMEOUT:
            return ("ok", False) if w.role == "cwait" else TMO
        # OK
        if w.role == "acq":
            return ("ok", "_ReleasingContextManager")
        if w.role == "cwait":
            return ("ok", True)
        if w.role == "get":
            return ("ok", w.value)
        return ("ok", None)

    def _close(self, wid):
        self.open.remove(wid)
        f = self.futs[wid]
        if f.done() and not f.cancelled() and f.exception() is None:
            self.n_closed_ok += 1
        if self.on_final is not None:
            self.on_final(wid)

    # ---- observation after a gap: timers may have run ---------------------------
    def observe(self, idle):
        m = self.model
        now = self.now()
        grp = (self.phase, 0)
        p = self.prefix
        for wid in list(self.open):
            w = m.waiter(wid)
            rs = self.rstate(wid)
            if w.role in EVENT_ROLES:
                self._event(wid, w, rs, idle, now)
                continue
            if w.state != PENDING:
                continue  # compare() reports it
            if rs == PEND:
                if idle and m.enabled(wid, now):
                    self.bad(p + ".timeout_missed",
                             f"{w.role} waiter #{wid}: deadline {w.deadline} passed (now {now}, "
                             f"loop idle) but its future is still pending",
                             f"{p}.timeout_missed/{w.role}")
                elif idle and w.deadline is not None and w.deadline - now == 1:
                    self.probe("idle_one_unit_before_deadline")
                continue
            want = ("ok", False) if w.role == "cwait" else TMO
            if rs == want:
                if m.enabled(wid, now):
                    m.expire(wid, now)
                    self.env.log.ev("expired", wid, now)
                    self.exp[wid] = grp
                    self.n_expired += 1
                    self.probe("expired_at_exact_deadline" if now == w.deadline
                               else "expired_late")
                    if w.deadline == w.born:
                        self.probe("expired_zero_or_past_timeout")
                    self._close(wid)
                else:
                    self.bad(p + ".timeout_early",
                             f"{w.role} waiter #{wid} timed out at {now}, before its deadline "
                             f"{w.deadline}", f"{p}.timeout_early/{w.role}")
            else:
                self.bad(p + ".spontaneous",
                         f"{w.role} waiter #{wid} resolved {rs} although no operation was "
                         f"performed since it was seen pending",
                         f"{p}.spontaneous/{w.role}/{rs[0]}")

    # ---- Event-style waiters (Event.wait, Queue.join): allowed sets -----------------
    def _event(self, wid, w, rs, idle, now):
        m = self.model
        st = w.state
        p = self.prefix
        role = w.role
        if rs == PEND:
            if st == OK:
                self.bad(p + ".event_lost_wakeup",
                         f"{role} #{wid}: flag was set while it waited (no timeout) but its "
                         f"future is pending", f"{p}.event_lost_wakeup/{role}/direct")
            elif st in (TIMEOUT, CANCELLED):
                self.bad(p + ".state_mismatch", f"{role} #{wid}: model {st}, real pending",
                         f"{p}.state_mismatch/{role}/{st}>pending")
            elif idle:
                if st in (WOKEN, EITHER):
                    self.bad(p + ".event_lost_wakeup",
                             f"{role} #{wid}: flag was set while it waited but the wait has not "
                             f"completed although the loop is idle",
                             f"{p}.event_lost_wakeup/{role}/timed")
                elif m.enabled(wid, now):
                    self.bad(p + ".timeout_missed",
                             f"{role} #{wid}: deadline {w.deadline} passed (now {now}, loop idle) "
                             f"but its future is still pending", f"{p}.timeout_missed/{role}")
                elif w.deadline is not None and w.deadline - now == 1:
                    self.probe("idle_one_unit_before_deadline")
            return
        if rs == ("ok", None):
            if st in (WOKEN, EITHER):
                if st == EITHER:
                    self.probe("event_set_after_deadline_wait_succeeded")
                m.confirm(wid)
                self.env.log.ev("completed", wid, now)
                self.n_event_served += 1
            elif st != OK:
                self.bad(p + ".event_woke_without_set",
                         f"{role} #{wid} completed although the flag was never set while it "
                         f"waited (model state {st})",
                         f"{p}.event_woke_without_set/{role}/{st}")
        elif rs == TMO:
            if st == WOKEN:
                self.bad(p + ".event_timeout_though_set",
                         f"{role} #{wid}: flag set strictly before deadline {w.deadline} but the "
                         f"wait raised TimeoutError",
                         f"{p}.event_timeout_though_set/{role}")
            elif st in (PENDING, EITHER):
                if m.enabled(wid, now):
                    if st == EITHER:
                        self.probe("event_set_after_deadline_wait_timed_out")
                    m.expire(wid, now)
                    self.env.log.ev("expired", wid, now)
                    self.n_expired += 1
                    self.probe("expired_at_exact_deadline" if now == w.deadline
                               else "expired_late")
                    if w.deadline == w.born:
                        self.probe("expired_zero_or_past_timeout")
                else:
                    self.bad(p + ".timeout_early",
                             f"{role} #{wid} timed out at {now}, before its deadline {w.deadline}",
                             f"{p}.timeout_early/{role}")
            elif st != TIMEOUT:
                self.bad(p + ".state_mismatch", f"{role} #{wid}: model {st}, real TimeoutError",
                         f"{p}.state_mismatch/{role}/{st}>timeout")
        elif rs == CANC:
            if st != CANCELLED:
                self.bad(p + ".state_mismatch", f"{role} #{wid}: model {st}, real cancelled",
                         f"{p}.state_mismatch/{role}/{st}>cancelled")
        else:
            self.bad(p + ".event_unexpected_outcome", f"{role} #{wid} resolved {rs}",
                     f"{p}.event_unexpected_outcome/{role}/{rs[1]}")
        if w.state in FINAL and wid in self.open:
            self._close(wid)

    # ---- comparison after an op ------------------------------------------------------
    def compare(self):
        m = self.model
        p = self.prefix
        now = self.now()
        for wid in list(self.open):
            w = m.waiter(wid)
            rs = self.rstate(wid)
            if w.role in EVENT_ROLES:
                self._event(wid, w, rs, False, now)
                continue
            ex = self.expected(w)
            if rs != ex:
                st = w.state
                if st == PENDING and rs[0] == "ok":
                    rule = "served_out_of_turn"
                elif st == OK and rs == PEND:
                    rule = "lost_wakeup"
                elif st in (TIMEOUT, CANCELLED) and rs[0] == "ok" and rs != ex:
                    rule = "dead_waiter_served"
                elif st == OK and rs[0] == "ok":
                    rule = "wrong_value"
                else:
                    rule = "state_mismatch"
                self.bad(f"{p}.{rule}",
                         f"{w.role} waiter #{wid}: model says {st}"
                         f"{'' if w.value is None else ' value ' + repr(w.value)}, "
                         f"real future is {rs}", f"{p}.{rule}/{w.role}/{st}>{rs[0]}")
            if w.state in FINAL:
                self._close(wid)

    # ---- cancel op (shared) -------------------------------------------------------------
    def cancel(self, j):
        """Cancel the j-th future handed out so far (mod count); no-op without futures."""
        if not self.futs:
            return
        wids = sorted(self.futs)
        wid = wids[j % len(wids)]
        was_open = self.model.waiter(wid).state not in FINAL
        ret = self.futs[wid].cancel()
        want = self.model.cancel(wid)
        self.probe("cancel_pending" if want else "cancel_done_noop")
        if want:
            self.n_cancelled += 1
            self.exp[wid] = (self.phase, 0)
        if ret != want:
            self.bad(self.prefix + ".cancel_return",
                     f"cancel() of waiter #{wid} returned {ret}, model says {want} "
                     f"(model state before: {'open' if was_open else 'final'})")

    # ---- end of run --------------------------------------------------------------------
    def check_order(self, skip_roles=EVENT_ROLES):
        """Done-callbacks ran in the order in which the model resolved the waiters."""
        m = self.model
        # timers never fire early: exact, from the instant the future resolved
        for wid, t in self.done_at.items():
            w = m.waiter(wid)
            if w.state == TIMEOUT and w.deadline is not None:
                at = int((t - T0) * 1024)
                if at < w.deadline:
                    self.bad(self.prefix + ".timeout_early",
                             f"{w.role} waiter #{wid} timed out at {at}, before its deadline "
                             f"{w.deadline}", f"{self.prefix}.timeout_early/{w.role}")
        seq = [w for w in self.order if w in self.exp and w in self.blocked
               and m.waiter(w).role not in skip_roles]
        last = None
        lastw = None
        for wid in seq:
            k = self.exp[wid]
            if last is not None and k < last:
                self.bad(self.prefix + ".resolution_order",
                         f"waiter #{wid} (model position {k}) resolved after waiter #{lastw} "
                         f"(model position {last})")
                break
            last, lastw = k, wid
        missing = [w for w in self.exp if w in self.blocked and w not in self.order
                   and m.waiter(w).role not in skip_roles]
        if missing and not self.viol:
            self.bad(self.prefix + ".callback_missing",
                     f"done-callbacks of waiters {missing} never ran although the model says "
                     f"they resolved and the loop is idle")

    def check_logs(self):
        env = self.env
        for r in env.errors():
            m = r[2]
            i = m.find(" at 0x")
            m = m[:i] if i >= 0 else m
            self.bad(self.prefix + ".error_logged", f"{r[0]} {r[1]} {m[:100]} {r[3]}",
                     f"{self.prefix}.error_logged/{r[3]}")
        for msg, exc in env.loop_errors:
            self.bad(self.prefix + ".loop_error", f"{msg} {exc}",
                     f"{self.prefix}.loop_error/{exc}")


async def drive(rig, ops, do_op, stop_on_violation=True):
    """Run ``ops``; returns the number of ops executed."""
    n = 0
    for op in ops:
        rig.phase += 1
        idle = await rig.gap(op.get("gap"))
        if idle is not None:
            rig.observe(idle)
            if rig.viol and stop_on_violation:
                break
        rig.phase += 1
        do_op(op)
        rig.compare()
        n += 1
        if rig.viol and stop_on_violation:
            break
    return n
