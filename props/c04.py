"""C04 - server size limits bound what a peer can make the application buffer.

Real HTTPServer with max_header_size / max_body_size / max_buffer_size /
decompress_request / chunk_size knobs; requests whose header block, declared
or chunked body, or decompressed gzip body sit at limit-1, limit, limit+1 and
far above; per-request set_max_body_size from the application (streaming
handler's prepare, raw delegate's headers_received).  Oracle: the reference
reader with the same limits (exactly-at-limit is accepted) + "the delegate is
never handed more than the effective limit".  See DESIGN.md 4/C04.

What the header limit measures (derived from the source, http1connection.py
_read_message -> IOStream.read_until_regex(b"\\r?\\n\\r?\\n", max_bytes=N) and
iostream.py _find_read_pos/_check_max_bytes): the read succeeds iff the match
*ends* within N bytes counted from the first byte not consumed by the previous
message, i.e. header block size = any leading empty lines + request line +
field lines + the terminating empty line, all line terminators included.
Block size == max_header_size is accepted, max_header_size + 1 is refused
(stream closed, no 400), independent of how the bytes arrive.
"""

import hashlib
import zlib

from ref.http_request import read_requests
from props import _h1

ID = "C04"
LEVEL = "exploration"
QUICK_N = 80000
THOROUGH_N = 1200000
CHUNK = 300
NO_SHRINK = ()
RULE = ("gen(seed): knobs max_header_size in 64..4096, max_body_size in 0..4096 or unset "
        "(then max_buffer_size or the 100 MB default applies), decompress_request, chunk_size "
        "1..65536, optional max_buffer_size >= 2*max_header_size; 1-3 well-formed pipelined "
        "requests whose header block is padded to limit-1/limit/limit+1/far above and whose "
        "body (Content-Length - also spelled as a list or repeated field line -, chunked with one/many/1-byte/crossing-last chunks, gzip with "
        "decompressed size at limit-1/limit/limit+1/bomb) is placed around the effective limit "
        "(global or per-request set_max_body_size override); one delivery under whole / "
        "structural / 1-byte-window / random segmentation with recv_cap tapes. "
        "non-trivial = some request has its header block within +-1 of or above "
        "max_header_size, or a wire/decompressed body within +-1 of or above its limit, AND "
        "(>=2 separate arrivals or a short read fired or a chunked body of >=2 chunks); "
        "distinct = distinct scenario hash")
COMPONENTS = {
    "real": ["tornado.httpserver.HTTPServer", "tornado.http1connection.HTTP1Connection/"
             "_GzipMessageDelegate", "tornado.iostream.IOStream (read_until_regex max_bytes, "
             "max_buffer_size)", "tornado.util.GzipDecompressor",
             "tornado.web.Application/RequestHandler/stream_request_body (2 of 4 variants)"],
    "stub": ["event loop poller+clock (sim.loop.SimLoop)", "sockets (sim.net.SimSocket)",
             "HTTP client (sim.net.RawPeer)", "reference reader (ref/http_request.py)"],
}
ASSUMPTIONS = [
    "a delivery that burns >10 s of its own CPU time (ITIMER_VIRTUAL, immune to machine load) inside one loop callback (no yield, so the "
    "iteration cap cannot see it) is reported as run.cpu_hang via a SIGVTALRM safety net; the net "
    "never fires in runs that yield",
    "exactly-at-limit is accepted (documented 'maximum amount')",
    "header block size = bytes from the end of the previous message through the blank line "
    "(leading empty lines, request line, fields, all CRLFs), see module docstring",
    "effective body limit = per-request set_max_body_size if the application called it, else "
    "max_body_size, else the stream's max_buffer_size (default 104857600); it bounds the wire "
    "body (Content-Length / sum of chunk sizes) and, with decompress_request, also the "
    "decompressed size",
    "max_buffer_size, when set, is >= 2*max_header_size so the read buffer cap itself never "
    "refuses a request that is within the HTTP limits",
]

DEFAULT_MAX = 104857600


# ---------------------------------------------------------------------------
# deterministic content


def _raw_body(n, zeros, salt=0):
    if n <= 0:
        return b""
    if zeros:
        return b"\0" * n
    # incompressible-ish, cheap, deterministic
    out = bytearray()
    h = hashlib.sha256(b"c04:%d" % salt).digest()
    while len(out) < n:
        out += h
        h = hashlib.sha256(h).digest()
    return bytes(out[:n])


def _gzip(raw):
    c = zlib.compressobj(6, zlib.DEFLATED, 16 + zlib.MAX_WBITS)
    return c.compress(raw) + c.flush()


def _build_request(spec, idx, marks, base):
    """bytes of one request; appends interesting absolute cut offsets to marks."""
    method = spec.get("method") or "POST"
    framing = spec.get("framing") or "none"
    raw = _raw_body(int(spec.get("raw_len") or 0), bool(spec.get("zeros")), idx)
    wire = _gzip(raw) if spec.get("gzip") else raw
    lines = [("%s /r%d HTTP/1.1" % (method, idx)).encode("latin1"), b"Host: h"]
    if spec.get("xlimit") is not None:
        lines.append(b"X-Limit: %d" % max(0, int(spec["xlimit"])))
    if spec.get("gzip"):
        lines.append(b"Content-Encoding: gzip")
    if framing == "cl":
        v = b"%d" % (len(wire) if spec.get("cl_claim") is None else max(0, int(spec["cl_claim"])))
        form = spec.get("cl_form")
        if form == "list":
            lines.append(b"Content-Length: " + v + b"," + v)
        elif form == "list_sp":
            lines.append(b"Content-Length: " + v + b", " + v + b",\t" + v)
        elif form == "dup":
            lines.append(b"Content-Length: " + v)
            lines.append(b"content-length: " + v)
        else:
            lines.append(b"Content-Length: " + v)
    elif framing == "chunked":
        lines.append(b"Transfer-Encoding: chunked")
    if spec.get("close"):
        lines.append(b"Connection: close")
    pad = spec.get("pad")
    if pad is not None:
        lines.append(b"X-Pad: " + b"a" * max(0, int(pad)))
    head = (b"\r\n" * max(0, int(spec.get("blank") or 0))) + b"\r\n".join(lines) + b"\r\n\r\n"
    out = bytearray(head)
    marks += [base + len(head) - 2, base + len(head) - 1, base + len(head), base + len(head) + 1]
    if framing == "cl":
        out += wire
    elif framing == "chunked":
        pos = 0
        sizes = [int(c) for c in (spec.get("chunks") or []) if isinstance(c, int) and c > 0]
        for k in sizes:
            if pos >= len(wire):
                break
            k = min(k, len(wire) - pos)
            out += b"%x\r\n" % k
            out += wire[pos:pos + k]
            marks.append(base + len(out))
            out += b"\r\n"
            pos += k
            if len(marks) < 400:
                marks.append(base + len(out))
        if pos < len(wire):
            out += b"%x\r\n" % (len(wire) - pos) + wire[pos:] + b"\r\n"
        out += b"0\r\n\r\n"
    marks.append(base + len(out))
    return bytes(out)


def build_stream(scn):
    marks = []
    out = bytearray()
    for i, spec in enumerate(scn.get("reqs") or []):
        if not isinstance(spec, dict):
            continue
        out += _build_request(spec, i, marks, len(out))
    return bytes(out), marks


# ---------------------------------------------------------------------------
# generation

H_CHOICES = [64, 128, 128, 256, 256, 1000, 1000, 4096]
B_CHOICES = [0, 1, 2, 10, 64, 100, 1000, 4096]
CHUNKS = [1, 2, 7, 16, 64, 1024, 65536]


def _around(rng, limit, far):
    r = rng.random()
    if r < 0.16:
        return max(0, limit - 1)
    if r < 0.40:
        return limit
    if r < 0.64:
        return limit + 1
    if r < 0.76:
        return far
    if r < 0.86:
        return limit + rng.choice([2, 7, 63, 64, 65])
    return rng.choice([0, 1, 5, max(0, limit // 2)])


def gen(rng, tier, index):
    H = rng.choice(H_CHOICES)
    B = rng.choice(B_CHOICES + [None, None])
    mbs = None
    if rng.random() < 0.3:
        mbs = rng.choice([2 * H + 2, 2 * H + 100, 8192 + 2 * H, 16384])
        mbs = max(mbs, 2 * H + 2)
    decompress = rng.random() < 0.45
    chunk = rng.choice(CHUNKS)
    app = rng.randrange(4)
    eff_global = B if B is not None else (mbs if mbs is not None else DEFAULT_MAX)
    nreq = rng.choice([1, 1, 1, 2, 2, 3])
    reqs = []
    small_cpu = chunk <= 2
    for i in range(nreq):
        last = i == nreq - 1
        spec = {"method": rng.choice(["POST", "PUT", "POST", "PATCH"]), "blank": 0}
        if rng.random() < 0.12:
            spec["blank"] = 1
        # ---- body
        xlimit = None
        if app in (2, 3) and rng.random() < 0.3:
            xlimit = rng.choice([0, 1, 10, 100, 1000, 5000, 20000])
        spec["xlimit"] = xlimit
        L = xlimit if xlimit is not None else eff_global
        framing = rng.choice(["none", "cl", "cl", "chunked", "chunked"])
        focus_body = (last and rng.random() < 0.75) or rng.random() < 0.25
        far_cap = 1500 if small_cpu else (20000 if tier == "quick" else 150000)
        if L >= DEFAULT_MAX // 2:
            # the default 100 MB: only a declared length can get near it
            if framing == "cl" and focus_body and rng.random() < 0.5:
                spec["cl_claim"] = L + rng.choice([-1, 0, 1, 10**6, 10**12])
                n = rng.choice([0, 5, 100])
            else:
                n = rng.choice([0, 1, 17, 300, 3000])
        elif focus_body:
            n = _around(rng, L, min(far_cap, L * 4 + 1000))
        else:
            n = rng.choice([0, 1, 5, max(0, min(L, 40))])
            n = min(n, L)
        n = min(n, far_cap * 8)
        gz = False
        if framing != "none" and (rng.random() < (0.5 if decompress else 0.08)):
            gz = True
            spec["zeros"] = rng.random() < 0.6
            if focus_body and L < DEFAULT_MAX // 2 and rng.random() < 0.25:
                n = rng.choice([L * 10 + 1000, 50000, 200000 if tier != "quick" else 80000])
                spec["zeros"] = True
            if small_cpu:
                n = min(n, 3000)
        if framing == "none":
            n = 0
        spec["framing"] = framing
        if framing == "cl" and rng.random() < 0.3:
            # the same length spelled as a list / repeated field line (RFC 9110 8.6)
            spec["cl_form"] = rng.choice(["list", "list_sp", "dup"])
        spec["gzip"] = gz
        spec["raw_len"] = n
        if framing == "chunked":
            wire_len = len(_gzip(_raw_body(n, spec.get("zeros"), i))) if gz else n
            style = rng.random()
            sizes = []
            left = wire_len
            if style < 0.2 and wire_len <= 400:
                sizes = [1] * wire_len
            elif style < 0.4:
                sizes = [wire_len] if wire_len else []
            elif style < 0.6 and wire_len > 1:
                # everything but the last byte(s) first: the crossing happens on a late chunk
                k = rng.choice([1, 1, 2])
                sizes = [max(1, wire_len - k)] + [1] * k
            elif style < 0.75 and L < DEFAULT_MAX // 2 and 0 < L < wire_len:
                sizes = [L, wire_len - L]
            else:
                while left > 0 and len(sizes) < 60:
                    k = rng.randint(1, max(1, min(left, rng.choice([3, 17, 300, left]))))
                    sizes.append(k)
                    left -= k
            spec["chunks"] = sizes
        # ---- header block padding
        r = rng.random()
        spec["pad"] = None
        if r < (0.5 if last else 0.25):
            probe_spec = dict(spec)
            natural = len(_build_request(probe_spec, i, [], 0).split(b"\r\n\r\n")[0]) + 4
            if spec["blank"]:
                natural = natural  # blank lines are part of the block
            rr = rng.random()
            if rr < 0.2:
                target = H - 1
            elif rr < 0.6:
                target = H
            elif rr < 0.85:
                target = H + 1
            elif rr < 0.92:
                target = H * 4 + 50
            else:
                target = H + rng.choice([2, 63, 64, 65, 200])
            pad = target - natural - 9
            if pad >= 0:
                spec["pad"] = pad
        if last and rng.random() < 0.08:
            spec["close"] = True
        reqs.append(spec)
    scn = {"property": ID, "version": 1,
           "knobs": {"max_header_size": H, "max_body_size": B, "max_buffer_size": mbs,
                     "decompress": decompress},
           "app": app, "reqs": reqs}
    data, marks = build_stream(scn)
    n = len(data)
    # cuts at the header limit itself as well
    marks = sorted({m for m in marks + [H - 1, H, H + 1] if 0 < m < n})
    kind = rng.choice(["whole", "marks", "window", "random", "random"])
    seg = {"kind": kind, "cuts": [], "gaps": [], "chunk": chunk, "tapes": {}}
    if kind == "marks":
        cuts = [m for m in marks if rng.random() < 0.6]
        seg["cuts"] = cuts[:80]
        seg["gaps"] = [rng.choice([1, 1, 2, 30]) for _ in seg["cuts"]]
    elif kind == "window":
        c = rng.choice(marks) if marks else max(1, n // 2)
        lo = max(1, c - rng.randint(3, 40))
        seg["cuts"] = list(range(lo, min(n, lo + 70)))
    elif kind == "random":
        k = rng.choice([1, 2, 3, 6])
        cuts = set()
        for _ in range(k):
            if marks and rng.random() < 0.6:
                cuts.add(rng.choice(marks) + rng.choice([-1, 0, 1]))
            elif n > 1:
                cuts.add(rng.randint(1, n - 1))
        seg["cuts"] = sorted(c for c in cuts if 0 < c < n)
        seg["gaps"] = [rng.choice([0, 1, 1, 5, 100]) for _ in seg["cuts"]]
    t = rng.random()
    if t < 0.2 and n < 6000:
        seg["tapes"]["recv_cap"] = {"v": [1], "cycle": True}
    elif t < 0.55:
        seg["tapes"]["recv_cap"] = {"v": [rng.choice([0, 1, 2, 3, 7, 63, 64, 65, H - 1, H, H + 1])
                                          for _ in range(rng.randint(1, 10))],
                                    "cycle": rng.random() < 0.5}
    if rng.random() < 0.1:
        seg["tapes"]["defer"] = [rng.choice([0, 1]) for _ in range(8)]
    scn["seg"] = seg
    return scn


def validate(scn):
    try:
        k = scn["knobs"]
        H = k.get("max_header_size")
        if not isinstance(H, int) or H < 16:
            return False
        mbs = k.get("max_buffer_size")
        if mbs is not None and (not isinstance(mbs, int) or mbs < 2 * H + 2):
            return False
        B = k.get("max_body_size")
        if B is not None and (not isinstance(B, int) or B < 0):
            return False
        if not isinstance(scn.get("reqs"), list) or not scn["reqs"]:
            return False
        if not all(isinstance(r, dict) for r in scn["reqs"]):
            return False
        seg = scn.get("seg")
        if not isinstance(seg, dict):
            return False
        ch = seg.get("chunk")
        if ch is not None and (not isinstance(ch, int) or ch < 0):
            return False
        build_stream(scn)
        return True
    except Exception:
        return False


# ---------------------------------------------------------------------------


def run(scn, full_log=False):
    knobs = scn["knobs"]
    H = knobs["max_header_size"]
    B = knobs.get("max_body_size")
    mbs = knobs.get("max_buffer_size")
    decompress = bool(knobs.get("decompress"))
    app = scn.get("app", 0) % 4
    seg = scn["seg"]
    data, _marks = build_stream(scn)
    eff_global = B if B is not None else (mbs if mbs is not None else DEFAULT_MAX)
    honours_override = app in (2, 3)
    viol = []
    seen = set()
    probes = {}

    def probe(name):
        probes[name] = probes.get(name, 0) + 1

    def limit_of_headers(hmap):
        if honours_override:
            v = hmap.get("x-limit")
            if v and v[0].isdigit():
                return int(v[0])
        return None

    def body_limit_for(msg):
        return limit_of_headers(msg.header_map())

    ref = read_requests(data, max_header_size=H, max_body_size=eff_global,
                        body_limit_for=body_limit_for, decompress=decompress)
    # ---- what does this scenario exercise? (measured on the bytes, not on the generator)
    msgs = list(ref.messages) + ([ref.partial] if ref.partial is not None else [])
    boundary = False
    gz_override = False
    multi_chunks = False
    for m in msgs:
        d = m.block_len - H
        if m.block_len and -1 <= d <= 1:
            probe("header_block_limit%+d" % d)
            boundary = True
        L = m.body_limit if m.body_limit is not None else eff_global
        if limit_of_headers(m.header_map()) is not None:
            probe("override_lower" if L < eff_global else "override_higher_or_equal")
            if "gzip" in m.features:
                gz_override = True
        if m.framing != "none" and m is not ref.partial:
            for nm, ln in (("wire_" + m.framing, m.wire_body_len),
                           ("gzip_decompressed", len(m.body) if "gzip" in m.features else None)):
                if ln is not None and -1 <= ln - L <= 0:
                    probe("%s_limit%+d" % (nm, ln - L))
                    boundary = True
        if "chunks" in m.features:
            multi_chunks = True
    if ref.end == "reject":
        probe("ref_reject:" + ref.reason)
        if ref.reason == "header_too_large" and ref.stop_block_len is not None:
            probe("header_block_limit+1" if ref.stop_block_len == H + 1 else
                  "header_block_far_above")
        if "too_large" in ref.reason:
            boundary = True
        if ref.partial is not None and "gzip" in ref.partial.features and \
                limit_of_headers(ref.partial.header_map()) is not None:
            gz_override = True
    probe("ref_end:" + ref.end)
    if any("cl_list" in m.features for m in msgs):
        probe("content_length_as_list")
        if ref.end == "reject" and ref.reason == "body_too_large" and ref.partial is not None \
                and "cl_list" in ref.partial.features:
            probe("content_length_as_list_over_limit")
    for spec in scn.get("reqs") or []:
        if not isinstance(spec, dict):
            continue
        chs = spec.get("chunks") or []
        if spec.get("framing") == "chunked" and len(chs) >= 5 and all(c == 1 for c in chs):
            probe("one_byte_chunks")
        if spec.get("gzip") and decompress and (spec.get("raw_len") or 0) >= 10000:
            probe("gzip_bomb_sent")
    if ref.end == "reject" and ref.reason == "decompressed_body_too_large" and ref.partial:
        lim = ref.partial.body_limit
        idx = len(ref.messages)
        specs = [x for x in (scn.get("reqs") or []) if isinstance(x, dict)]
        if idx < len(specs) and lim is not None:
            over = (specs[idx].get("raw_len") or 0) - lim
            probe("gzip_over_by_1" if over == 1 else ("gzip_bomb_refused" if over > 5000
                                                      else "gzip_over_some"))
    cs = {c for c in (seg.get("cuts") or []) if isinstance(c, int)}
    for m in msgs:
        if m.start + H in cs or m.start + H + 1 in cs:
            probe("cut_at_header_limit")
        if m.head_end in cs:
            probe("cut_between_head_and_body")

    def bad(rule, msg, key=None):
        k = key or rule
        if gz_override and rule in ("reject.delivered", "limit.handed_more_than_max",
                                    "tail.body_not_a_prefix", "valid.not_delivered"):
            # discriminator only: a gzip body on a request whose application called
            # set_max_body_size (defect fixed in f1b8bce was reported as
            # gzip_override.limit_ignored/*; rule names are now left as they are)
            k += "/gzip+override"
        if (rule, k) in seen:
            return
        seen.add((rule, k))
        viol.append({"rule": rule, "key": k,
                     "msg": "[H=%s B=%s mbs=%s gz=%s chunk=%s app=%s] %s" % (
                         H, B, mbs, decompress, seg.get("chunk"), _h1.APP_NAMES[app], msg)})

    kw = {"max_header_size": H}
    if B is not None:
        kw["max_body_size"] = B
    if mbs is not None:
        kw["max_buffer_size"] = mbs
    if decompress:
        kw["decompress_request"] = True
    o = _h1.deliver(data, seg, app, kw, full_log=full_log)
    # ---- invariant: never handed more than the effective limit (checked on every record,
    # whatever else happened)
    for r in o.recs:
        if not r.events:
            continue
        hm = {}
        for k2, v2 in r.headers or ():
            hm.setdefault(k2.lower(), []).append(v2)
        lim = limit_of_headers(hm)
        L = lim if lim is not None else eff_global
        handed = sum(len(c) for c in r.chunks)
        if handed > L:
            te = "chunked" if "transfer-encoding" in hm else "cl"
            if "x-consumed-content-encoding" in hm:
                te = "gzip"
            bad("limit.handed_more_than_max",
                "request %d: the delegate was handed %d body bytes, effective limit %d (%s)"
                % (r.idx, handed, L, te), "limit.handed_more_than_max/" + te)
        elif handed == L and L > 0:
            probe("handed_exactly_limit")
    _h1.judge(ref, o, bad, probe)
    if o.status == "done" and ref.end == "reject" and "too_large" in (ref.reason or ""):
        probe("refused_with_400" if o.got400 else "refused_with_close")
    for lg, lvl, msg, exc in o.records:
        if "maximum read buffer" in msg:
            probe("read_buffer_full")
    st = o.stats
    st["probes"].update(probes)
    if (o.nseg or 0) >= 2:
        st["faults"]["segmented_delivery"] = 1
    nontrivial = bool(boundary and ((o.nseg or 0) >= 2 or st["faults"].get("short_read", 0) > 0
                                    or multi_chunks))
    outcome = {"ref_end": ref.end, "ref_reason": ref.reason, "ref_messages": len(ref.messages),
               "delivered": len(o.delivered), "peer_bytes": len(o.received),
               "stream_len": len(data)}
    return {"violations": viol, "nontrivial": nontrivial, "stats": st,
            "log_head": o.log_head[:80], "log_full": o.log_full, "outcome": outcome}
