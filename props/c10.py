"""C10 - TCP connection racing resolves exactly once and leaks no sockets.

Real tornado.tcpclient.TCPClient.connect (DefaultLoopResolver -> SimLoop.getaddrinfo
-> _Connector -> TCPClient._create_stream -> IOStream.connect -> _handle_connect) on
SimSockets.  The scenario scripts, per address, the connection outcome (accept /
refuse / black hole / synchronous error) and its delay on a grid around the 0.3 s
happy-eyeballs timer and the overall timeout; the loop's lateness / readiness
order / deferral tapes and the iteration order of _Connector.streams are schedule
decisions.

The oracle is observational: every socket created through tornado.tcpclient.socket
is instrumented at the socket API (connect, SO_ERROR read = the instant Tornado
learns an outcome, close), and the verdict is computed from those events, the
result of the awaitable and the state of the network at quiescence.
"""

import errno as _errno
import socket as _socket

from sim.env import SimEnv, UNIT

ID = "C10"
LEVEL = "exploration"
QUICK_N = 50000
THOROUGH_N = 3000000
CHUNK = 400
RULE = ("gen(seed): 1-4 addresses over two families (duplicates allowed), per-address outcome "
        "accept/refuse/blackhole/sync_error with delay on a grid around 0.3 s and around the "
        "overall timeout (float / int / timedelta / None, also 0.3 s + k units), DNS delay or "
        "failure, af filter, source_ip/source_port (bind fails on a family mismatch), IOStream "
        "constructor failure at a chosen socket ordinal, late/order/defer tapes, permutation "
        "of _Connector.streams. non-trivial = >= 2 connection attempts were made AND (two "
        "attempts were in flight at the same instant, or an attempt followed a failed one, or a "
        "timer (0.3 s or overall) decided while an attempt was in flight), OR the caller's "
        "cancellation (task.cancel k iterations after a chosen instant / asyncio.wait_for expiry, "
        "in 22% of scenarios) took effect while an attempt was in flight; distinct = distinct "
        "scenario hash")
COMPONENTS = {
    "real": ["tornado.tcpclient.TCPClient/_Connector", "tornado.netutil.DefaultLoopResolver",
             "tornado.iostream.IOStream (connect/_handle_connect/close)", "tornado.gen.with_timeout",
             "tornado.ioloop.IOLoop / platform.asyncio.BaseAsyncIOLoop", "asyncio.Future/Task/Handle"],
    "stub": ["event loop poller+clock (sim.loop.SimLoop)", "getaddrinfo (SimLoop.getaddrinfo)",
             "sockets and network (sim.net.SimSocket/SimNet)", "accepting peers (sim.net.RawPeer)"],
}
ASSUMPTIONS = [
    "a non-blocking connect() raises EINPROGRESS and reports its outcome later through "
    "writability + SO_ERROR, or raises an OSError synchronously",
    "bind((ip, port)) of a socket whose family differs from the family of ip raises "
    "socket.gaierror (an OSError), as on Linux; any other bind succeeds",
    "'first connection that succeeded' = first success the process learned of (SO_ERROR read "
    "returning 0); successes learned at the same simulated instant are ties",
    "timers may fire late, never early (2e-6 s tolerance for wall-clock float conversion)",
    "a bind() error that is raised to the caller of connect() is an accepted way to complete "
    "(tcpclient documents 'fail loudly if unable to use the IP/port'); a bind error that does "
    "not reach the caller is an attempt that failed synchronously",
    "caller cancellation (task.cancel(), asyncio.wait_for expiry) is covered for the second "
    "sentence of the property only: 'every other socket it opened is closed' and 'at most one "
    "attempt per family' are stated without condition, whereas 'completes with the first "
    "success / an error / TimeoutError' cannot hold of a cancelled await and is not checked there",
]

AF4 = int(_socket.AF_INET)
AF6 = int(_socket.AF_INET6)
PORT = 80
HOST = "svc.test"
EPS = 2e-6
HE_UNITS = 307  # 0.3 s is 307.2 units

OUTCOMES = ("accept", "refuse", "blackhole", "sync_error")
REFUSE_ERRNOS = (_errno.ECONNREFUSED, _errno.ETIMEDOUT, _errno.EHOSTUNREACH, _errno.ENETUNREACH)
SYNC_ERRNOS = (_errno.ENETUNREACH, _errno.EADDRNOTAVAIL, _errno.EACCES, _errno.ECONNREFUSED)


def _ip(fam, k):
    return f"10.0.0.{k % 250 + 1}" if fam == 4 else f"fd00::{k % 250 + 1:x}"


# ----------------------------------------------------------------------------
# generation


def gen(rng, tier, index):
    # ---- overall timeout
    r = rng.random()
    T = None  # deadline in units (approx.) for the delay grid
    if r < 0.36:
        timeout = None
    elif r < 0.62:
        T = rng.choice([0, 1, 3, 100, 100, 305, 306, 307, 308, 309, 310, 400, 400, 612, 614, 615,
                        616, 617, 700, 700, 1024, 1024])
        timeout = {"kind": "float", "units": T, "p03": False}
    elif r < 0.75:
        k = rng.choice([0, 1, 2, 3, 5, 100, 306, 307, 308, 309, 400])
        T = HE_UNITS + k
        timeout = {"kind": "float", "units": k, "p03": True}
    elif r < 0.82:
        s = rng.choice([0, 1, 1, 2])
        T = s * 1024
        timeout = {"kind": "int", "seconds": s}
    else:
        us = rng.choice([0, 977, 1953, 100000, 299805, 300000, 300781, 301758, 599609, 600000,
                         600586, 1000000]) + rng.choice([0, 0, 0, -1, 1, 500])
        us = max(0, us)
        T = (us * 1024) // 1000000
        timeout = {"kind": "td", "us": us}
    # ---- delay grid
    grid = [0, 0, 0, 1, 1, 2, 3, 5, 300, 305, 306, 307, 308, 309, 310, 614, 615, 616]
    if T is not None:
        for d in (T - 2, T - 1, T, T + 1, T + 2, T - 306, T - 307, T - 308, T - 309, T // 2,
                  T - 1, T, T + 1):
            if d >= 0:
                grid.append(d)
    mode = rng.random()  # 0..0.25: everything quick (failure cascades); else mixed
    tie_d = rng.choice(grid) if rng.random() < 0.25 else None  # equal delays: exact ties
    # ---- addresses
    n = rng.choice([1, 2, 2, 3, 3, 3, 4, 4, 4])
    fam0 = rng.choice([4, 6])
    p_other = rng.choice([0.0, 0.3, 0.5, 0.5, 0.7])
    wmode = rng.random()
    if wmode < 0.25:
        weights = [2, 6, 1, 2]  # mostly failures
    elif wmode < 0.45:
        weights = [5, 2, 3, 1]  # successes racing, black holes
    else:
        weights = [4, 4, 2, 2]
    addrs = []
    for i in range(n):
        fam = fam0 if (i == 0 or rng.random() >= p_other) else (10 - fam0)
        o = rng.choices(OUTCOMES, weights)[0]
        if mode < 0.25:
            d = rng.choice([0, 0, 1, 1, 2, 3])
        elif tier == "thorough" and rng.random() < 0.3:
            d = rng.randint(0, (T or 700) + 320)  # off-grid delays
        else:
            d = rng.choice(grid)
        if tie_d is not None and rng.random() < 0.8:
            d = tie_d
        a = {"fam": fam, "ip": rng.randint(0, 2 if tier == "quick" else 3), "o": o, "d": d}
        if o == "refuse":
            a["errno"] = rng.choice(REFUSE_ERRNOS)
        elif o == "sync_error":
            a["errno"] = rng.choice(SYNC_ERRNOS)
        addrs.append(a)
    r = rng.random()
    if r < 0.07:
        # two successes completing at the same instant: a failed primary starts both queues
        d0, d = rng.choice([0, 0, 1, 2, 5]), rng.choice([0, 1, 2, 5, 300, 307])
        addrs = [{"fam": fam0, "ip": 0, "o": rng.choice(["refuse", "sync_error"]), "d": d0,
                  "errno": _errno.ECONNREFUSED},
                 {"fam": fam0, "ip": 1, "o": "accept", "d": d},
                 {"fam": 10 - fam0, "ip": 0, "o": "accept", "d": d + rng.choice([0, 0, 0, 1])}]
        if rng.random() < 0.3:
            addrs.append({"fam": rng.choice([4, 6]), "ip": 2, "o": rng.choice(OUTCOMES[:3]),
                          "d": rng.choice(grid)})
        if rng.random() < 0.5:
            addrs[1], addrs[2] = addrs[2], addrs[1]
    elif r < 0.14:
        # slow primary against a secondary started by the 0.3 s timer (ties need lateness)
        d2 = rng.choice([0, 1, 2, 5, 100])
        addrs = [{"fam": fam0, "ip": 0, "o": rng.choice(["accept", "accept", "refuse", "blackhole"]),
                  "d": HE_UNITS + d2 + rng.choice([0, 1, 1, 2]), "errno": _errno.ETIMEDOUT},
                 {"fam": 10 - fam0, "ip": 0, "o": rng.choice(["accept", "accept", "refuse"]),
                  "d": d2, "errno": _errno.ECONNREFUSED}]
        if rng.random() < 0.4:
            addrs.insert(rng.randint(1, 2), {"fam": rng.choice([4, 6]), "ip": 1,
                                             "o": rng.choice(OUTCOMES[:3]), "d": rng.choice(grid)})
    # ---- dns
    dns = {"delay": 0, "fail": False}
    r = rng.random()
    if r < 0.18:
        cand = [1, 1, 2, 5, 5, 306, 307, 308]
        if T is not None:
            cand += [max(0, T - 1), T, T + 1]
        dns["delay"] = rng.choice(cand)
    if rng.random() < 0.04:
        dns["fail"] = True
    af = 0
    if rng.random() < 0.08:
        af = rng.choice([4, 6])
    # ---- source address (bind) and constructor failures: separate sub-batches
    src = {"ip": 0, "port": 0}
    ctor_fail = []
    r = rng.random()
    if r < 0.08:
        src["ip"] = rng.choice([4, 6])
        if rng.random() < 0.4:
            src["port"] = 5555
    elif r < 0.12:
        src["port"] = 5555
    elif r < 0.20:
        ctor_fail = sorted({rng.choice([0, 0, 1, 1, 2, 3]) for _ in range(rng.choice([1, 1, 2]))})
    # ---- schedule
    tapes = {}
    if rng.random() < 0.45:
        tapes["late"] = [rng.choice([0, 0, 1, 1, 1, 2, 3, 5, 307]) for _ in range(rng.randint(1, 8))]
    if rng.random() < 0.30:
        tapes["order"] = [rng.choice([0, 1, 2, 64, 65]) for _ in range(rng.randint(1, 6))]
    if rng.random() < 0.30:
        tapes["defer"] = [rng.choice([0, 1]) for _ in range(rng.randint(1, 8))]
    perm = rng.choice([0, 0, 1, 2, 3])
    # ---- the caller gives up: task.cancel() (k loop iterations after instant `at`) or
    # asyncio.wait_for expiry.  Drawn last so that the other fields of a seed do not move.
    cancel = None
    if rng.random() < 0.22:
        dd = dns["delay"]
        cand = [0, 1, 1, 2, 306, 307, 308, 309]
        for a in addrs:
            e = dd + a["d"]
            cand += [e, e, e, e + 1, max(0, e - 1), e + 307, e + 308, e + 309]
        if T is not None:
            cand += [max(0, T - 1), T, T + 1]
        cancel = {"at": rng.choice(cand), "k": rng.choice([0, 0, 1, 1, 2, 3]),
                  "how": rng.choice([0, 0, 0, 1])}
    return {
        "property": ID, "version": 1,
        "addrs": addrs, "timeout": timeout, "dns": dns, "af": af, "src": src,
        "ctor_fail": ctor_fail, "perm": perm, "tapes": tapes, "cancel": cancel,
    }


def validate(scn):
    try:
        if not isinstance(scn["addrs"], list):
            return False
        for a in scn["addrs"]:
            if a["fam"] not in (4, 6) or a["o"] not in OUTCOMES or a["d"] < 0 or a["ip"] < 0:
                return False
        t = scn.get("timeout")
        if t is not None:
            v = {"float": "units", "int": "seconds", "td": "us"}[t["kind"]]
            if not (isinstance(t[v], int) and t[v] >= 0):
                return False
        if scn.get("af", 0) not in (0, 4, 6):
            return False
        if scn.get("src", {}).get("ip", 0) not in (0, 4, 6):
            return False
        c = scn.get("cancel")
        if c is not None and not (c["at"] >= 0 and c["k"] >= 0 and c["how"] in (0, 1)):
            return False
        return all(isinstance(i, int) for i in scn.get("ctor_fail", []))
    except Exception:
        return False


# ----------------------------------------------------------------------------
# run + oracle


class _Att:
    """One socket created by tcpclient, observed at the socket API."""

    __slots__ = ("i", "fd", "fam", "t0", "start", "key", "end", "res", "n_seq", "n_t", "n_res",
                 "c_seq", "c_t", "sock")

    def __init__(self, i, sock, fam, t0):
        self.i = i
        self.sock = sock
        self.fd = sock._fd
        self.fam = fam
        self.t0 = t0
        self.start = None  # time connect() was called
        self.key = None
        self.end = None  # time the attempt stopped being in flight on the network
        self.res = None  # ok | fail | sync | ctor | bind
        self.n_seq = None  # when Tornado learned the outcome
        self.n_t = None
        self.n_res = None  # ok | fail
        self.c_seq = None  # close()
        self.c_t = None


def run(scn, full_log=False):
    import asyncio
    import datetime
    from tornado.iostream import IOStream
    from tornado.tcpclient import TCPClient
    from tornado import _verif

    viol = []
    probes = {}

    def probe(name, k=1):
        probes[name] = probes.get(name, 0) + k

    addrs_in = scn.get("addrs", [])
    tmo = scn.get("timeout")
    dns = scn.get("dns") or {}
    af = scn.get("af", 0)
    src = scn.get("src") or {}
    ctor_fail = set(scn.get("ctor_fail", ()))
    perm = scn.get("perm", 0)
    cn = scn.get("cancel")

    # resolved list as the connector will see it
    script = {}
    for a in addrs_in:
        script.setdefault((a["fam"], a["ip"]), a)
    resolved = [(a["fam"], _ip(a["fam"], a["ip"])) for a in addrs_in if af in (0, a["fam"])]
    if len(set(resolved)) < len(resolved):
        probe("duplicate_address")
    n_by_fam = {4: 0, 6: 0}
    for f, _ in resolved:
        n_by_fam[f] += 1
    resolver_fails = bool(dns.get("fail")) or not resolved

    if tmo is None:
        tmo_arg = None
        tmo_s = None
    elif tmo["kind"] == "float":
        tmo_s = (0.3 if tmo.get("p03") else 0.0) + tmo["units"] * UNIT
        tmo_arg = tmo_s
    elif tmo["kind"] == "int":
        tmo_s = float(tmo["seconds"])
        tmo_arg = int(tmo["seconds"])
    else:
        tmo_arg = datetime.timedelta(microseconds=tmo["us"])
        tmo_s = tmo_arg.total_seconds()

    st = {"seq": 0, "done": None, "t_call": None, "marker": None, "stream_checks": None}
    atts = []
    peers = {}

    with SimEnv(scn.get("tapes"), max_iters=20_000, max_time=40.0, full_log=full_log) as env:
        loop = env.loop
        net = env.net
        log = env.log

        def bad(rule, msg, key=None):
            viol.append({"rule": rule, "key": key or rule, "msg": msg})

        def nseq():
            st["seq"] += 1
            return st["seq"]

        # ---- socket instrumentation (observation only, plus the two scripted faults)
        def on_created(s):
            a = _Att(len(atts), s, 4 if int(s.family) == AF4 else 6, loop._now)
            atts.append(a)
            if a.i in ctor_fail:
                s.fail_setblocking = True
            o_setblocking, o_bind, o_connect = s.setblocking, s.bind, s.connect
            o_ok, o_fail, o_gso, o_close = s._connect_ok, s._connect_fail, s.getsockopt, s.close

            def setblocking(flag):
                try:
                    return o_setblocking(flag)
                except OSError:
                    if not s.closed and a.res is None:
                        a.res = "ctor"
                        a.end = loop._now
                        a.n_seq, a.n_t, a.n_res = nseq(), loop._now, "fail"
                        loop.faults["ctor_sync_error"] += 1
                        log.ev("ctor_fail", a.i)
                    raise

            def bind(addr):
                fam_ip = 6 if ":" in str(addr[0]) else 4
                log.ev("bind", a.i, str(addr[0]), addr[1])
                if fam_ip != a.fam:
                    a.res = "bind"
                    a.end = loop._now
                    a.n_seq, a.n_t, a.n_res = nseq(), loop._now, "fail"
                    loop.faults["bind_error"] += 1
                    raise _socket.gaierror(-9, "Address family for hostname not supported")
                return o_bind(addr)

            def connect(address):
                a.start = loop._now
                a.key = (address[0], address[1])
                try:
                    return o_connect(address)
                except BlockingIOError:
                    raise
                except OSError:
                    a.res = "sync"
                    a.end = loop._now
                    a.n_seq, a.n_t, a.n_res = nseq(), loop._now, "fail"
                    raise

            def _ok(key):
                if s.closed:
                    return
                o_ok(key)
                if s.state == "connected" and a.end is None:
                    a.end = loop._now
                    a.res = "ok"

            def _fail(e):
                if s.closed:
                    return
                o_fail(e)
                if a.end is None:
                    a.end = loop._now
                    a.res = "fail"

            def getsockopt(level, opt):
                was = s.state
                v = o_gso(level, opt)
                if (a.n_seq is None and a.start is not None and int(opt) == _socket.SO_ERROR
                        and int(level) == _socket.SOL_SOCKET):
                    if v != 0:
                        a.n_seq, a.n_t, a.n_res = nseq(), loop._now, "fail"
                    elif was == "connected":
                        a.n_seq, a.n_t, a.n_res = nseq(), loop._now, "ok"
                        if any(b.n_res == "ok" for b in atts if b is not a):
                            probe("late_arrival_success")
                return v

            def close():
                if a.c_seq is None:
                    a.c_seq, a.c_t = nseq(), loop._now
                    if a.start is not None and a.end is None:
                        probe("in_flight_attempt_closed")
                return o_close()

            s.setblocking, s.bind, s.connect = setblocking, bind, connect
            s._connect_ok, s._connect_fail, s.getsockopt, s.close = _ok, _fail, getsockopt, close

        net.on_socket_created = on_created

        def on_loop_error(lp, context):
            # (the core handler logs the raw message, which contains object addresses)
            exc = context.get("exception")
            msg = str(context.get("message")).split("(")[0][:80]
            env.loop_errors.append((msg, type(exc).__name__ if exc else None))
            log.ev("loop_error", msg, type(exc).__name__ if exc else None)

        loop.set_exception_handler(on_loop_error)

        if perm:
            def permute(items):
                n = len(items)
                if n < 2:
                    return items
                if perm == 1:
                    return items[::-1]
                k = perm % n
                return items[k:] + items[:k]
            _verif.OrderedSet.permute = permute

        def factory(peer):
            peers[peer.remote_fd] = peer

        async def waiter(client):
            st["t_call"] = loop._now
            if tmo_s is not None:
                # observation only: the first loop iteration whose clock has reached the deadline
                def mark():
                    st["marker"] = (nseq(), loop._now)
                st["mark_h"] = loop.call_later(tmo_s, mark)
            kw = {}
            if af:
                kw["af"] = _socket.AF_INET if af == 4 else _socket.AF_INET6
            if src.get("ip"):
                kw["source_ip"] = "127.0.0.1" if src["ip"] == 4 else "::1"
            if src.get("port"):
                kw["source_port"] = src["port"]
            coro = client.connect(HOST, PORT, timeout=tmo_arg, **kw)
            if cn is not None and cn["how"] == 1:
                coro = asyncio.wait_for(coro, cn["at"] * UNIT)
            try:
                stream = await coro
            except BaseException as e:  # noqa: BLE001 - classified below
                if isinstance(e, asyncio.CancelledError) or (
                        cn is not None and cn["how"] == 1 and isinstance(e, TimeoutError)
                        and isinstance(e.__cause__, asyncio.CancelledError)):
                    kind = "cancelled"  # the caller gave up (task.cancel / wait_for expiry)
                elif isinstance(e, TimeoutError):
                    kind = "timeout"
                else:
                    kind = "error"
                st["done"] = (nseq(), loop._now, kind, type(e).__name__)
                st["exc"] = e
                log.ev("result", kind, st["done"][3])
                return None
            st["done"] = (nseq(), loop._now, "stream", None)
            st["stream"] = stream
            # reach only (not a rule): timers still armed when a stream has been returned
            n_t = sum(1 for h in loop._scheduled if not h._cancelled and h is not st.get("mark_h"))
            if n_t and cn is None:
                probe("timers_armed_after_stream_result", n_t)
            log.ev("result", "stream", getattr(getattr(stream, "socket", None), "_fd", None))
            return stream

        async def main():
            loop.dns[HOST] = {
                "addrs": [[AF4 if a["fam"] == 4 else AF6, _ip(a["fam"], a["ip"])] for a in addrs_in],
                "delay": dns.get("delay", 0), "fail": bool(dns.get("fail"))}
            for (fam, k), a in script.items():
                ip = _ip(fam, k)
                ent = {"outcome": a["o"], "delay": a["d"]}
                if a.get("errno"):
                    ent["errno"] = a["errno"]
                net.connect_script[(ip, PORT)] = ent
                if a["o"] == "accept":
                    net.raw_listen(ip, PORT, factory)
            client = TCPClient()
            w = loop.create_task(waiter(client), name="waiter")
            st["waiter"] = w
            if cn is not None and cn["how"] == 0:
                async def canceller():
                    if cn["at"]:
                        await asyncio.sleep(cn["at"] * UNIT)
                    for _ in range(cn["k"]):
                        await asyncio.sleep(0)
                    if not w.done():
                        st["cancel"] = (nseq(), loop._now)
                        log.ev("cancel")
                        w.cancel()
                loop.create_task(canceller(), name="canceller")
            stream = await w
            if stream is None:
                return
            # ---- the caller uses and closes what it was given
            chk = {}
            st["stream_checks"] = chk
            chk["is_iostream"] = isinstance(stream, IOStream)
            if not chk["is_iostream"]:
                return
            chk["closed_at_return"] = stream.closed()
            chk["sock"] = stream.socket
            await loop.idle()
            chk["closed_after_idle"] = stream.closed()
            if not stream.closed():
                try:
                    stream.write(b"hi")
                except Exception as e:  # noqa: BLE001
                    chk["write_error"] = type(e).__name__
                await loop.idle()
                chk["closed_after_write"] = stream.closed()
            stream.close()

        status = env.run(main())

        # ==== oracle =========================================================
        done = st["done"]
        taint = "plain"
        if done is not None and done[2] == "cancelled":
            taint = "cancelled"
        elif any(a.res == "ctor" for a in atts):
            taint = "ctor_fail"
        elif any(a.res == "bind" for a in atts):
            taint = "bind_fail"
        INF = float("inf")
        started = [a for a in atts if a.start is not None]
        n_ok_noticed = [a for a in atts if a.n_res == "ok"]
        first_ok = min(n_ok_noticed, key=lambda a: a.n_seq) if n_ok_noticed else None

        def failed_by(seq):
            c = {4: 0, 6: 0}
            for a in atts:
                if a.n_res == "fail" and (seq is None or a.n_seq < seq):
                    c[a.fam] += 1
            return c

        def in_flight_forever(a):
            return a.start is not None and a.end is None and a.c_seq is None

        if status in ("step_cap", "time_cap"):
            bad("complete.livelock", f"{status} after {loop.iterations} iterations",
                f"complete.livelock/{taint}")
        elif status.startswith("error"):
            bad("harness.main_raised", f"{status}: {getattr(env, 'main_exception', None)!r}")
        elif done is None:
            # ---- the awaitable never completed (world is quiescent)
            stuck = []
            if tmo_s is not None:
                stuck.append(f"timeout {tmo_s!r}s given")
            if first_ok is not None:
                stuck.append(f"connection {first_ok.i} ({first_ok.key}) succeeded")
            if resolver_fails:
                stuck.append("the resolver failed")
            holes = [a for a in atts if in_flight_forever(a)]
            if not holes:
                stuck.append("no attempt is in flight")
            fb = failed_by(None)
            for fam in (4, 6):
                if n_by_fam[fam] and not any(a.fam == fam for a in holes) \
                        and fb[fam] < n_by_fam[fam]:
                    stuck.append(f"family {fam}: {fb[fam]} of {n_by_fam[fam]} addresses failed, "
                                 f"none in flight, the rest never tried")
            if stuck:
                bad("complete.never", "quiescent and the connect never completed although "
                    + "; ".join(stuck), f"complete.never/{taint}")
            else:
                probe("expected_hang_blackhole")
        else:
            d_seq, d_t, d_kind, d_name = done
            if d_kind == "stream":
                chk = st["stream_checks"] or {}
                stream_sock = chk.get("sock")
                win = next((a for a in atts if a.sock is stream_sock), None)
                if not chk.get("is_iostream"):
                    bad("result.not_a_stream", f"connect returned {type(st.get('stream')).__name__}")
                elif chk.get("closed_at_return"):
                    bad("result.stream_unusable", "the returned stream is already closed",
                        f"result.stream_unusable/{taint}")
                elif win is None or win.n_res != "ok":
                    bad("result.stream_not_connected",
                        f"returned stream's socket "
                        f"{'is not one it created' if win is None else f'{win.i} outcome {win.res}/{win.n_res}'}",
                        f"result.stream_not_connected/{taint}")
                else:
                    earlier = [a for a in n_ok_noticed if a.n_t < win.n_t]
                    if earlier:
                        e = min(earlier, key=lambda a: a.n_seq)
                        bad("result.not_first_success",
                            f"returned connection {win.i} to {win.key} (success seen at "
                            f"+{win.n_t - 4096.0:.6f}) but connection {e.i} to {e.key} succeeded "
                            f"earlier (+{e.n_t - 4096.0:.6f})", f"result.not_first_success/{taint}")
                    if len([a for a in n_ok_noticed if a.n_t == win.n_t]) > 1:
                        probe("success_tie")
                    mk = st["marker"]
                    if mk is not None and win.n_t > mk[1]:
                        bad("timeout.missed",
                            f"deadline +{tmo_s!r}s was reached by the loop at +{mk[1] - 4096.0:.6f} "
                            f"with no connection; a stream connected later "
                            f"(+{win.n_t - 4096.0:.6f}) was returned instead of TimeoutError",
                            f"timeout.missed/{taint}")
                    if chk.get("closed_at_return") or chk.get("closed_after_idle") \
                            or chk.get("closed_after_write") or chk.get("write_error"):
                        bad("result.stream_unusable",
                            f"returned stream closed/unusable: {sorted((k, v) for k, v in chk.items() if k != 'sock' and v)}",
                            f"result.stream_unusable/{taint}")
                    else:
                        p = peers.get(win.fd)
                        if p is None or bytes(p.received) != b"hi":
                            bad("result.stream_unusable",
                                f"bytes written to the returned stream did not reach the peer of "
                                f"connection {win.i}", f"result.stream_unusable/{taint}")
                    if win.key is not None and (win.fam, win.key[0]) not in resolved:
                        bad("result.wrong_address", f"connected to {win.key}")
            elif d_kind == "timeout":
                if tmo_s is None:
                    bad("timeout.without_timeout", "TimeoutError although no timeout was given",
                        f"timeout.without_timeout/{taint}")
                else:
                    dl = st["t_call"] + tmo_s
                    if d_t < dl - EPS:
                        bad("timeout.early",
                            f"TimeoutError at +{d_t - 4096.0:.6f}, deadline +{dl - 4096.0:.6f}",
                            f"timeout.early/{taint}")
                    prior = [a for a in n_ok_noticed if a.n_t < d_t]
                    if prior:
                        a = prior[0]
                        bad("timeout.despite_success",
                            f"TimeoutError at +{d_t - 4096.0:.6f} although connection {a.i} to "
                            f"{a.key} had succeeded at +{a.n_t - 4096.0:.6f}",
                            f"timeout.despite_success/{taint}")
                    if any(a.n_t == d_t for a in n_ok_noticed):
                        probe("deadline_tie_timeout_won")
                    probe("timeout_fired")
                    if any(a.start is not None and (a.end is None or a.end >= d_t)
                           and (a.c_t is None or a.c_t >= d_t) for a in atts):
                        probe("timeout_fired_with_attempt_in_flight")
                    if not atts:
                        probe("timeout_during_dns")
            elif d_kind == "cancelled":
                # The caller gave up.  The first sentence of the property (which result) does
                # not apply; what remains is: completed once, every socket closed (below),
                # one attempt per family (below), nothing crashed (below).
                probe("caller_cancelled")
                if not atts:
                    probe("cancelled_before_first_attempt")
                if any(a.start is not None and a.start <= d_t and (a.end is None or a.end >= d_t)
                       and (a.c_t is None or a.c_t >= d_t) for a in atts):
                    probe("cancelled_with_attempt_in_flight")
                if any(a.n_res == "ok" and a.n_seq > d_seq for a in atts):
                    probe("success_after_cancel")
                if any(a.n_res == "ok" and a.n_seq < d_seq for a in atts):
                    probe("cancelled_after_success_seen")
                if any(a.start is not None and a.start > d_t for a in atts):
                    probe("attempt_started_after_cancel")
            else:
                # an error other than TimeoutError
                exc = st.get("exc")
                if not isinstance(exc, Exception):
                    bad("result.base_exception", f"connect raised {d_name}")
                bind_err = [a for a in atts if a.res == "bind" and a.n_seq < d_seq]
                if resolver_fails:
                    probe("resolver_error")
                elif bind_err and d_name == "gaierror":
                    # documented fail-fast ("Fail loudly if unable to use the IP/port"): a bind
                    # error that reaches the caller ends the connect; see ASSUMPTIONS
                    probe("bind_error_raised_to_caller")
                else:
                    fb = failed_by(d_seq)
                    if first_ok is not None and first_ok.n_seq < d_seq:
                        bad("result.error_despite_success",
                            f"raised {d_name} although connection {first_ok.i} to {first_ok.key} "
                            f"had succeeded", f"result.error_despite_success/{taint}")
                    elif fb[4] < n_by_fam[4] or fb[6] < n_by_fam[6]:
                        bad("result.error_before_all_failed",
                            f"raised {d_name}({st.get('exc')}) when only {fb[4]}/{n_by_fam[4]} IPv4 "
                            f"and {fb[6]}/{n_by_fam[6]} IPv6 addresses had failed",
                            f"result.error_before_all_failed/{taint}")
                    else:
                        probe("all_failed_error")
                        if tmo_s is not None and d_t >= st["t_call"] + tmo_s:
                            probe("all_failed_at_or_after_deadline")

        # ---- at most one attempt in flight per family, at every instant
        max_conc = 0
        iv = []
        for a in started:
            end = a.end if a.end is not None else INF
            if a.c_t is not None and a.c_t < end:
                end = a.c_t
            iv.append((a.start, end, a))
        for x in range(len(iv)):
            s1, e1, a1 = iv[x]
            conc = 1
            for y in range(len(iv)):
                if x == y:
                    continue
                s2, e2, a2 = iv[y]
                if s1 < e2 and s2 < e1:
                    conc += 1
                    if y > x and a1.fam == a2.fam:
                        bad("inflight.two_attempts_one_family",
                            f"attempts {a1.i} ({a1.key}, from +{s1 - 4096.0:.6f}) and {a2.i} "
                            f"({a2.key}, from +{s2 - 4096.0:.6f}) of family {a1.fam} were in "
                            f"flight at the same time", f"inflight.two_attempts_one_family/{taint}")
            max_conc = max(max_conc, conc)
        if max_conc >= 2:
            probe("two_families_in_flight")

        # ---- leaks: at quiescence nothing the connect created is still open, except attempts
        # that are legitimately still in flight because the connect itself is still pending
        if status in ("done", "hang"):
            open_fds = set(net.leaked())
            leaked = []
            for a in atts:
                if a.fd in open_fds:
                    if done is None and in_flight_forever(a):
                        continue
                    leaked.append(a)
            if leaked:
                what = ", ".join(f"socket {a.i} (fd {a.fd}, {a.key}, outcome {a.res})" for a in leaked)
                rule = "leak.socket"
                if taint == "cancelled":
                    # separate rules (the shrinker keeps the rule): which kind of socket the
                    # abandoned connect left behind
                    a = leaked[0]
                    if a.n_res == "ok":
                        rule = "leak.cancelled_result_lost" if a.n_seq < done[0] \
                            else "leak.cancelled_late_success"
                    elif in_flight_forever(a):
                        rule = "leak.cancelled_in_flight"
                bad(rule, f"still open at quiescence: {what}; connect result: "
                    f"{done[2] if done else 'pending'}", f"{rule}/{taint}")
            if len(atts) != len(net.created):
                bad("harness.untracked_socket", "socket created outside the hook")

        # ---- exactly once / no crashed callbacks
        for r in env.records:
            if r[3] == "InvalidStateError" or "Exception in callback" in r[2]:
                bad("log.callback_exception", f"{r[0]} {r[1]}: {r[2][:60]} [{r[3]}]",
                    f"log.callback_exception/{r[3]}/{taint}")
                break
        for m, e in env.loop_errors:
            if e == "InvalidStateError" or str(m).startswith("Exception in callback"):
                bad("log.callback_exception", f"asyncio handler: {str(m)[:60]} [{e}]",
                    f"log.callback_exception/{e}/{taint}")
                break
            probe("loop_error_other")  # e.g. an abandoned resolver task failing after a cancel

        # ---- probes / reach
        by_start = sorted(started, key=lambda a: (a.start, a.i))
        retry = False
        for a in by_start:
            prev = [b for b in by_start if b.fam == a.fam and b.i < a.i and b.n_res == "fail"]
            if prev:
                retry = True
        if retry:
            probe("attempt_after_failure")
        if resolved:
            pfam = resolved[0][0]
            sec = [a for a in by_start if a.fam != pfam]
            prim = [a for a in by_start if a.fam == pfam]
            if sec and prim:
                s0 = sec[0]
                if any(p.n_res == "fail" and p.n_t <= s0.start for p in prim):
                    probe("secondary_started_by_failure")
                else:
                    probe("secondary_started_by_timer")
                    if any(p.end is not None and p.end == s0.start for p in prim):
                        # a primary attempt completed in the very iteration the 0.3 s timer ran
                        probe("he_timer_tie_with_completion")
        if any(a.res == "sync" for a in atts):
            probe("sync_connect_error")
        if any(a.res == "ctor" for a in atts):
            probe("ctor_fail_fired")
        if any(a.res == "bind" for a in atts):
            probe("bind_fail_fired")
        if any(a.sock.local_addr is not None for a in atts):
            probe("bound_source")
        if done is not None and done[2] == "stream" and any(
                a.start is not None and a.n_res is None and a.c_seq is not None for a in atts):
            probe("loser_closed_in_flight")
        if perm and any(1 for _ in atts[2:]):
            probe("streams_permuted")
        timer_decided = probes.get("secondary_started_by_timer", 0) > 0 or \
            probes.get("timeout_fired_with_attempt_in_flight", 0) > 0
        nontrivial = (len(started) >= 2 and (max_conc >= 2 or retry or timer_decided)) or \
            probes.get("cancelled_with_attempt_in_flight", 0) > 0
        stt = env.stats()
        stt["probes"].update(probes)
        outcome = {"status": status, "result": list(done[2:]) if done else None,
                   "attempts": [[a.i, a.fam, a.res, a.n_res] for a in atts]}
        return {"violations": viol, "nontrivial": nontrivial, "stats": stt,
                "log_head": env.log.head, "log_full": env.log.full, "outcome": outcome}
