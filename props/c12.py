"""C12 - IOStream writes deliver every byte once, in order, and resolve in order.

Real tornado.iostream.IOStream over a SimSocket whose peer consumes under the
scenario's control (small receive window, scripted consume steps, then a drain
phase), so that the write queue, partial sends, zero-window stalls, spurious
EAGAIN and max_write_buffer_size are all exercised.  A writer task issues
write(bytes | memoryview) calls with sizes around the 2 KiB coalescing
threshold of _StreamBuffer, back-to-back or after awaiting earlier futures.

Oracle (transport side = what SimSocket.send() accepted, seen through
net.send_tap; never Tornado's own counters):
  * every accepted chunk continues the concatenation of the accepted writes;
    at quiescence accepted == everything queued == what the peer received;
  * at every point where the accepted count can change (each send, each
    write() return, each future callback, each writer wake-up) the set of
    resolved write futures is a prefix of the issued writes and every
    resolved future's end index is <= the accepted count;
  * a write is refused with StreamBufferFullError exactly when queued-accepted
    plus its size exceeds max_write_buffer_size, and a refusal changes nothing;
  * writing() == (queued - accepted > 0).

The buffering half of the same property (_StreamBuffer.append/peek/advance) is
additionally driven directly with an op sequence against a bytearray model:
the first 2379 (quick) / 30940 (thorough) seed indices enumerate *all*
sequences of length <= 3 / <= 4 over a 13-symbol alphabet, later ones are random.
"""

import asyncio

from sim.env import SimEnv, UNIT

ID = "C12"
LEVEL = "exploration"
QUICK_N = 20000
THOROUGH_N = 1000000
CHUNK = 400
RULE = ("gen(seed): receive window, scripted peer consumption steps then drain, send_cap/delay/"
        "defer tapes, max_write_buffer_size knob (often an exact-fit boundary, sometimes 0), "
        "optionally 1-2 predecessor streams on the same loop closed while write-blocked with fd "
        "numbers reused, list of writes "
        "(sizes 0,1,..,2047,2048,2049,4096,4097,70000; bytes / memoryview of bytes|bytearray / "
        "itemsize 2,4,8 / sliced views) each followed by none|await own future|await an earlier "
        "future|idle|sleep, interleaved with owner-cancels-a-queued-write-future ops, a read_bytes "
        "pending on the same stream and peer->stream data; plus a _StreamBuffer op sequence (exhaustive for short lengths, see "
        "module doc). non-trivial = >=2 writes accepted AND a partial send, zero-window stall or "
        "spurious EAGAIN actually fired AND at least one write future was still pending when "
        "write() returned; distinct = distinct scenario hash")
COMPONENTS = {
    "real": ["tornado.iostream.IOStream/BaseIOStream.write/_handle_write/_handle_events",
             "tornado.iostream._StreamBuffer", "tornado.platform.asyncio.BaseAsyncIOLoop",
             "tornado.ioloop.IOLoop", "asyncio.Future/Task/Handle"],
    "stub": ["event loop poller+clock (sim.loop.SimLoop)", "socket (sim.net.SimSocket)",
             "remote peer / receive window (sim.net.RawPeer, Pipe)"],
}
ASSUMPTIONS = [
    "SimSocket.send models a non-blocking TCP send: accepts 1..min(len, free window, cap) bytes, "
    "EAGAIN when the window is closed (or spuriously), never reorders",
    "'sent' in the property = accepted by socket.send(); the accepted count is taken from the "
    "simulated socket, not from IOStream",
    "buffers passed to write() are not mutated by the caller afterwards",
    "_StreamBuffer contract used by the direct part: len() = bytes held; peek(n>0) returns a "
    "non-empty view of at most n bytes at the head while non-empty; advance(0<n<=len) drops n "
    "bytes; append of any size incl. 0",
]

# ----------------------------------------------------------------------------
# payloads

_BASE = bytes(range(1, 252))  # 251 distinct byte values, prime length
_BASE2 = _BASE + _BASE
KINDS = ["b", "mv", "mvba", "mvH", "mvI", "mvQ", "mvs", "mvIs"]
_ITEM = {"mvH": ("H", 2), "mvI": ("I", 4), "mvQ": ("Q", 8), "mvIs": ("I", 4)}


def pattern(n, seed):
    if n <= 0:
        return b""
    s = seed % 251
    if n <= 251:
        return _BASE2[s:s + n]
    rot = _BASE2[s:s + 251]
    return (rot * (n // 251 + 1))[:n]


def payload(kind, n, seed, off=0):
    """-> (object handed to write(), the bytes it denotes)."""
    n = max(0, int(n))
    off = max(0, int(off)) % 64
    if kind == "b":
        raw = pattern(n, seed)
        return raw, raw
    if kind == "mv":
        raw = pattern(n, seed)
        return memoryview(raw), raw
    if kind == "mvba":
        raw = pattern(n, seed)
        return memoryview(bytearray(raw)), raw
    if kind == "mvs":
        raw = pattern(n + off + 5, seed)
        v = memoryview(raw)[off:off + n]
        return v, v.tobytes()
    if kind in _ITEM:
        fmt, sz = _ITEM[kind]
        items = n // sz
        if kind == "mvIs":
            raw = pattern((items + off + 2) * sz, seed)
            v = memoryview(raw).cast(fmt)[off:off + items]
        else:
            raw = pattern(items * sz, seed)
            v = memoryview(raw).cast(fmt)
        return v, v.tobytes()
    raise ValueError(kind)


# ----------------------------------------------------------------------------
# _StreamBuffer direct part

SB_ALPHABET = (
    [["a", s, "b"] for s in (0, 1, 2047, 2048, 2049, 4100)]
    + [["a", 1, "mvba"], ["a", 2049, "mvba"]]
    + [["v", 1], ["v", "first-1"], ["v", "first"], ["v", "first+1"], ["v", "all"]]
)
_NSYM = len(SB_ALPHABET)  # 13


def sb_enumerated(index, maxlen):
    """index -> the index-th op sequence of length 1..maxlen, or None beyond."""
    base = 0
    for ln in range(1, maxlen + 1):
        cnt = _NSYM ** ln
        if index < base + cnt:
            k = index - base
            seq = []
            for _ in range(ln):
                seq.append(list(SB_ALPHABET[k % _NSYM]))
                k //= _NSYM
            return seq
        base += cnt
    return None


def sb_exhaustive_count(maxlen):
    return sum(_NSYM ** ln for ln in range(1, maxlen + 1))


def sb_random(rng):
    seq = []
    for _ in range(rng.randint(4, 12)):
        r = rng.random()
        if r < 0.5:
            s = rng.choice([0, 1, 2, 100, 2046, 2047, 2048, 2049, 2050, 4096, 4100, 9000])
            seq.append(["a", s, rng.choice(["b", "b", "mv", "mvba", "mvI", "mvs"])])
        elif r < 0.92:
            seq.append(["v", rng.choice([1, 2, 100, 2047, 2048, 2049, 4095, 4096, "first-1", "first",
                                         "first+1", "all", "all-1"])])
        else:
            seq.append(["p", rng.choice([1, 2, 2048, 100000])])
    return seq


def run_sb(seq, bad, probe):
    """Drive a real _StreamBuffer with ``seq`` against a bytearray model."""
    from tornado.iostream import _StreamBuffer

    sb = _StreamBuffer()
    model = bytearray()
    nseed = 0

    def check(step, sizes):
        if len(sb) != len(model):
            bad("sb.len_mismatch", f"step {step}: len(buffer)={len(sb)} model={len(model)}")
            return False
        for size in sizes:
            v = sb.peek(size)
            ln = len(v)
            if ln > size:
                bad("sb.peek_too_long", f"step {step}: peek({size}) returned {ln} bytes")
                return False
            if model and ln == 0:
                bad("sb.peek_empty_while_nonempty",
                    f"step {step}: peek({size}) empty although {len(model)} bytes are held")
                return False
            if bytes(v) != model[:ln]:
                bad("sb.peek_mismatch", f"step {step}: peek({size}) returned {bytes(v[:12])!r}.. "
                    f"expected {bytes(model[:12])!r}..")
                return False
        return True

    try:
        for step, op in enumerate(seq):
            code = op[0]
            if code == "a":
                nseed += 17
                obj, raw = payload(op[2] if len(op) > 2 else "b", op[1], nseed, off=3)
                if isinstance(obj, memoryview) and obj.itemsize > 1:
                    obj = obj.cast("B")  # what IOStream.write hands over
                sb.append(obj)
                model += raw
                if len(raw) > 2048:
                    probe("sb_large_append")
                elif raw:
                    probe("sb_small_append")
                else:
                    probe("sb_zero_append")
            elif code == "v":
                if not model:
                    continue
                first = len(sb.peek(1 << 30))
                k = op[1]
                if k == "first":
                    n = first
                elif k == "first-1":
                    n = first - 1
                elif k == "first+1":
                    n = first + 1
                elif k == "all":
                    n = len(model)
                elif k == "all-1":
                    n = len(model) - 1
                else:
                    n = int(k)
                n = max(1, min(n, len(model)))
                if n > first > 0:
                    probe("sb_advance_across_buffers")
                elif n == first:
                    probe("sb_advance_exact_buffer")
                else:
                    probe("sb_advance_inside_buffer")
                sb.advance(n)
                del model[:n]
            elif code == "p":
                if not check(step, (max(1, int(op[1])),)):
                    return
                continue
            else:
                continue
            if not check(step, (1, 3, 1 << 30)):
                return
        # drain: everything held comes out in FIFO order
        guard = 0
        while model:
            guard += 1
            v = sb.peek(1 << 30)
            ln = len(v)
            if ln == 0 or bytes(v) != model[:ln] or guard > 1000:
                bad("sb.drain_mismatch", f"drain: peek returned {ln} bytes, model holds {len(model)}")
                return
            sb.advance(ln)
            del model[:ln]
        if len(sb) != 0:
            bad("sb.len_mismatch", f"after drain len(buffer)={len(sb)}")
    except Exception as e:  # a legal op sequence must never raise
        bad("sb.exception", f"{type(e).__name__}: {e}", f"sb.exception/{type(e).__name__}")


# ----------------------------------------------------------------------------
# generation

SMALL_SIZES = [0, 0, 1, 1, 2, 3, 5, 17, 64, 100]
THRESH_SIZES = [0, 1, 100, 2047, 2047, 2048, 2048, 2049, 2049, 4096, 4097, 6000]


def gen(rng, tier, index):
    small = rng.random() < 0.35
    nw = rng.randint(1, 9)
    huge = (not small) and rng.random() < (0.04 if tier == "quick" else 0.12)
    if small:
        window = rng.choice([1, 2, 3, 7, 16, 64])
        sizes = [rng.choice(SMALL_SIZES) for _ in range(nw)]
    else:
        window = rng.choice([512, 1000, 2047, 2048, 2049, 4096, 5000, 65536])
        sizes = [rng.choice(THRESH_SIZES) for _ in range(nw)]
        if huge:
            window = rng.choice([4096, 65536, 65536])
            sizes[rng.randrange(nw)] = 70000
    total = sum(sizes)
    # max_write_buffer_size: mostly an exact-fit boundary of sums of actual sizes
    mwb = None
    if rng.random() < 0.55:
        a = rng.choice(sizes)
        b = rng.choice(sizes)
        mwb = max(1, rng.choice([a, a + 1, a - 1, a + b, a + b - 1, a + b + 1, 2 * a + b, total // 2,
                                 max(sizes), max(sizes) - 1]))
        if rng.random() < 0.06:
            mwb = 0  # the smallest legal limit: only empty writes are accepted
    ops = []
    for i, n in enumerate(sizes):
        kind = rng.choice(KINDS) if rng.random() < 0.7 else "b"
        then = rng.choice(["none", "none", "none", "await", "prev", "idle", "sleep"])
        op = {"op": "w", "n": n, "kind": kind, "seed": rng.randrange(251), "then": then}
        if kind in ("mvs", "mvIs"):
            op["off"] = rng.choice([1, 2, 3, 7, 33])
        if then == "prev":
            op["k"] = rng.randint(1, 3)
        if then == "sleep":
            op["u"] = rng.choice([1, 2, 5])
        ops.append(op)
        if rng.random() < 0.15:
            ops.append({"op": "c", "n": rng.choice([1, 2, window, window + 1, 2048, 100000])})
        if rng.random() < 0.1:
            # the owner stops waiting for a queued write (wait_for timeout): its future is
            # cancelled, its bytes stay queued and more writes follow
            ops.append({"op": "x", "k": rng.randrange(4)})
    # a read pending on the same stream while writes are back-pressured (the peer sends
    # nothing, or a little, so the read stays pending or completes in the middle)
    if rng.random() < 0.35:
        pos = rng.randrange(len(ops) + 1)
        ops.insert(pos, {"op": "r", "n": rng.choice([1, 5, 1000]), "partial": rng.random() < 0.3})
        for _ in range(rng.choice([0, 0, 1, 2])):
            ops.insert(rng.randrange(pos + 1, len(ops) + 1),
                       {"op": "ps", "n": rng.choice([1, 4, 5, 30])})
    # peer consumption script
    steps = []
    auto = rng.random() < 0.12
    if not auto:
        for _ in range(rng.randint(0, 10)):
            if small:
                n = rng.choice([1, 1, 2, 3, window, window + 1, 10])
            else:
                n = rng.choice([1, 100, window // 2, window, window + 1, 2047, 2048, 2049, 4096, 10000])
            steps.append([max(1, n), rng.choice([0, 1, 1, 2, 5])])
    tapes = {}
    t = rng.random()
    if t < 0.55:
        if small:
            vals = [rng.choice([0, 0, 1, 1, 2, 3, -1]) for _ in range(rng.randint(1, 14))]
            cyc = total <= 300 and rng.random() < 0.5
            if cyc:
                vals = [v if v >= 0 else 1 for v in vals]
        else:
            c = rng.choice(sizes) or 2048
            vals = [rng.choice([0, 0, 1, 2, 100, 2046, 2047, 2048, 2049, 4095, max(1, c - 1), c,
                                max(1, c // 2), -1])
                    for _ in range(rng.randint(1, 14))]
            cyc = rng.random() < 0.3 and min([v for v in vals if v > 0] or [4096]) >= 512
            if cyc:
                vals = [v if v >= 0 else 0 for v in vals]
        tapes["send_cap"] = {"v": vals, "cycle": cyc}
    if rng.random() < 0.25:
        tapes["delay"] = [rng.choice([0, 1, 2]) for _ in range(8)]
    if rng.random() < 0.2:
        tapes["defer"] = [rng.choice([0, 1]) for _ in range(10)]
    if rng.random() < 0.1:
        tapes["late"] = [rng.choice([0, 1, 3]) for _ in range(5)]
    # earlier streams on the same loop, closed while write-blocked; fd numbers are reused, and
    # the stream under test then starts with a pending read before its back-pressured writes
    pre = []
    if rng.random() < 0.2:
        for _ in range(rng.choice([1, 1, 2])):
            pw = rng.choice([1, 4, 64])
            pre.append({"window": pw, "n": rng.choice([0, pw, pw + 1, pw + 100, 3000]),
                        "wait": rng.choice([0, 0, 1]), "read": rng.random() < 0.3})
        if ops[0].get("op") != "r":
            ops.insert(0, {"op": "r", "n": 1000, "partial": False})
    maxlen = 3 if tier == "quick" else 4
    sb = sb_enumerated(index, maxlen)
    if sb is None:
        sb = sb_random(rng)
    return {
        "property": ID, "version": 1,
        "knobs": {"window": window, "max_write_buffer_size": mwb, "auto": auto,
                  "drain_gap": rng.choice([0, 1, 3])},
        "ops": ops,
        "consumer": steps,
        "pre": pre,
        "tapes": tapes,
        "sb": sb,
    }


def validate(scn):
    try:
        k = scn["knobs"]
        if not isinstance(k["window"], int) or k["window"] < 1:
            return False
        for pre in scn.get("pre", ()):
            if not isinstance(pre, dict):
                return False
        m = k.get("max_write_buffer_size")
        if m is not None and (not isinstance(m, int) or m < 0):
            return False
        for op in scn["ops"]:
            if not isinstance(op, dict) or op.get("op") not in ("w", "c", "x", "r", "ps"):
                return False
            if op["op"] == "w" and (op.get("kind", "b") not in KINDS or int(op["n"]) < 0):
                return False
        for s in scn.get("consumer", ()):
            if not (isinstance(s, list) and len(s) == 2):
                return False
        for op in scn.get("sb", ()):
            if not (isinstance(op, list) and len(op) >= 2 and op[0] in ("a", "v", "p")):
                return False
            if op[0] == "a" and (len(op) > 2 and op[2] not in KINDS):
                return False
            if op[0] in ("a", "p") and not isinstance(op[1], int):
                return False
            if op[0] == "v" and not isinstance(op[1], int) and op[1] not in (
                    "first", "first-1", "first+1", "all", "all-1"):
                return False
        return True
    except Exception:
        return False


# ----------------------------------------------------------------------------
# the run


def run(scn, full_log=False):
    from tornado.iostream import IOStream, StreamBufferFullError

    knobs = scn["knobs"]
    ops = scn["ops"]
    viol = []
    probes = {}
    outcome = []
    seen_keys = set()

    over = []  # set once the verdict is final: teardown cancellations are not observations

    def bad(rule, msg, key=None):
        key = key or rule
        if key in seen_keys or over:
            return
        seen_keys.add(key)
        viol.append({"rule": rule, "key": key, "msg": msg})

    def probe(name, n=1):
        probes[name] = probes.get(name, 0) + n

    run_sb(scn.get("sb", ()), bad, probe)

    with SimEnv(scn.get("tapes"), max_iters=300_000, full_log=full_log) as env:
        net = env.net
        loop = env.loop
        expected = bytearray()  # concatenation of accepted writes
        st = {"acc": 0, "first_pending": 0, "pending_on_return": 0, "accepted_writes": 0,
              "inline": 0, "refused": 0, "front_large": False}
        futs = []  # (future, end_index, op index, size)
        xc = set()  # indices into futs of futures cancelled by their owner
        read_futs = []
        resolved_order = []
        ends = []  # (start, end, is_large) per accepted non-empty write

        def check_futs(acc, where):
            # resolved futures must form a prefix; each resolved end <= accepted
            i = st["first_pending"]
            n = len(futs)
            while i < n and futs[i][0].done():
                f, end, oi, size = futs[i]
                if i in xc:
                    i += 1  # settled by its owner; its bytes are still owed to the wire
                    continue
                if f.cancelled() or f.exception() is not None:
                    bad("write.future_failed", f"write op {oi}: future failed "
                        f"{'cancelled' if f.cancelled() else type(f.exception()).__name__} ({where})")
                elif end > acc:
                    bad("write.future_resolved_early",
                        f"write op {oi} (size {size}, end index {end}) resolved when the transport "
                        f"had accepted only {acc} bytes ({where})",
                        "write.future_resolved_early/" + ("zero" if size == 0 else "data"))
                i += 1
            st["first_pending"] = i
            for j in range(i + 1, n):
                if futs[j][0].done() and j not in xc:
                    bad("write.future_order", f"write op {futs[j][2]} resolved before earlier write "
                        f"op {futs[i][2]} ({where})")
                    break

        def tap(sock, chunk):
            acc = st["acc"]
            check_futs(acc, "at send")
            ln = len(chunk)
            if bytes(expected[acc:acc + ln]) != chunk:
                have = bytes(expected[acc:acc + ln])
                k = 0
                while k < min(len(have), ln) and have[k] == chunk[k]:
                    k += 1
                bad("write.transport_bytes_mismatch",
                    f"transport accepted {ln} bytes at stream offset {acc}; first difference at "
                    f"offset {acc + k} (got {chunk[k:k + 6]!r} expected {have[k:k + 6]!r}, "
                    f"{len(expected)} bytes queued)")
            st["acc"] = acc + ln
            env.log.ev("acc", acc + ln)

        async def predecessors():
            """Earlier streams on the same loop, each closed while write-blocked; with fd
            reuse the stream under test then inherits their fd number."""
            net.reuse_fds = True
            for pi, pre in enumerate(scn.get("pre", ())):
                w = max(1, int(pre.get("window", 1)))
                n = max(0, int(pre.get("n", 0)))
                psock, ppeer = net.pair(window_ab=w, name="pre%d" % pi)
                ppeer.auto = False
                raw = pattern(n, 7 + pi)

                def pre_tap(sk, chunk, raw=raw):
                    off = sk.sent - len(chunk)
                    if raw[off:off + len(chunk)] != chunk:
                        bad("write.pre_stream_bytes_mismatch",
                            f"predecessor stream {pi}: transport accepted wrong bytes at {off}")
                net.send_tap = pre_tap
                ps = IOStream(psock)
                if pre.get("read"):
                    rf = ps.read_bytes(100)
                else:
                    rf = None
                wf = ps.write(raw)
                u = int(pre.get("wait", 0) or 0)
                if u > 0:
                    await asyncio.sleep(u * UNIT)
                else:
                    await loop.idle()
                if ps.writing():
                    probe("predecessor_closed_while_write_blocked")
                ps.close()
                for f in (wf, rf):
                    if f is not None and f.done() and not f.cancelled():
                        f.exception()
                await loop.idle()
            net.send_tap = None

        async def main():
            if scn.get("pre"):
                await predecessors()
            sock, peer = net.pair(window_ab=knobs["window"])
            if scn.get("pre") and sock.fileno() == 101:
                probe("fd_number_reused")
            peer.auto = bool(knobs.get("auto"))
            kw = {}
            if knobs.get("max_write_buffer_size") is not None:  # 0 is a legal limit
                kw["max_write_buffer_size"] = int(knobs["max_write_buffer_size"])
            mwb = kw.get("max_write_buffer_size")
            if mwb == 0:
                probe("max_write_buffer_size_zero")
            stream = IOStream(sock, **kw)
            net.send_tap = tap
            orig_send = sock.send

            def send(data):
                offered = len(data)
                before = sock.sent
                if offered == 0:
                    # a correct stream never offers an empty buffer; a stream that does so
                    # while holding bytes spins on WRITE readiness for ever
                    st["empty_sends"] = st.get("empty_sends", 0) + 1
                    if st["empty_sends"] == 8:
                        bad("write.empty_send_spin", "send() called 8 times with an empty buffer "
                            f"({st['acc']} of {len(expected)} bytes accepted)")
                        loop.max_iters = min(loop.max_iters, loop.iterations + 8)
                try:
                    n = orig_send(data)
                finally:
                    n2 = sock.sent - before
                    if 0 < n2 < offered or (n2 == 0 and offered):
                        # partial progress: which accepted write is at the head of the queue?
                        pos = before
                        for s, e, large in ends:
                            if s <= pos < e:
                                if large and n2:
                                    probe("partial_send_inside_large_buffer")
                                elif n2:
                                    probe("partial_send_inside_small_buffer")
                                break
                return n
            sock.send = send

            async def consumer():
                for n, gap in scn.get("consumer", ()):
                    await asyncio.sleep(max(1, int(gap)) * UNIT)
                    if peer.consume(max(1, int(n))):
                        probe("scripted_consume")
                await asyncio.sleep(int(knobs.get("drain_gap", 0) or 0) * UNIT)
                peer.rx.window = 1 << 22
                peer.auto = True
                peer.consume(None)

            ctask = loop.create_task(consumer())
            queued = 0

            def settled_cb(i):
                def cb(f):
                    if i not in xc:
                        resolved_order.append(i)
                    check_futs(st["acc"], "at future callback")
                return cb

            def checkpoint(where):
                check_futs(st["acc"], where)
                w = stream.writing()
                if w != (queued - st["acc"] > 0):
                    bad("write.writing_flag", f"writing()={w} with {queued} queued and "
                        f"{st['acc']} accepted ({where})")

            for oi, op in enumerate(ops):
                if op["op"] == "c":
                    if not peer.auto and peer.consume(max(1, int(op["n"]))):
                        probe("writer_side_consume")
                    continue
                if op["op"] == "x":
                    cand = [k for k in range(len(futs)) if not futs[k][0].done()]
                    if cand:
                        k = cand[int(op.get("k", 0) or 0) % len(cand)]
                        xc.add(k)
                        futs[k][0].cancel()
                        env.log.ev("x", futs[k][2])
                        probe("owner_cancelled_queued_write")
                        if k != len(futs) - 1:
                            probe("owner_cancelled_write_with_writes_behind")
                    continue
                if op["op"] == "r":
                    if not stream.reading():
                        try:
                            read_futs.append(stream.read_bytes(max(1, int(op.get("n", 1))),
                                                               partial=bool(op.get("partial"))))
                            probe("read_issued")
                        except Exception as e:
                            if stream.closed():
                                bad("write.stream_closed", "stream closed by itself: "
                                    f"error={stream.error!r}")
                            else:
                                bad("harness.read_raised", f"{type(e).__name__}: {e}")
                    continue
                if op["op"] == "ps":
                    peer.send(b"z" * max(1, int(op.get("n", 1))))
                    continue
                obj, raw = payload(op.get("kind", "b"), op["n"], op.get("seed", 0), op.get("off", 0))
                size = len(raw)
                pending = queued - st["acc"]
                must_refuse = mwb is not None and size > 0 and pending + size > mwb
                if mwb is not None and size > 0 and pending + size == mwb:
                    probe("buffer_exact_fit")
                w_before = stream.writing()
                acc_before = st["acc"]
                expected.extend(raw)  # write() may hand bytes to the transport before returning
                try:
                    fut = stream.write(obj)
                except StreamBufferFullError:
                    del expected[queued:]
                    st["refused"] += 1
                    outcome.append(("full", size))
                    env.log.ev("w", oi, size, "full")
                    if not must_refuse:
                        bad("write.full_error_unexpected",
                            f"write op {oi} of {size} bytes refused with {pending} bytes pending and "
                            f"max_write_buffer_size={mwb}")
                    else:
                        probe("buffer_full_refused")
                    if (stream.writing() != w_before or st["acc"] != acc_before or stream.closed()
                            or sock.sent != acc_before):
                        bad("write.full_error_side_effect",
                            f"write op {oi}: refusal changed state (writing {w_before}->"
                            f"{stream.writing()}, accepted {acc_before}->{st['acc']}, "
                            f"closed={stream.closed()})")
                    checkpoint("after refused write")
                    continue
                except Exception as e:
                    del expected[queued:]
                    bad("write.raised", f"write op {oi} ({op.get('kind')}, {size} bytes): "
                        f"{type(e).__name__}: {e}", f"write.raised/{type(e).__name__}")
                    outcome.append(("exc", type(e).__name__))
                    break
                if must_refuse:
                    bad("write.full_error_expected",
                        f"write op {oi} of {size} bytes accepted with {pending} bytes pending and "
                        f"max_write_buffer_size={mwb}")
                if size:
                    ends.append((queued, queued + size, size > 2048))
                queued += size
                st["accepted_writes"] += 1
                futs.append((fut, queued, oi, size))
                done_now = fut.done()
                fut.add_done_callback(settled_cb(len(futs) - 1))
                env.log.ev("w", oi, size, op.get("kind", "b"), done_now)
                outcome.append(("ok", size, done_now))
                if stream.reading() and queued - st["acc"] > 0:
                    probe("read_pending_while_write_backlog")
                if done_now:
                    st["inline"] += 1
                else:
                    st["pending_on_return"] += 1
                    if size == 0:
                        probe("zero_len_write_behind_pending_bytes")
                    if pending > 0 and 0 < size <= 2048:
                        probe("small_write_queued_behind_pending")
                    if pending > 0 and size > 2048:
                        probe("large_write_queued_behind_pending")
                if op.get("kind", "b") in _ITEM and size:
                    probe("mv_itemsize_gt1")
                if op.get("kind") in ("mvs", "mvIs") and size:
                    probe("mv_sliced")
                if size in (2047, 2048, 2049):
                    probe("size_%d" % size)
                if size >= 70000:
                    probe("size_70000")
                checkpoint("after write")
                then = op.get("then", "none")
                try:
                    if then == "await":
                        if not fut.done():
                            probe("await_pending_future")
                        await fut
                    elif then == "prev":
                        k = max(1, int(op.get("k", 1)))
                        j = max(0, len(futs) - 1 - k)
                        if j not in xc:
                            if not futs[j][0].done():
                                probe("await_pending_future")
                            await futs[j][0]
                    elif then == "idle":
                        await loop.idle()
                    elif then == "sleep":
                        await asyncio.sleep(max(1, int(op.get("u", 1))) * UNIT)
                except Exception as e:
                    bad("write.future_failed", f"awaiting after write op {oi}: "
                        f"{type(e).__name__}: {e}")
                    break
                if then != "none":
                    checkpoint("after " + then)
            for k, (f, end, oi, size) in enumerate(futs):
                if k in xc:
                    continue
                try:
                    await f
                except Exception as e:
                    bad("write.future_failed", f"write op {oi}: {type(e).__name__}: {e}")
            await ctask
            await loop.idle()
            if xc and any(futs[k][1] <= st["acc"] and k != len(futs) - 1 for k in xc):
                probe("cancelled_write_flushed_with_writes_behind")
            checkpoint("at end")
            if st["acc"] != queued:
                bad("write.incomplete_at_quiescence",
                    f"{queued} bytes queued, transport accepted {st['acc']}")
            if stream.closed():
                bad("write.stream_closed", f"stream closed by itself: error={stream.error!r}")
            # everything accepted must have reached the peer before the fd goes away (closing
            # with unread inbound data resets the connection)
            await peer.wait(lambda: len(peer.received) >= queued or peer.ended())
            stream.close()
            for rf in read_futs:
                if rf.done() and not rf.cancelled():
                    rf.exception()
            await peer.wait_eof()
            if bytes(peer.received) != bytes(expected):
                bad("write.peer_received_mismatch",
                    f"peer received {len(peer.received)} bytes, {len(expected)} were written")
            return queued

        status = env.run(main())
        if status == "hang":
            pend = [(oi, size) for f, end, oi, size in futs if not f.done()]
            bad("write.future_never_resolved",
                f"quiescent with the window open and the peer draining, but write futures "
                f"{pend[:4]} (op, size) are pending; transport accepted {st['acc']} of "
                f"{len(expected)} queued bytes",
                "write.future_never_resolved/" +
                ("all_bytes_accepted" if st["acc"] == len(expected) else "bytes_stuck"))
        elif status in ("step_cap", "time_cap"):
            bad("write.livelock", f"{status} after {loop.iterations} iterations")
        elif status.startswith("error"):
            bad("harness.main_raised", f"{status}: {getattr(env, 'main_exception', None)!r}")
        if resolved_order != sorted(resolved_order):
            bad("write.future_order", f"futures resolved in order {resolved_order[:10]}")
        for r in env.errors():
            bad("write.error_logged", f"{r[0]} {r[1]} {r[2][:80]} {r[3]}", "write.error_logged")
        for m, e in env.loop_errors:
            if e == "CancelledError" and xc and "write.<locals>.<lambda>" in str(m):
                # write() attaches `lambda f: f.exception()` to its future; it raises when the
                # owner cancels the future.  Noise at cancel time, unrelated to delivery.
                probe("write_cancel_done_callback_raised")
                continue
            bad("write.loop_error", f"{m} {e}", f"write.loop_error/{e}")
        stats = env.stats()
        stats["probes"].update(probes)
        stats["probes"]["future_done_on_return"] = st["inline"]
        stats["probes"]["future_pending_on_return"] = st["pending_on_return"]
        f = stats["faults"]
        perturbed = (f.get("partial_send", 0) + f.get("zero_window_stall", 0)
                     + f.get("send_eagain", 0)) > 0
        nontrivial = st["accepted_writes"] >= 2 and perturbed and st["pending_on_return"] >= 1
        over.append(1)
        return {"violations": viol, "nontrivial": nontrivial, "stats": stats,
                "log_head": env.log.head, "log_full": env.log.full, "outcome": outcome}
