"""C40 - the selector-thread loop never deadlocks, loses events or hangs on close.

The real tornado.platform.asyncio.AddThreadSelectorEventLoop / SelectorThread
wrapped around a SimLoop.  tornado.platform.asyncio's module globals
``threading``, ``select`` and ``socket`` are replaced by baton-scheduled
simulations (sim/threads.py): the selector thread is a real OS thread, but
only one thread runs at a time and the ``thread`` tape decides who runs next
at every yield point (every simulated primitive, thread start/join,
call_soon_threadsafe, loop iteration boundaries, the loop going to sleep and,
in line mode, every source line of tornado/platform/asyncio.py).

Workload (on the loop thread): add/remove reader/writer on 1-4 simulated fds
whose readiness is changed by RawPeer sends / window openings, fds closed right
after removal, selector close() at arbitrary points (from the main coroutine,
from inside a reader/writer callback, through shutdown_asyncgens, after the
loop stopped, or without the loop ever having run), callbacks that re-register.

Every run happens in a forked child (threads parked by an aborted run die with
it); the verdict comes back through a pipe as JSON.
"""

import asyncio
import select as real_select
import socket as real_socket
import sys
import threading as real_threading

# everything SimEnv patches must be imported before the fork, not once per child
import tornado.httpclient  # noqa: F401
import tornado.simple_httpclient  # noqa: F401
import tornado.tcpclient  # noqa: F401
import tornado.web  # noqa: F401
import tornado.websocket  # noqa: F401
from tornado.platform import asyncio as tpa

from sim.env import SimEnv, ModProxy, UNIT
from sim.threads import (Baton, BatonAbort, BatonLoop, SimSelect, sim_threading, line_tracer,
                         ForkRunner, DONE, BLOCKED)

ID = "C40"
LEVEL = "exploration"
QUICK_N = 10000
THOROUGH_N = 200_000
CHUNK = 100
WALL = 30.0
RULE = ("gen(seed): 1-4 fds with per-dispatch callback action lists (consume all/some, "
        "remove, re-register, remove+close fd, close selector, add writer), an op list on the "
        "loop thread (add/remove reader/writer, remove+close, peer send now/later, FIN, window "
        "drain, sleep/tick/idle, selector close, shutdown_asyncgens), final close mode, waker "
        "capacity, EBADF model, and a thread-schedule tape (random switch rate or 1-3 placed "
        "pre-emptions; line-level in thorough). non-trivial = selector thread started AND >=1 "
        "scheduling decision with >=2 eligible threads went against the default AND >=1 "
        "reader/writer callback was dispatched through the selector thread; distinct = distinct "
        "scenario hash")
COMPONENTS = {
    "real": ["tornado.platform.asyncio.SelectorThread", "tornado.platform.asyncio.AddThreadSelectorEventLoop",
             "asyncio.BaseEventLoop.call_soon/call_soon_threadsafe/Handle/Task/async generators",
             "OS threads (one runnable at a time)"],
    "stub": ["thread scheduler (sim.threads.Baton)", "threading.Thread/Condition (sim.threads)",
             "select.select, socket.socketpair (sim.threads.SimSelect/WakerEnd)",
             "event loop poller+clock (sim.threads.BatonLoop over sim.loop.SimLoop)",
             "sockets and peers (sim.net.SimSocket/RawPeer)"],
}
ASSUMPTIONS = [
    "sequential consistency: one thread runs at a time; asyncio internals and each simulated "
    "primitive are atomic; switch points are the primitives (quick) or every source line of "
    "tornado/platform/asyncio.py (part of thorough)",
    "select model: level-triggered; a descriptor that is closed on entry fails with EBADF; one "
    "closed while select sleeps either makes it fail with EBADF or is never reported (knob)",
    "Condition.wait may wake spuriously in a small share of runs (legal for condition variables)",
    "liveness is judged at quiescence (no thread can run, no timer or network event left) and "
    "under round-robin scheduling once the workload has ended",
]

OPS = ("add_r", "rm_r", "add_w", "rm_w", "rm_close", "send", "fin", "drain", "sleep", "tick",
       "idle", "close", "agens")
RACTS = ("all", "some", "rm", "rereg", "rmclose", "closesel", "addw", "raise", "raise_cancel",
         "raise_base")
WACTS = ("fill", "once", "rereg", "rmclose", "closesel", "raise", "raise_cancel", "raise_base")
FINALS = ("sel_close", "loop_first")
# rare conditions that matter (reported even when zero)
PROBES = (
    "reg_change_before_thread_start", "reg_change_during_select",
    "reg_change_while_selector_waits_on_cond", "reg_change_while_selector_between_steps",
    "reg_change_after_thread_exit",
    "close_before_thread_start", "close_during_select", "close_while_selector_waits_on_cond",
    "close_while_selector_between_steps", "close_after_thread_exit", "close_in_callback",
    "close_via_asyncgens", "closed_without_start", "asyncgens_before_thread_manager_started",
    "dispatch_after_close", "post_on_closed_loop",
    "ebadf_raised", "ebadf_fallback_select", "fd_closed_with_selector_alive",
    "waker_full", "multi_ready", "notify_woke_waiter", "cv_spurious_wakeup",
    "rereg_in_callback", "rmclose_in_callback", "callback_raised",
    "callback_raised_base_exception", "eof_seen",
    "writer_dispatch", "writer_window_full",
)


# ----------------------------------------------------------------------------
# generation


def _tape(rng, tier, line):
    n = 260 if not line else 900
    style = rng.random()
    if style < 0.05:
        return []
    if style < 0.40:
        # a few placed pre-emptions, everything else default
        horizon = rng.choice([12, 30, 80, 200]) * (4 if line else 1)
        t = [0] * horizon
        for _ in range(rng.randint(1, 3)):
            t[rng.randrange(horizon)] = 1
        while t and t[-1] == 0:
            t.pop()
        return t
    p = rng.choice([0.03, 0.08, 0.2, 0.4, 0.6])
    return [1 if rng.random() < p else 0 for _ in range(n)]


def gen(rng, tier, index):
    line = tier == "thorough" and rng.random() < 0.3
    knobs = {
        "kind": "nostart" if rng.random() < 0.04 else "run",
        "construct": rng.choice(["before", "in_main"]),
        "final": rng.choice(["sel_close", "sel_close", "loop_first"]),
        "waker_cap": rng.choice([1, 1, 2, 4, 16, 4096]),
        "closed_wakes": rng.random() < 0.5,
        "line": line,
        # register socket objects (as asyncio users do) instead of descriptor numbers (as IOLoop does)
        "fdobj": rng.random() < 0.15,
    }
    raising = rng.random() < 0.15
    nfd = rng.choice([1, 1, 2, 2, 3, 4])
    fds = []
    for i in range(nfd):
        ract = []
        for _ in range(rng.choice([0, 0, 1, 2, 3])):
            ract.append(rng.choice(["all", "some", "some", "rm", "rereg", "rereg", "rmclose",
                                    "closesel", "addw"] + (RAISES * 2 if raising else [])))
        wact = []
        for _ in range(rng.choice([0, 0, 1, 2])):
            wact.append(rng.choice(["fill", "once", "rereg", "rereg", "rmclose", "closesel"]
                                   + (RAISES if raising else [])))
        fds.append({"win": rng.choice([1, 2, 4, 8]), "wbytes": rng.choice([0, 1, 3, 8, 20]),
                    "rcap": rng.choice([1, 2, 64]), "ract": ract, "wact": wact})
    big = tier == "thorough" and rng.random() < 0.3
    nops = rng.randint(2, 24 if big else 12)
    ops = []
    if knobs["kind"] == "nostart":
        nops = rng.randint(0, 4)
    for k in range(nops):
        fd = rng.randrange(nfd)
        x = rng.random()
        if k < 2 and x < 0.7:
            ops.append({"op": rng.choice(["add_r", "add_r", "add_w"]), "fd": fd})
        elif x < 0.16:
            ops.append({"op": "add_r", "fd": fd})
        elif x < 0.24:
            ops.append({"op": "add_w", "fd": fd})
        elif x < 0.30:
            ops.append({"op": "rm_r", "fd": fd})
        elif x < 0.34:
            ops.append({"op": "rm_w", "fd": fd})
        elif x < 0.42:
            ops.append({"op": "rm_close", "fd": fd})
        elif x < 0.62:
            ops.append({"op": "send", "fd": fd, "n": rng.choice([1, 1, 2, 3, 5]),
                        "delay": rng.choice([0, 0, 0, 1, 2, 5])})
        elif x < 0.65:
            ops.append({"op": "fin", "fd": fd, "delay": rng.choice([0, 1, 3])})
        elif x < 0.72:
            ops.append({"op": "drain", "fd": fd, "n": rng.choice([1, 2, 8])})
        elif x < 0.80:
            ops.append({"op": "sleep", "k": rng.choice([1, 2, 3, 6])})
        elif x < 0.90:
            ops.append({"op": "tick"})
        elif x < 0.96:
            ops.append({"op": "idle"})
        elif x < 0.985:
            ops.append({"op": "close"})
        else:
            ops.append({"op": "agens"})
    if knobs["kind"] == "run" and rng.random() < 0.7:
        ops.append({"op": rng.choice(["idle", "sleep", "tick"]), "k": rng.choice([1, 4, 8])})
    tapes = {"thread": _tape(rng, tier, line)}
    if rng.random() < 0.06:
        tapes["cvsp"] = [rng.choice([0, 1]) for _ in range(6)]
    return {"property": ID, "version": 1, "knobs": knobs, "fds": fds, "ops": ops, "tapes": tapes}


def validate(scn):
    try:
        k = scn["knobs"]
        if k["kind"] not in ("run", "nostart") or k["final"] not in FINALS:
            return False
        if k["construct"] not in ("before", "in_main") or int(k["waker_cap"]) < 1:
            return False
        fds = scn["fds"]
        if not (1 <= len(fds) <= 8):
            return False
        for f in fds:
            if f["win"] < 1 or f["rcap"] < 1 or f["wbytes"] < 0:
                return False
            if any(a not in RACTS for a in f["ract"]) or any(a not in WACTS for a in f["wact"]):
                return False
        for o in scn["ops"]:
            if o["op"] not in OPS:
                return False
            if "fd" in o and not (0 <= o["fd"] < len(fds)):
                return False
        t = scn.get("tapes", {})
        return isinstance(t, dict)
    except Exception:
        return False


# ----------------------------------------------------------------------------
# one run (inside the forked child)


class _World:
    pass


class _WorkloadError(Exception):
    """Raised on purpose by a workload callback (action "raise")."""


class _WorkloadBaseError(BaseException):
    """Action "raise_base": asyncio's Handle._run reports every BaseException except
    SystemExit / KeyboardInterrupt to the loop's exception handler and carries on."""


RAISES = ["raise", "raise", "raise_cancel", "raise_base"]
_RAISE_WHAT = {"raise": _WorkloadError, "raise_cancel": asyncio.CancelledError,
               "raise_base": _WorkloadBaseError}
_RAISE_NAMES = ("_WorkloadError", "CancelledError", "_WorkloadBaseError")


def _child(request, result):
    scn = request["scn"]
    full_log = request["full_log"]
    knobs = scn["knobs"]
    viol = []
    probes = {}
    W = _World()
    W.pending = 0  # results posted by the selector thread and not yet handled
    W.dispatches = 0
    W.sel_closed = False
    W.close_returned = 0
    W.readers = {}  # fd index -> generation
    W.writers = {}
    W.gen = 0
    W.finished = False
    W.phase = "setup"
    W.outcome = []
    W.raised = 0  # workload callbacks that raised on purpose
    W.verdict = None  # set when the run is abandoned in place (see finish)

    def bad(rule, msg, key=None):
        for v in viol:
            if v["key"] == (key or rule):
                return
        viol.append({"rule": rule, "key": key or rule, "msg": msg})

    def probe(name, n=1):
        probes[name] = probes.get(name, 0) + n

    env = SimEnv(scn.get("tapes"), max_iters=6000, window=64, full_log=full_log,
                 allow=("threads",))
    loop = env.loop
    loop.__class__ = BatonLoop  # same layout; adds the scheduler's yield points
    net = env.net
    log = env.log

    def finish(fatal=None):
        if W.finished:
            return
        W.finished = True
        sys.settrace(None)
        if fatal is not None:
            kind, detail = fatal
            trail = sched.trail_text(30)
            if kind == "deadlock":
                bad("deadlock", f"no thread can run: {detail} (phase {W.phase}); schedule tail: "
                    f"{trail}", "deadlock/" + detail)
            else:
                bad("liveness." + kind, f"{kind} at {detail} after {sched.steps} scheduler steps "
                    f"(phase {W.phase}); schedule tail: {trail}")
        for r in sched.threads:
            if r.exc is not None:
                bad("selector_thread.exception",
                    f"{type(r.exc).__name__}: {r.exc} escaped thread {r.name}",
                    "selector_thread.exception/" + type(r.exc).__name__)
        n_raised = 0
        for msg, exc in env.loop_errors:
            if exc in _RAISE_NAMES:
                n_raised += 1
                continue
            bad("loop.callback_exception", f"{msg}: {exc}", f"loop.callback_exception/{exc}")
        if n_raised != W.raised:
            bad("callback.exception_not_reported", f"{W.raised} workload callbacks raised but the "
                f"loop's exception handler saw {n_raised}")
        st = env.stats()
        for name in PROBES:
            st["probes"].setdefault(name, 0)
        st["probes"].update(probes)
        st["probes"]["thread_switches"] = sched.switches
        st["probes"]["sched_choices"] = sched.choices
        st["probes"]["sched_preempts"] = sched.preempts
        st["faults"]["preemption"] = sched.preempts
        started = len(sched.threads) > 1
        nontrivial = bool(started and sched.preempts >= 1 and W.dispatches >= 1)
        # clean = this process can host another run: no thread left behind
        clean = fatal is None and all(t.state == DONE for t in sched.threads[1:])
        payload = {
            "violations": viol, "nontrivial": nontrivial, "stats": st,
            "log_head": log.head[:120],
            "log_full": log.full,
            "outcome": {"status": W.outcome, "steps": sched.steps,
                        "threads": sched.describe(), "dispatches": W.dispatches},
        }
        if clean:
            retire()
            result.send(payload, clean=True)
        elif result.can_leak():
            # abandon the run in place: the verdict is final, the scheduler goes dead, the
            # main thread unwinds to _child() (Baton.fatal raises BatonAbort there, or we
            # are already at its end) and delivers it; parked threads stay parked
            W.verdict = payload
            sched.dead = True
            loop.sched = None
            loop.block_hook = None
        else:
            result.send(payload, clean=False)

    def retire():
        loop.sched = None
        loop.block_hook = None
        sel = state["sel"]
        if sel is not None:
            # finish the thread manager's async generator now (its finalizer would
            # otherwise run at some later collection, against a closed loop)
            try:
                sel._selector._thread_manager_handle.aclose().send(None)
            except BaseException:  # noqa: BLE001 - StopIteration and friends
                pass

    sched = Baton(env.tapes.draw, log, max_steps=30000 if knobs.get("line") else 5000,
                  fair_cap=8000 if knobs.get("line") else 2000, on_fatal=lambda kind, detail: finish((kind, detail)))
    sched.adopt("L")
    loop.attach(sched)

    # ---- observation of the simulated primitives ---------------------------
    def sel_thread():
        return sched.threads[1] if len(sched.threads) > 1 else None

    def obs(kind, arg):
        if kind == "select.enter":
            blocking, rf, wf = arg
            if blocking:
                if W.pending > 0:
                    bad("select.overlap", "a new select() was started while the result of the "
                        "previous one had not yet been handled on the loop thread; schedule "
                        "tail: " + sched.trail_text(20))
                if sched.cur.idx == 0:
                    bad("select.on_loop_thread", "blocking select() called on the loop thread")
            log.ev("select", blocking, tuple(rf), tuple(wf))
        elif kind == "select.err":
            probe("ebadf_raised")
        elif kind == "select.ret":
            blocking, rs, ws = arg
            if not blocking:
                probe("ebadf_fallback_select")
            elif len(rs) + len(ws) >= 2:
                probe("multi_ready")
        elif kind == "waker.full":
            probe("waker_full")
        elif kind == "waker.send_blocks":
            probe("waker_blocking_send_on_full_buffer")  # never on the unchanged tree
        elif kind == "cv.notify":
            if arg:
                probe("notify_woke_waiter")
        elif kind == "cv.spurious":
            probe("cv_spurious_wakeup")

    def on_post(cb):
        if sched.cur.idx == 0:
            return cb
        W.pending += 1

        def run(*a):
            W.pending -= 1
            return cb(*a)
        return run

    def on_post_failed():
        if sched.cur.idx != 0:
            W.pending -= 1
            probe("post_on_closed_loop")

    loop.on_post = on_post
    loop.on_post_failed = on_post_failed

    def spurious():
        return bool(env.tapes.draw("cvsp"))

    simsel = SimSelect(sched, net.sockets.get, waker_cap=int(knobs["waker_cap"]),
                       closed_wakes=bool(knobs.get("closed_wakes")), obs=obs)
    th_proxy = sim_threading(sched, real_threading, obs=obs)
    real_cond = th_proxy.Condition

    def make_cond(*a, **k):
        c = real_cond(*a, **k)
        if scn.get("tapes", {}).get("cvsp"):
            c.spurious = spurious
        return c
    th_proxy.__dict__["Condition"] = make_cond
    saved = (tpa.threading, tpa.select, tpa.socket)
    tpa.threading = th_proxy
    tpa.select = ModProxy(real_select, select=simsel.select)
    tpa.socket = ModProxy(real_socket, socketpair=simsel.socketpair)

    # ---- the world: fds, peers, callbacks -----------------------------------
    class Fd:
        pass

    fds = []
    for i, spec in enumerate(scn["fds"]):
        f = Fd()
        f.i = i
        f.sock, f.peer = net.pair(window_ab=spec["win"], tag_a="f%d" % i, name="p%d" % i)
        f.peer.auto = False
        f.fd = f.sock if knobs.get("fdobj") else f.sock.fileno()
        f.ract = list(spec["ract"])
        f.wact = list(spec["wact"])
        f.wbytes = spec["wbytes"]
        f.rcap = spec["rcap"]
        f.closed = False
        fds.append(f)

    state = {"sel": None}

    def where_is_selector(prefix):
        s = sel_thread()
        if s is None:
            probe(prefix + "_before_thread_start")
        elif s.state == DONE:
            probe(prefix + "_after_thread_exit")
        elif s.state == BLOCKED and s.where == "select.wait":
            probe(prefix + "_during_select")
        elif s.state == BLOCKED and s.where == "cv.wait":
            probe(prefix + "_while_selector_waits_on_cond")
        else:
            probe(prefix + "_while_selector_between_steps")

    def add_r(f):
        W.gen += 1
        W.readers[f.i] = W.gen
        where_is_selector("reg_change")
        state["sel"].add_reader(f.fd, on_read, f.i, W.gen)

    def add_w(f):
        W.gen += 1
        W.writers[f.i] = W.gen
        where_is_selector("reg_change")
        state["sel"].add_writer(f.fd, on_write, f.i, W.gen)

    def rm_r(f):
        W.readers.pop(f.i, None)
        where_is_selector("reg_change")
        state["sel"].remove_reader(f.fd)

    def rm_w(f):
        W.writers.pop(f.i, None)
        where_is_selector("reg_change")
        state["sel"].remove_writer(f.fd)

    def rm_close(f):
        rm_r(f)
        rm_w(f)
        s = sel_thread()
        if s is not None and s.state != DONE and not W.sel_closed:
            probe("fd_closed_with_selector_alive")
        f.sock.close()
        f.closed = True

    def close_selector(how):
        where_is_selector("close")
        selector = state["sel"]._selector
        log.ev("close.call", how)
        if how == "agens":
            return
        selector.close()
        after_close(how)

    def after_close(how):
        W.sel_closed = True
        W.close_returned += 1
        log.ev("close.ret", how)
        selector = state["sel"]._selector
        t = selector._thread
        if t is not None and t.is_alive():
            bad("close.thread_alive", f"close() ({how}) returned while the selector thread is "
                "still running; schedule tail: " + sched.trail_text(20))

    def dispatch_common(kind, i, g):
        W.dispatches += 1
        th = sched.cur.idx
        log.ev("cb", kind, i, g, th)
        if th != 0:
            bad("callback.wrong_thread", f"{kind} callback for fd#{i} ran on thread "
                f"{sched.cur.name}, not on the loop thread")
        if W.sel_closed:
            probe("dispatch_after_close")

    def on_read(i, g):
        dispatch_common("r", i, g)
        f = fds[i]
        if f.closed:
            return
        act = f.ract.pop(0) if f.ract else "all"
        eof = False
        if act == "some":
            n = 1
        else:
            n = 1 << 16
        try:
            while True:
                d = f.sock.recv(min(n, f.rcap))
                if not d:
                    eof = True
                    break
                n -= len(d)
                if n <= 0:
                    break
        except BlockingIOError:
            pass
        if eof:
            probe("eof_seen")
            rm_r(f)
            return
        if act == "rm":
            rm_r(f)
        elif act == "rereg":
            probe("rereg_in_callback")
            rm_r(f)
            add_r(f)
        elif act == "rmclose":
            probe("rmclose_in_callback")
            rm_close(f)
        elif act == "closesel":
            if not W.sel_closed:
                probe("close_in_callback")
                close_selector("callback")
        elif act == "addw":
            o = fds[(i + 1) % len(fds)]
            if not o.closed and not W.sel_closed:
                add_w(o)
        elif act in _RAISE_WHAT:
            W.raised += 1
            probe("callback_raised")
            if act != "raise":
                probe("callback_raised_base_exception")
            raise _RAISE_WHAT[act]("reader fd#%d" % i)

    def on_write(i, g):
        dispatch_common("w", i, g)
        probe("writer_dispatch")
        f = fds[i]
        if f.closed:
            return
        act = f.wact.pop(0) if f.wact else "fill"
        if act in ("fill", "rereg"):
            try:
                while f.wbytes > 0:
                    k = f.sock.send(b"x" * f.wbytes)
                    f.wbytes -= k
            except BlockingIOError:
                probe("writer_window_full")
            except OSError:
                f.wbytes = 0
            if f.wbytes <= 0:
                rm_w(f)
            elif act == "rereg":
                probe("rereg_in_callback")
                rm_w(f)
                add_w(f)
        elif act == "once":
            rm_w(f)
        elif act == "rmclose":
            probe("rmclose_in_callback")
            rm_close(f)
        elif act == "closesel":
            rm_w(f)
            if not W.sel_closed:
                probe("close_in_callback")
                close_selector("callback")
        elif act in _RAISE_WHAT:
            rm_w(f)
            W.raised += 1
            probe("callback_raised")
            if act != "raise":
                probe("callback_raised_base_exception")
            raise _RAISE_WHAT[act]("writer fd#%d" % i)

    def build():
        state["sel"] = tpa.AddThreadSelectorEventLoop(loop)

    def do_sync(op):
        """Ops that need no await.  Returns False if the op was skipped."""
        kind = op["op"]
        if "fd" in op:
            f = fds[op["fd"]]
            if f.closed:
                return False
        if kind in ("add_r", "add_w", "rm_r", "rm_w", "rm_close"):
            if W.sel_closed:
                return False
            {"add_r": add_r, "add_w": add_w, "rm_r": rm_r, "rm_w": rm_w,
             "rm_close": rm_close}[kind](f)
        elif kind == "send":
            n = op.get("n", 1)
            if n <= 0 or f.peer.closed:
                return False
            f.peer.send(b"d" * n, delay=op.get("delay", 0))
            if not op.get("delay", 0):
                net.deliver_due(loop._now)
        elif kind == "fin":
            f.peer.half_close(delay=op.get("delay", 0))
            if not op.get("delay", 0):
                net.deliver_due(loop._now)
        elif kind == "drain":
            f.peer.consume(op.get("n", 1))
        elif kind == "close":
            if W.sel_closed:
                return False
            close_selector("op")
        else:
            return None
        return True

    async def main():
        if state["sel"] is None:
            build()
        W.phase = "workload"
        for n, op in enumerate(scn["ops"]):
            kind = op["op"]
            log.ev("op", n, kind, op.get("fd", -1))
            try:
                r = do_sync(op)
                if r is None:
                    if kind == "sleep":
                        await asyncio.sleep(max(0, op.get("k", 1)) * UNIT)
                    elif kind == "tick":
                        await asyncio.sleep(0)
                    elif kind == "idle":
                        await loop.idle()
                    elif kind == "agens":
                        if not W.sel_closed:
                            probe("close_via_asyncgens")
                            close_selector("agens")
                            await loop.shutdown_asyncgens()
                            if state["sel"]._selector._closed:
                                after_close("agens")
                            else:
                                probe("asyncgens_before_thread_manager_started")
            except Exception as e:  # noqa: BLE001 - no op may raise
                bad("api.exception", f"op {n} {kind} raised {type(e).__name__}: {e}",
                    f"api.exception/{kind}/{type(e).__name__}")
        W.phase = "drain"
        sched.set_fair()

    # ---- run ------------------------------------------------------------------
    def on_loop_error(_loop, context):
        # (the core's handler logs the message, whose argument reprs contain addresses)
        exc = context.get("exception")
        name = type(exc).__name__ if exc is not None else None
        env.loop_errors.append((str(context.get("message", "")).split("(")[0][:60], name))
        log.ev("loop_error", name)

    def _run_world():
        if knobs.get("line"):
            sched.tracer = line_tracer(sched, ("tornado/platform/asyncio.py",))
            sys.settrace(sched.tracer)
        try:
            if knobs["kind"] == "nostart":
                # the loop never runs: construct, register, close
                probe("closed_without_start")
                build()
                W.phase = "nostart"
                for n, op in enumerate(scn["ops"]):
                    log.ev("op", n, op["op"], op.get("fd", -1))
                    try:
                        do_sync(op)
                    except Exception as e:  # noqa: BLE001
                        bad("api.exception", f"op {n} {op['op']} raised {type(e).__name__}: {e}",
                            f"api.exception/{op['op']}/{type(e).__name__}")
                status = "nostart"
            else:
                if knobs["construct"] == "before":
                    build()
                status = env.run(main())
            W.outcome.append(status)
            sched.set_fair()
            W.phase = "quiescent"
            log.ev("status", status)
            if status == "hang":
                bad("liveness.main_hang", "the system went quiescent with the workload coroutine "
                    "still pending; schedule tail: " + sched.trail_text(30))
            elif status in ("step_cap", "time_cap"):
                bad("liveness." + status, f"{status} after {loop.iterations} loop iterations")
            elif status.startswith("error"):
                bad("harness.main_raised", f"{status}: {getattr(env, 'main_exception', None)!r}")
            # -- every readiness of an fd that stays registered must have been dispatched
            died = any(t.exc is not None for t in sched.threads)
            if status == "done" and not W.sel_closed and not died:
                # (a selector thread killed by an exception is reported as such, once; the
                # events lost after its death are a consequence, not a second violation)
                net.deliver_due(loop._now)
                for f in fds:
                    if f.closed:
                        continue
                    ctx = "/after_callback_exception" if W.raised else ""
                    if f.i in W.readers and f.sock.readable():
                        bad("lost_event.read", f"quiescent, but fd#{f.i} is registered for reading "
                            f"and readable ({len(f.sock.rx.rbuf)} bytes buffered, fin="
                            f"{f.sock.rx.fin}); {W.raised} callbacks raised earlier; threads: "
                            f"{sched.describe()}; schedule tail: " + sched.trail_text(30),
                            "lost_event.read" + ctx)
                    if f.i in W.writers and f.sock.writable():
                        bad("lost_event.write", f"quiescent, but fd#{f.i} is registered for writing "
                            f"and writable; {W.raised} callbacks raised earlier; threads: "
                            f"{sched.describe()}; schedule tail: " + sched.trail_text(30),
                            "lost_event.write" + ctx)
            # -- final close
            W.phase = "final_close"
            sel = state["sel"]
            how = knobs["final"]
            if not W.sel_closed:
                where_is_selector("close")
            log.ev("close.call", "final:" + how)
            try:
                if how == "loop_first":
                    if not loop.is_closed():
                        loop.close()
                    sel._selector.close()
                else:
                    sel.close()
                log.ev("close.ret", "final")
            except Exception as e:  # noqa: BLE001
                bad("api.exception", f"final close raised {type(e).__name__}: {e}",
                    f"api.exception/final_close/{type(e).__name__}")
            W.phase = "closed"
            # give a thread that was started late (close before the thread manager ran) its turn
            for _ in range(50):
                if all(t.state == DONE for t in sched.threads[1:]):
                    break
                sched.yield_("final.wait")
            alive = [t.name for t in sched.threads[1:] if t.state != DONE]
            if alive:
                bad("close.thread_alive", f"after close() thread(s) {alive} are still alive: "
                    f"{sched.describe()}; schedule tail: " + sched.trail_text(30))
            selector = sel._selector
            if not selector._closed:
                bad("close.not_closed", "close() returned but the selector is not marked closed")
            for w in simsel.wakers.values():
                if not w.closed:
                    bad("close.waker_leak", "waker socket left open after close()")
            if simsel.max_in_progress > 1:
                bad("select.concurrent", f"{simsel.max_in_progress} select() calls in progress at "
                    "the same time")
        finally:
            sys.settrace(None)
            tpa.threading, tpa.select, tpa.socket = saved
        finish()

    try:
        with env:
            loop.set_exception_handler(on_loop_error)
            _run_world()
    except BatonAbort:
        pass
    finally:
        sys.settrace(None)
    if W.verdict is not None and not result.sent:
        retire()
        result.send(W.verdict, leaked=True)


_frozen = []


_runner = ForkRunner(_child, wall=WALL)


def run(scn, full_log=False):
    if not _frozen:
        # keep the child's page-copying small: nothing allocated so far is ever
        # visited by a collection again (neither here nor in the children)
        import gc
        gc.collect()
        gc.freeze()
        _frozen.append(1)
    # full_log is what --replay asks for: a replay always gets a process of its own
    return _runner.run({"scn": scn, "full_log": bool(full_log)}, fresh=bool(full_log))
