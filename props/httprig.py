"""Shared HTTP server rig for C01-C05 and C32.

A real tornado.httpserver.HTTPServer on a listening SimSocket (add_socket),
serving an application wrapped by a *recording* delegate: every call the
HTTP/1 connection makes on the application's message delegate
(headers_received / data_received / finish / on_connection_close) is recorded
per request, in order.  That is the observation point "what the application
received".  Clients are RawPeer objects.
"""

from tornado import httputil


class Rec:
    """What one message delegate was told."""

    __slots__ = ("idx", "method", "target", "version", "headers", "chunks",
                 "finished", "closed", "events", "conn_id", "request")

    def __init__(self, idx, conn_id):
        self.idx = idx
        self.conn_id = conn_id
        self.method = self.target = self.version = None
        self.headers = None  # list of (name, value) in arrival order
        self.chunks = []
        self.finished = 0
        self.closed = 0
        self.events = []  # "H", "D<len>", "F", "C" in call order
        self.request = None

    def body(self):
        return b"".join(self.chunks)

    def summary(self):
        return (self.method, self.target, self.version,
                tuple(self.headers or ()), self.body())


class _RecordingMessage(httputil.HTTPMessageDelegate):
    def __init__(self, inner, rec, log):
        self.inner = inner
        self.rec = rec
        self.log = log

    def headers_received(self, start_line, headers):
        r = self.rec
        r.method, r.target, r.version = start_line.method, start_line.path, start_line.version
        r.headers = [(k, v) for k, v in headers.get_all()]
        r.events.append("H")
        self.log.ev("app", r.idx, "H", r.method, r.target, r.version)
        return self.inner.headers_received(start_line, headers)

    def data_received(self, chunk):
        self.rec.chunks.append(bytes(chunk))
        self.rec.events.append("D%d" % len(chunk))
        self.log.ev("app", self.rec.idx, "D", len(chunk))
        return self.inner.data_received(chunk)

    def finish(self):
        self.rec.finished += 1
        self.rec.events.append("F")
        self.log.ev("app", self.rec.idx, "F")
        return self.inner.finish()

    def on_connection_close(self):
        self.rec.closed += 1
        self.rec.events.append("C")
        self.log.ev("app", self.rec.idx, "C")
        return self.inner.on_connection_close()


class RecordingApp(httputil.HTTPServerConnectionDelegate):
    """Wraps an HTTPServerConnectionDelegate (e.g. a web.Application) or a plain
    ``callable(request)``; exposes ``records`` (list of Rec, in start order)."""

    def __init__(self, inner, log):
        self.inner = inner
        self.log = log
        self.records = []
        self.conn_closed = []  # server_conn ids for which on_close ran
        self._conns = []

    def _cid(self, server_conn):
        # keep a reference: id() of a freed connection may be reused by a later one
        for i, c in enumerate(self._conns):
            if c is server_conn:
                return i
        self._conns.append(server_conn)
        return len(self._conns) - 1

    def start_request(self, server_conn, request_conn):
        rec = Rec(len(self.records), self._cid(server_conn))
        self.records.append(rec)
        self.log.ev("app", rec.idx, "start", rec.conn_id)
        if isinstance(self.inner, httputil.HTTPServerConnectionDelegate):
            inner = self.inner.start_request(server_conn, request_conn)
        else:
            from tornado.httpserver import _CallableAdapter
            inner = _CallableAdapter(self.inner, request_conn)
        return _RecordingMessage(inner, rec, self.log)

    def on_close(self, server_conn):
        self.conn_closed.append(self._cid(server_conn))
        if isinstance(self.inner, httputil.HTTPServerConnectionDelegate):
            self.inner.on_close(server_conn)


def start_server(env, app, *, port=80, ip="127.0.0.1", **server_kwargs):
    """Returns (server, listening_socket, recording_app). Call inside the
    main coroutine (an IOLoop must be current)."""
    from tornado.httpserver import HTTPServer
    rapp = RecordingApp(app, env.log)
    server = HTTPServer(rapp, **server_kwargs)
    ls = env.net.listen(ip, port)
    server.add_socket(ls)
    return server, ls, rapp


def connect(env, ls, *, name="cli", window=None, peer_addr=("127.0.0.1", 50000)):
    """A raw client connected to the server; returns (peer, server_side_socket)."""
    return env.net.raw_connect(ls, name=name, window=window, peer_addr=peer_addr)


def send_cut(peer, data, cuts, gaps=None, default_gap=1):
    """Send ``data`` cut at absolute offsets ``cuts`` (any order, duplicates and
    out-of-range ignored); gaps[i] = units between segment i-1 and i."""
    pts = sorted({c for c in cuts if 0 < c < len(data)})
    pos = 0
    i = 0
    for c in pts + [len(data)]:
        g = 0 if i == 0 else (gaps[i - 1] if gaps and i - 1 < len(gaps) else default_gap)
        peer.send(data[pos:c], gap=g)
        pos = c
        i += 1
    return i


async def shutdown(server):
    server.stop()
    await server.close_all_connections()
