"""C37 - @gen.coroutine generators behave like the equivalent native coroutines.

A scenario carries a small program (JSON AST from a bounded grammar), the
outcomes of the futures it may wait on and a completion script (which futures
are done before the coroutine starts, and the order / iteration spacing / time
spacing in which the driver resolves the others).  The program is rendered to
Python source twice -- as a ``@gen.coroutine`` generator and as an ``async def``
-- compiled with exec(), and both are started by the same caller in the same
SimLoop: the decorated one by calling it, the native one with
``loop.create_task``.  Each form has its own set of futures; the driver resolves
future k of both sets at the same point of the script.

Oracle (differential, per the statement): same final result or exception (type
name and args) and same sequence of the body's own ``emit`` side effects; a
ContextVar set by the caller is visible inside (checked absolutely on the
decorated form too).  Timing relative to the driver or to the other form is NOT
compared (the decorated form runs its first step synchronously).  A form that
is still pending at quiescence although every future was resolved is a
violation (the run itself never waits on either form, so this cannot look like
a harness hang).

Translation table (generator form -> native form).  Only constructs whose
meaning is the same in both forms are generated; where the spelling differs the
documented equivalent is used:

  v = yield F                      v = await F
  v = yield [F1, F2] / {k: F}      v = await gen.multi([F1, F2] / {k: F})
  v = yield gen.multi([...])       v = await gen.multi([...])
  v = yield gen.moment             v = await asyncio.sleep(0)     (gen.moment docstring)
  v = yield            (None)      v = await asyncio.sleep(0)
  v = yield sub()                  v = await sub()      sub: ``async def`` in both forms
                                   ("native"), or rendered in the form of its caller ("same")
  return x                         return x
  raise gen.Return(x)              return x
  raise E(a) / raise / try-except-finally / for / emit / CV.get / CV.set: identical text

Excluded because the two forms legitimately differ (not because they are hard):
  * ``raise gen.Return`` lexically inside a ``try`` of the same function that has an
    ``except Exception`` handler: Return *is* an Exception and would be
    caught by the generator's own handler; rendered as ``return x`` there.
  * ContextVar.set inside a nested coroutine: ``yield sub()`` runs sub in a Task (own
    context copy), ``await sub()`` runs it in the caller's context; sets are generated
    in the top-level body only, reads anywhere.
  * lists/dicts contain futures only (no nested coroutines): concurrent children would make
    the emit order depend on timing, which the statement excludes from comparison.
  * a bare ``raise`` anywhere but lexically inside an except-handler (a finally block in
    between resets that): while ``raise gen.Return(v)`` propagates, the Return is the current
    exception and ``finally: raise`` re-raises it, whereas after ``return v`` there is none (or
    the enclosing handler's).  validate() enforces it, so the shrinker cannot create one.
  * raising StopIteration (PEP 479), yielding non-awaitables (BadYieldError vs TypeError).
  * cancelled futures are a separately tagged sub-batch (CANCEL_RATE); the statement speaks
    of futures that "complete" and of "result or exception" without naming cancellation,
    so violations there carry the key suffix /awaited_cancelled and can be triaged apart.
"""

import asyncio
import contextvars
import sys
import warnings

from sim.env import SimEnv, UNIT

ID = "C37"
LEVEL = "exploration"
QUICK_N = 100000
THOROUGH_N = 3000000
CHUNK = 500
CANCEL_RATE = 0.08
RULE = ("gen(seed): program from the grammar {emit, wait on future / list / dict / explicit multi / "
        "moment / None / nested coroutine (native or same-form), try/except/finally, raise, re-raise, "
        "return, gen.Return, for-loop, ContextVar get/set}, depth<=3, <=5 futures each result|"
        "exception(|cancelled in 8% of runs), <=2 nested coroutines; completion script: futures done "
        "before the start, others resolved in steps separated by 0/1 iteration/idle/k time units; "
        "which form's future is resolved first. non-trivial (measured) = the decorated form was "
        "suspended at least once (its future pending when the call returned, or a Runner resumed it) "
        "AND its trace has >=2 emits; distinct = scenario hash")
COMPONENTS = {
    "real": ["tornado.gen.coroutine wrapper", "tornado.gen.Runner.run/handle_yield",
             "tornado.gen.convert_yielded/_wrap_awaitable/multi/moment/Return",
             "tornado.ioloop.IOLoop.add_future/add_callback/_run_callback",
             "tornado.platform.asyncio.BaseAsyncIOLoop", "asyncio.Future/Task/Handle"],
    "stub": ["event loop poller+clock (sim.loop.SimLoop)"],
}
ASSUMPTIONS = [
    "asyncio.Task running the async def form is the reference semantics",
    "the translation table in the module docstring is faithful",
]

CV = contextvars.ContextVar("c37cv", default="unset")

# a decorated generator abandoned while suspended (only in the cancelled sub-batch) leaves its
# not-yet-started child coroutine objects behind; keep stderr clean
warnings.filterwarnings("ignore", message="coroutine .* was never awaited")


class E1(Exception):
    pass


class E2(E1):
    pass


EXC_NAMES = ("ValueError", "KeyError", "LookupError", "RuntimeError", "E1", "E2")
EXC_BY_NAME = {"ValueError": ValueError, "KeyError": KeyError, "LookupError": LookupError,
               "RuntimeError": RuntimeError, "E1": E1, "E2": E2}
HANDLER_NAMES = EXC_NAMES + ("Exception", "CancelledError")
CATCH_ALL = ("Exception",)
WAITS = ("f", "l", "d", "x", "m", "n", "s")


# ----------------------------------------------------------------------------
# generation


def _gen_body(rng, depth, c):
    """c: {"nf", "nsub" (callable subs), "top", "in_handler", "budget": [int], "cancel"}"""
    out = []
    n = rng.randint(1, 4 if depth else 6)
    for _ in range(n):
        if c["budget"][0] <= 0:
            break
        c["budget"][0] -= 1
        r = rng.random()
        if r < 0.14:
            out.append({"t": "emit", "n": rng.randint(0, 9)})
        elif r < 0.42:
            out.append({"t": "wait", "w": "f", "k": rng.randrange(c["nf"])})
        elif r < 0.50:
            ks = [rng.choice(c["multi_ok"]) for _ in range(rng.choice([0, 1, 2, 2, 3]))
                  if c["multi_ok"]]
            out.append({"t": "wait", "w": rng.choice(["l", "l", "x"]), "ks": ks})
        elif r < 0.55:
            ks = [rng.choice(c["multi_ok"]) for _ in range(rng.choice([0, 1, 2, 3]))
                  if c["multi_ok"]]
            out.append({"t": "wait", "w": "d", "ks": ks})
        elif r < 0.61:
            out.append({"t": "wait", "w": "m"})
        elif r < 0.65:
            out.append({"t": "wait", "w": "n"})
        elif r < 0.71:
            if c["nsub"] > 0:
                out.append({"t": "wait", "w": "s", "j": rng.randrange(c["nsub"])})
            else:
                out.append({"t": "wait", "w": "f", "k": rng.randrange(c["nf"])})
        elif r < 0.86:
            if depth < 3:
                hs = []
                for _h in range(rng.choice([0, 1, 1, 1, 2])):
                    c2 = dict(c, in_handler=True)
                    hr = rng.random()
                    if hr < 0.45 or not c["likely"]:
                        hn = "Exception" if hr < 0.3 else rng.choice(EXC_NAMES)
                    else:  # a class (or base class) of an exception some future will carry
                        hn = rng.choice(c["likely"])
                        hn = {"KeyError": "LookupError", "E2": "E1"}.get(hn, hn) \
                            if rng.random() < 0.3 else hn
                    hs.append({"e": hn, "body": _gen_body(rng, depth + 1, c2)
                               if rng.random() < 0.7 else []})
                fin = None
                if not hs or rng.random() < 0.4:
                    # no bare `raise` directly in a finally block: while `raise gen.Return(v)`
                    # propagates it is the "current exception", so `finally: raise` re-raises
                    # the Return in the decorated form but the handler's exception after the
                    # native `return v` — a difference of the two spellings, not of Tornado
                    fin = _gen_body(rng, depth + 1, dict(c, in_handler=False)) \
                        if rng.random() < 0.6 else []
                out.append({"t": "try", "body": _gen_body(rng, depth + 1, c), "hs": hs, "fin": fin})
            else:
                out.append({"t": "emit", "n": rng.randint(0, 9)})
        elif r < 0.885:
            out.append({"t": "raise", "e": rng.choice(EXC_NAMES), "a": rng.randint(0, 5)})
        elif r < 0.90:
            out.append({"t": "reraise"} if c["in_handler"] else
                       {"t": "raise", "e": rng.choice(EXC_NAMES), "a": rng.randint(0, 5)})
        elif r < 0.925:
            out.append({"t": "ret", "v": rng.randint(0, 9)})
        elif r < 0.95:
            out.append({"t": "gret", "v": rng.randint(0, 9)})
        elif r < 0.975:
            out.append({"t": "cvget"})
        elif r < 0.99:
            out.append({"t": "cvset", "v": rng.randint(0, 9)} if c["top"] else {"t": "cvget"})
        else:
            if depth < 2:
                out.append({"t": "loop", "n": rng.randint(1, 3), "body": _gen_body(rng, depth + 1, c)})
    return out


def gen(rng, tier, index):
    cancel = rng.random() < CANCEL_RATE
    nf = rng.randint(1, 5)
    futs = []
    for k in range(nf):
        r = rng.random()
        o = "res" if r < 0.68 else "exc"
        if cancel and rng.random() < 0.4:
            o = "cancel"
        futs.append({"o": o, "e": rng.randrange(len(EXC_NAMES))})
    likely = [EXC_NAMES[f["e"]] for f in futs if f["o"] == "exc"]
    multi_ok = list(range(nf))  # (cancelled futures were kept out of lists until multi was fixed)
    nsub = rng.choice([0, 0, 1, 1, 2])
    subs = []
    for j in range(nsub):
        c = {"nf": nf, "nsub": j, "top": False, "in_handler": False,
             "budget": [rng.randint(2, 8)], "cancel": cancel, "likely": likely,
             "multi_ok": multi_ok}
        subs.append({"kind": rng.choice(["native", "native", "same"]), "body": _gen_body(rng, 1, c)})
    c = {"nf": nf, "nsub": nsub, "top": True, "in_handler": False,
         "budget": [rng.randint(3, 16 if tier == "quick" else 28)], "cancel": cancel,
         "likely": likely, "multi_ok": multi_ok}
    body = _gen_body(rng, 0, c)
    # make sure thrown-in exceptions are often handled: guard some failing waits
    for i, st in enumerate(body):
        ks = [st["k"]] if st.get("w") == "f" else st.get("ks", []) if st["t"] == "wait" else []
        bad_k = [k for k in ks if futs[k]["o"] == "exc"]
        if bad_k and rng.random() < 0.45:
            hn = EXC_NAMES[futs[bad_k[0]]["e"]]
            hr = rng.random()
            hn = "Exception" if hr < 0.25 else {"KeyError": "LookupError", "E2": "E1"}.get(hn, hn) \
                if hr < 0.5 else hn
            c2 = dict(c, in_handler=True, budget=[3])
            body[i] = {"t": "try", "body": [st] + ([{"t": "emit", "n": 0}] if hr < 0.6 else []),
                       "hs": [{"e": hn, "body": _gen_body(rng, 2, c2) if rng.random() < 0.6 else []}],
                       "fin": ([{"t": "wait", "w": rng.choice(["m", "n"])}] if rng.random() < 0.5
                               else []) if rng.random() < 0.35 else None}
    if rng.random() < 0.15:  # ContextVar-heavy programs: set/get between the waits
        i = 0
        while i < len(body):
            i += 1
            if rng.random() < 0.5:
                body.insert(i, {"t": "cvset", "v": rng.randint(0, 9)} if rng.random() < 0.5
                            else {"t": "cvget"})
                i += 1
    if rng.random() < 0.5:
        body.insert(0, {"t": "cvget"})
    order = list(range(nf))
    rng.shuffle(order)
    pre = [k for k in order if rng.random() < 0.2]
    rest = [k for k in order if k not in pre]
    steps = []
    i = 0
    while i < len(rest):
        m = 1 if rng.random() < 0.65 else rng.randint(1, 3)
        steps.append({"gap": rng.choice([0, 1, 1, 1, -1, 2, 3]), "fire": rest[i:i + m]})
        i += m
    tapes = {}
    if rng.random() < 0.15:
        tapes["late"] = [rng.choice([0, 1, 2]) for _ in range(4)]
    if rng.random() < 0.15:
        tapes["cost"] = [rng.choice([0, 1]) for _ in range(8)]
    return {"property": ID, "version": 1, "prog": {"subs": subs, "body": body}, "futs": futs,
            "pre": pre, "steps": steps, "cv0": rng.randint(10, 99),
            "first": rng.choice(["gen", "nat"]), "tapes": tapes}


# ----------------------------------------------------------------------------
# validation (the shrinker mutilates lists and ints)


def _ok_body(b, nf, nsub, top, depth=0, inh=False):
    """inh: lexically inside an except-handler with no finally block in between.  A bare
    `raise` is accepted only there: anywhere else its meaning depends on which exception is
    "current", and that legitimately differs between `raise gen.Return(v)` (the Return is
    current while finally blocks run) and `return v` (nothing, or the enclosing handler's)."""
    if not isinstance(b, list) or depth > 8:
        return False
    for st in b:
        if not isinstance(st, dict):
            return False
        t = st.get("t")
        if t == "emit":
            ok = isinstance(st.get("n"), int)
        elif t == "wait":
            w = st.get("w")
            if w == "f":
                ok = isinstance(st.get("k"), int) and 0 <= st["k"] < nf
            elif w in ("l", "d", "x"):
                ks = st.get("ks")
                ok = (isinstance(ks, list) and len(ks) <= 4
                      and all(isinstance(k, int) and 0 <= k < nf for k in ks))
            elif w in ("m", "n"):
                ok = True
            elif w == "s":
                ok = isinstance(st.get("j"), int) and 0 <= st["j"] < nsub
            else:
                ok = False
        elif t == "try":
            hs = st.get("hs")
            ok = (isinstance(hs, list) and (hs or st.get("fin") is not None)
                  and all(isinstance(h, dict) and h.get("e") in HANDLER_NAMES
                          and _ok_body(h.get("body"), nf, nsub, top, depth + 1, True) for h in hs)
                  and _ok_body(st.get("body"), nf, nsub, top, depth + 1, inh)
                  and (st.get("fin") is None
                       or _ok_body(st["fin"], nf, nsub, top, depth + 1, False)))
        elif t == "raise":
            ok = st.get("e") in EXC_NAMES and isinstance(st.get("a"), int)
        elif t in ("ret", "gret"):
            ok = isinstance(st.get("v"), int)
        elif t == "cvset":
            ok = top and isinstance(st.get("v"), int)
        elif t == "cvget":
            ok = True
        elif t == "reraise":
            ok = inh
        elif t == "loop":
            ok = (isinstance(st.get("n"), int) and 0 <= st["n"] <= 4
                  and _ok_body(st.get("body"), nf, nsub, top, depth + 1, inh))
        else:
            ok = False
        if not ok:
            return False
    return True


def validate(scn):
    try:
        futs = scn["futs"]
        nf = len(futs)
        if not all(isinstance(f, dict) and f.get("o") in ("res", "exc", "cancel")
                   and isinstance(f.get("e"), int) for f in futs):
            return False
        subs = scn["prog"]["subs"]
        for j, sb in enumerate(subs):
            if sb.get("kind") not in ("native", "same") or not _ok_body(sb.get("body"), nf, j, False):
                return False
        if not _ok_body(scn["prog"]["body"], nf, len(subs), True):
            return False
        for st in scn.get("steps", []):
            if not isinstance(st, dict) or not isinstance(st.get("fire", []), list):
                return False
        return scn.get("first") in ("gen", "nat") and isinstance(scn.get("cv0"), int)
    except Exception:
        return False


# ----------------------------------------------------------------------------
# rendering


def _render_fn(name, body, form, ids, kinds):
    lines = ["@gen.coroutine", f"def {name}():"] if form == "gen" else [f"async def {name}():"]
    kw = "yield" if form == "gen" else "await"

    def multi(expr):
        return expr if form == "gen" else f"gen.multi({expr})"

    def rb(stmts, ind, catch_all):
        if not stmts:
            lines.append(ind + "pass")
            return
        for st in stmts:
            t = st["t"]
            if t == "emit":
                lines.append(f"{ind}emit(('e', {st['n']}))")
            elif t == "wait":
                w = st["w"]
                if w == "f":
                    ex = f"W({st['k']})"
                elif w == "l":
                    ex = multi("[" + ", ".join(f"W({k})" for k in st["ks"]) + "]")
                elif w == "x":
                    ex = "gen.multi([" + ", ".join(f"W({k})" for k in st["ks"]) + "])"
                elif w == "d":
                    ex = multi("{" + ", ".join(f"'k{p}': W({k})" for p, k in enumerate(st["ks"])) + "}")
                elif w == "m":
                    ex = "gen.moment" if form == "gen" else "asyncio.sleep(0)"
                elif w == "n":
                    ex = "" if form == "gen" else "asyncio.sleep(0)"
                else:
                    ex = f"sub{st['j']}()"
                    w = "s" + kinds[st["j"]][0]  # sn: native child, ss: child in the caller's form
                lines.append(f"{ind}v = {kw} {ex}".rstrip())
                lines.append(f"{ind}emit(('got', '{w}', N(v)))")
            elif t == "try":
                ca = catch_all or any(h["e"] in CATCH_ALL for h in st["hs"])
                lines.append(ind + "try:")
                rb(st["body"], ind + "    ", ca)
                for h in st["hs"]:
                    ids[0] += 1
                    lines.append(f"{ind}except {h['e']} as e:")
                    lines.append(f"{ind}    emit(('exc', {ids[0]}, type(e).__name__, N(e.args)))")
                    if h["body"]:
                        rb(h["body"], ind + "    ", catch_all)
                if st["fin"] is not None:
                    ids[0] += 1
                    lines.append(ind + "finally:")
                    lines.append(f"{ind}    emit(('fin', {ids[0]}))")
                    if st["fin"]:
                        rb(st["fin"], ind + "    ", catch_all)
            elif t == "raise":
                lines.append(f"{ind}raise {st['e']}({st['a']})")
            elif t == "reraise":
                lines.append(ind + "raise")
            elif t == "ret":
                lines.append(f"{ind}emit(('ret', 'r'))")
                lines.append(f"{ind}return ('ret', {st['v']})")
            elif t == "gret":
                # same emit in both forms; 'G' = spelled gen.Return in the generator form
                lines.append(f"{ind}emit(('ret', '{'g' if catch_all else 'G'}'))")
                if form == "gen" and not catch_all:
                    lines.append(f"{ind}raise gen.Return(('ret', {st['v']}))")
                else:
                    lines.append(f"{ind}return ('ret', {st['v']})")
            elif t == "cvget":
                lines.append(f"{ind}emit(('cv', CV.get()))")
            elif t == "cvset":
                lines.append(f"{ind}CV.set({st['v']})")
                lines.append(f"{ind}emit(('cvset', {st['v']}))")
            elif t == "loop":
                lines.append(f"{ind}for _i in range({st['n']}):")
                rb(st["body"], ind + "    ", catch_all)

    rb(body, "    ", False)
    return lines


def render(prog, form):
    """Source text of the program in form 'gen' (decorated generators) or 'nat' (async def)."""
    ids = [0]
    lines = []
    kinds = [sb["kind"] for sb in prog["subs"]]
    for j, sb in enumerate(prog["subs"]):
        lines += _render_fn(f"sub{j}", sb["body"], "nat" if sb["kind"] == "native" else form, ids,
                            kinds)
    lines += _render_fn("top", prog["body"], form, ids, kinds)
    return "\n".join(lines) + "\n"


def _nv(v):
    if isinstance(v, (list, tuple)):
        return tuple(_nv(x) for x in v)
    if isinstance(v, dict):
        return ("dict",) + tuple((k, _nv(x)) for k, x in v.items())
    if isinstance(v, (int, str)) or v is None:
        return v
    if isinstance(v, BaseException):
        return ("excobj", type(v).__name__, _nv(v.args))
    return ("obj", type(v).__name__)


def _nexc(e):
    if isinstance(e, asyncio.CancelledError):
        return ("cancel",)
    return ("exc", type(e).__name__, _nv(e.args))


def _state(f):
    if not f.done():
        return ("pending",)
    if f.cancelled():
        return ("cancel",)
    e = f.exception()
    if e is not None:
        return _nexc(e)
    return ("res", _nv(f.result()))


# ----------------------------------------------------------------------------
# the run


def run(scn, full_log=False):
    # abandoned generators whose finally-block yields again make CPython print "Exception
    # ignored in ... generator ignored GeneratorExit" when they are freed: count, don't print
    unraisable = []
    old_hook = sys.unraisablehook
    sys.unraisablehook = unraisable.append
    try:
        res = _run(scn, full_log)
    finally:
        sys.unraisablehook = old_hook
    if unraisable:
        res["stats"]["probes"]["unraisable_at_free"] = len(unraisable)
    return res


def _run(scn, full_log):
    from tornado import gen

    viol = []
    probes = {}

    def bad(rule, msg, tag=None):
        viol.append({"rule": rule, "key": rule + ("/" + tag if tag else ""), "msg": msg})

    def probe(name, k=1):
        probes[name] = probes.get(name, 0) + k

    prog = scn["prog"]
    fspecs = scn["futs"]
    nf = len(fspecs)
    src = {"gen": render(prog, "gen"), "nat": render(prog, "nat")}

    with SimEnv(scn.get("tapes"), max_iters=20_000, full_log=full_log) as env:
        loop = env.loop
        F = {"gen": [], "nat": []}
        trace = {"gen": [], "nat": []}
        awaited = {"gen": set(), "nat": set()}
        ns = {}
        S = {"sync": None, "fd": None, "tn": None, "susp": False, "dead": False}

        def mk_ns(form):
            tr = trace[form]
            fl = F[form]
            aw = awaited[form]

            def emit(x):
                if S["dead"] and form == "gen":
                    # after the verdict: a decorated generator that never finished is closed
                    # by the GC; leave through every finally without yielding again
                    raise GeneratorExit
                tr.append(x)

            def W(k):
                aw.add(k)
                if form == "gen":
                    probe("yield_done_future" if fl[k].done() else "yield_pending_future")
                return fl[k]

            d = {"gen": gen, "asyncio": asyncio, "CV": CV, "emit": emit, "N": _nv, "W": W,
                 "E1": E1, "E2": E2, "CancelledError": asyncio.CancelledError}
            exec(compile(src[form], f"<c37-{form}>", "exec"), d)
            return d

        def resolve(k):
            if not (isinstance(k, int) and 0 <= k < nf):
                return
            sp = fspecs[k]
            for form in (("gen", "nat") if scn.get("first") == "gen" else ("nat", "gen")):
                f = F[form][k]
                if f.done():
                    continue
                if sp["o"] == "res":
                    f.set_result(100 + k)
                elif sp["o"] == "exc":
                    f.set_exception(EXC_BY_NAME[EXC_NAMES[sp["e"] % len(EXC_NAMES)]](k))
                else:
                    f.cancel()
            env.log.ev("resolve", k, sp["o"])

        async def gap(g):
            if g == 0 or isinstance(g, bool) or not isinstance(g, int):
                return
            if g == 1:
                await asyncio.sleep(0)
            elif g < 0:
                await loop.idle()
            else:
                await asyncio.sleep(min(g - 1, 64) * UNIT)

        async def main():
            for form in ("gen", "nat"):
                F[form] = [loop.create_future() for _ in range(nf)]
                ns[form] = mk_ns(form)
            for k in scn.get("pre", []):
                resolve(k)
            CV.set(scn["cv0"])

            def start_gen():
                try:
                    S["fd"] = ns["gen"]["top"]()
                except BaseException as e:  # only BaseExceptions can escape the decorator
                    S["sync"] = _nexc(e)
                else:
                    S["susp"] = not S["fd"].done()

            def start_nat():
                S["tn"] = loop.create_task(ns["nat"]["top"]())

            if scn.get("first") == "gen":
                start_gen()
                start_nat()
            else:
                start_nat()
                start_gen()
            for st in scn.get("steps", []):
                await gap(st.get("gap", 0))
                for k in st.get("fire", []):
                    resolve(k)
            await loop.idle()
            left = [k for k in range(nf) if not F["gen"][k].done() or not F["nat"][k].done()]
            if left:
                for k in left:
                    resolve(k)
                await loop.idle()
            S["caller_cv"] = CV.get()

        try:
            status = env.run(main())
        except BaseException as e:  # a BaseException from a callback tore through run_forever
            status = "error:" + type(e).__name__
            env.main_exception = e
        if status != "done":
            bad("harness.main_" + status.split(":")[0],
                f"driver did not finish: {status} {getattr(env, 'main_exception', None)!r}")
            og = on = ("none",)
        else:
            og = S["sync"] if S["sync"] is not None else _state(S["fd"])
            on = _state(S["tn"])
        tg, tn = trace["gen"], trace["nat"]
        env.log.ev("gen", og, tuple(tg))
        env.log.ev("nat", on, tuple(tn))

        any_awaited_cancel = any(fspecs[k]["o"] == "cancel" for k in awaited["gen"] | awaited["nat"])
        tag = "awaited_cancelled" if any_awaited_cancel else None
        if any_awaited_cancel:
            probe("awaited_cancelled_future")

        def first_diff(a, b):
            i = 0
            while i < len(a) and i < len(b) and a[i] == b[i]:
                i += 1
            return i

        if status == "done":
            if S["sync"] is not None:
                probe("decorator_raised_synchronously")
            if og == ("pending",) and on == ("pending",):
                probe("both_pending")
                if not any_awaited_cancel:
                    bad("c37.both_never_finish", "both forms pending at quiescence although every "
                        "future was resolved", tag)
            elif og == ("pending",):
                bad("c37.decorated_never_finishes",
                    f"@gen.coroutine form pending at quiescence after {len(tg)} emits; native form "
                    f"finished with {on} after {len(tn)} emits", tag)
            elif on == ("pending",):
                bad("c37.native_never_finishes",
                    f"native form pending at quiescence after {len(tn)} emits; decorated form "
                    f"finished with {og}", tag)
            else:
                if og != on:
                    bad("c37.result_differs", f"decorated: {og}  native: {on}", tag)
                if tg != tn:
                    i = first_diff(tg, tn)
                    bad("c37.trace_differs",
                        f"emit #{i}: decorated {tg[i] if i < len(tg) else '<end>'} vs native "
                        f"{tn[i] if i < len(tn) else '<end>'} (lengths {len(tg)}/{len(tn)})", tag)
            # caller's ContextVar visible inside (absolute, decorated form)
            for ev in tg:
                if ev[0] == "cvset":
                    break
                if ev[0] == "cv":
                    probe("caller_contextvar_read")
                    if ev[1] != scn["cv0"]:
                        bad("c37.contextvar_invisible",
                            f"CV.get() inside the decorated coroutine returned {ev[1]!r}, caller "
                            f"had set {scn['cv0']}", tag)
                    break
            if S.get("caller_cv") != scn["cv0"]:
                probe("coroutine_cvset_leaked_to_caller")
            # internal errors of the runner surface as logged callback exceptions
            for r in env.records:
                if r[0] == "tornado.application" and r[1] == "ERROR" and \
                        r[2].startswith("Exception in callback"):
                    bad("c37.runner_error_logged", f"tornado.application ERROR: {r[2][:60]} ({r[3]})",
                        tag or str(r[3]))
            for m, t in env.loop_errors:
                if str(m).startswith("Exception in callback") and not (
                        t == "CancelledError" and any_awaited_cancel):
                    bad("c37.runner_error_logged", f"loop exception handler: {t}", tag or str(t))

        # ---- probes measured from the traces
        for ev in tg:
            if ev[0] == "got":
                probe("wait_" + ev[1])
            elif ev[0] == "exc":
                probe("exception_caught_in_body")
            elif ev[0] == "fin":
                probe("finally_ran")
            elif ev[0] == "cvset":
                probe("cvset_in_body")
            elif ev[0] == "ret":
                probe({"r": "return_statement", "g": "gen_return_spelled_return",
                       "G": "gen_Return_raised"}[ev[1]])
        if og[0] == "exc":
            probe("ended_with_exception")
        elif og[0] == "res":
            probe("ended_with_return_value" if og[1] is not None else "ended_with_none")
        if "yield" not in src["gen"].split("def top")[-1]:
            probe("top_not_a_generator")
        if S["susp"]:
            probe("decorated_suspended")
        nontrivial = status == "done" and S["susp"] and len(tg) >= 2
        for v in viol:
            probe("viol:" + v["key"])
        for form in ("gen", "nat"):
            for f in F[form]:
                if f.done() and not f.cancelled():
                    f.exception()
        for f in (S["fd"], S["tn"]):
            if f is not None and f.done() and not f.cancelled():
                f.exception()
        st = env.stats()
        st["probes"].update(probes)
        S["dead"] = True
        return {"violations": viol, "nontrivial": bool(nontrivial), "stats": st,
                "log_head": env.log.head, "log_full": env.log.full,
                "outcome": {"gen": [og, tg[:40]], "nat": [on, tn[:40]], "src_gen": src["gen"]}}
