"""C03 - connection persistence follows the request's keep-alive semantics.

Product of HTTP version x Connection header value x method x request body
framing x no_keep_alive x handler kind (buffered / @stream_request_body that
finishes in prepare / in the first data_received / at the end) x buffered vs
streamed response, followed by a second request sent in the same segment,
in a separate segment while the first is being served, or after the first
response.  Real HTTPServer/HTTP1Connection/web.Application on the simulator;
the client is a raw peer with a strict response reader.

Oracle: keep := allowed_by_request AND NOT no_keep_alive AND response
self-delimiting AND request body fully read by the application.
"""

from sim.env import SimEnv, UNIT
from props import httprig
from props._h2common import (Client, SECOND_BODY, SECOND_REQ, build_request, fill,
                             send_segments, total_gap_units)
from ref.http_response_check import EOF

ID = "C03"
LEVEL = "exploration"
QUICK_N = 10000
THOROUGH_N = 1200000
CHUNK = 500
RULE = ("gen(seed): index walks the product version{1.0,1.1} x Connection value (absent, close, "
        "Close, keep-alive, Keep-Alive, 'close, TE', 'TE, close', upgrade, TE) x method "
        "{GET,HEAD,POST,PUT} x request body framing {none,CL,chunked} x no_keep_alive x handler "
        "{buffered, stream/end, stream/prepare, stream/data; the rng substitutes stream/late_prepare, "
        "stream/late_data = response started early by flush() but finished after the body was read} "
        "x response {buffered, streamed} x second "
        "request {together, split, after}; the rng adds the response status (200, explicit 204/304, "
        "304 by automatic ETag match on a conditional GET/HEAD), segmentation, client window, slow-reader "
        "schedule, handler sleep, send_cap/recv_cap/delay/defer tapes. non-trivial = the first "
        "response was parsed AND a second request was put on the wire AND (>=2 request segments "
        "or a partial send / short read fired or the response was streamed) - measured; "
        "distinct = distinct scenario hash")
COMPONENTS = {
    "real": ["tornado.http1connection.HTTP1Connection/HTTP1ServerConnection",
             "tornado.httpserver.HTTPServer", "tornado.web.Application/RequestHandler/"
             "stream_request_body", "tornado.tcpserver.TCPServer (add_socket)",
             "tornado.iostream.IOStream", "asyncio Future/Task"],
    "stub": ["event loop poller+clock (sim.loop.SimLoop)", "sockets/network (sim.net)",
             "HTTP client (sim.net.RawPeer + ref.http_response_check.ResponseReader)"],
}
ASSUMPTIONS = [
    "Connection is a comma-separated list of case-insensitive options (RFC 9110 7.6.1): 'TE, close' "
    "contains the close option",
    "HTTP/1.0 keep-alive is requested by a Connection header whose only option is keep-alive; "
    "HTTP/1.0 requests without body framing are generated for GET/HEAD only (DESIGN false-alarm "
    "note); lists that contain keep-alive next to other options are not generated",
    "early finish is generated only with a non-empty framed body that the handler provably has not "
    "read completely (finish in prepare, or in the first data_received with body > chunk_size)",
    "'response self-delimiting' is read off the response itself (Content-Length, chunked, or a "
    "status/method that cannot have a body)",
    "an application-set Connection response header (keep-alive, Keep-Alive, close, x-hop; through "
    "set_default_headers or set_header) is generated for HTTP/1.1 and HTTP/1.0 requests with all "
    "values (the HTTP/1.0 pass-through of an application keep-alive on a closing connection was "
    "found here and fixed in Tornado, see known_findings.json)",
    "1xx / 101 / Upgrade handling is out of scope (Connection: upgrade is only a non-close option)",
    "liveness cap: 4096 units (4 s) of virtual time beyond all scripted delays",
]

VERSIONS = ["1.1", "1.0"]
CONN_11 = [None, "close", "Close", "keep-alive", "Keep-Alive", "close, TE", "TE, close",
           "upgrade", "TE"]
CONN_10 = [None, "close", "keep-alive", "Keep-Alive", "keep-alive", "TE, close", "close, TE",
           "upgrade", "Keep-Alive"]
METHODS = ["GET", "HEAD", "POST", "PUT"]
FRAMINGS = ["none", "cl", "chunked"]
# Connection header values an application may put on its own response (set_default_headers or
# set_header).
APP_CONN = ["keep-alive", "Keep-Alive", "close", "x-hop"]
HANDLERS = [("buffered", "end"), ("stream", "end"), ("stream", "prepare"), ("stream", "data")]
# "respond early, finish late": a @stream_request_body handler that flushes the start of its
# response from prepare() / the first data_received(), then reads the whole body and finishes
# from the method.  Not part of the index walk (drawn by the rng).
LATE_HANDLERS = [("stream", "late_prepare"), ("stream", "late_data")]
RESPS = ["buffered", "streamed"]
SECONDS = ["together", "split", "after"]
WINDOWS = [1, 2, 7, 16, 64, 64, 256, 256, 4096, None, None, None, None]
CAP_UNITS = 4096
SERVER_CHUNK = 16


def _tokens(conn):
    if not conn:
        return []
    return [t.strip(" \t").lower() for t in conn.split(",") if t.strip(" \t")]


def allowed_by_request(version, conn, method, framing):
    toks = _tokens(conn)
    if version == "1.1":
        return "close" not in toks
    return toks == ["keep-alive"] and (framing in ("cl", "chunked") or method in ("GET", "HEAD"))


def why_not_allowed(version, conn):
    toks = _tokens(conn)
    if version == "1.1":
        return "h11_close" if toks == ["close"] else "h11_close_in_list"
    if not toks:
        return "h10_no_connection_header"
    if toks == ["close"]:
        return "h10_close"
    return "h10_other_options"


def gen(rng, tier, index):
    # mixed-radix walk over the product so that every combination is visited
    i = index
    version = VERSIONS[i % 2]; i //= 2
    ci = i % 9; i //= 9
    conn = (CONN_11 if version == "1.1" else CONN_10)[ci]
    method = METHODS[i % 4]; i //= 4
    framing = FRAMINGS[i % 3]; i //= 3
    nka = bool(i % 2); i //= 2
    hkind, finish_at = HANDLERS[i % 4]; i //= 4
    resp = RESPS[i % 2]; i //= 2
    second = SECONDS[i % 3]; i //= 3
    if rng.random() < 0.35:
        # break the correlation between the factors and the position in the batch
        version = rng.choice(VERSIONS)
        conn = rng.choice(CONN_11 if version == "1.1" else CONN_10)
        nka = rng.random() < 0.3
    if version == "1.0" and framing == "none" and method not in ("GET", "HEAD"):
        method = rng.choice(["GET", "HEAD"])
    if rng.random() < 0.18:
        hkind, finish_at = rng.choice(LATE_HANDLERS)
    early = finish_at in ("prepare", "data")
    if early and framing == "none":
        framing = rng.choice(["cl", "chunked"])
    if framing == "none":
        body_n = 0
    elif finish_at == "data":
        body_n = rng.choice([40, 41, 64, 100, 300])
    elif early:
        body_n = rng.choice([1, 2, 17, 40, 300])
    else:
        body_n = rng.choice([0, 0, 1, 17, 40, 300])
    chunks = [rng.choice([1, 2, 5, 16, 17, 40, 300]) for _ in range(rng.randint(1, 4))]
    window = rng.choice(WINDOWS)
    resp_n = rng.choice([0, 1, 10, 100, 400] if window is None or window >= 16 else [0, 1, 10, 40])
    if tier == "thorough" and (window is None or window >= 256) and rng.random() < 0.1:
        resp_n = rng.choice([1500, 3000, 5000])
        if framing != "none" and finish_at == "end" and rng.random() < 0.5:
            body_n = rng.choice([1000, 3000])
    req = {"method": method, "version": version, "conn": conn, "framing": framing,
           "body_n": body_n, "chunks": chunks}
    # response status: 200, an explicit 204 / 304 (no body), or "etag" = conditional GET/HEAD
    # whose If-None-Match matches the automatic ETag, which finish() answers with 304
    status = rng.choice([200, 200, 200, 204, 204, 304, "etag", "etag"])
    if status == "etag" and (method not in ("GET", "HEAD") or resp != "buffered"
                             or finish_at.startswith("late")):
        status = rng.choice([200, 204, 304])
    hspec0 = {"status": status, "resp_n": resp_n}
    # the application sets a Connection response header of its own in ~1/5 of the runs
    app_conn = None
    app_conn_via = rng.choice(["default", "set"])
    if rng.random() < 0.22:
        app_conn = rng.choice(APP_CONN)
    head, rb = _request_bytes(req, hspec0)
    total = len(head) + len(rb) + (len(SECOND_REQ) if second == "together" else 0)
    mode = rng.random()
    cuts = []
    if mode < 0.4:
        pass
    elif mode < 0.5:
        cuts = list(range(1, min(total, 30)))
    else:
        interesting = [len(head) - 2, len(head), len(head) + 1, len(head) + len(rb) - 1,
                       len(head) + len(rb), len(head) + len(rb) + 1, total - 1,
                       len(head) + min(len(rb), 20)]
        for _ in range(rng.randint(1, 4)):
            cuts.append(rng.choice(interesting) if rng.random() < 0.6 else rng.randint(1, total))
    gaps = [rng.choice([0, 1, 1, 2, 3]) for _ in range(rng.randint(1, 4))]
    reader = {"auto": True, "steps": []}
    if rng.random() < 0.25:
        w = window or 4096
        ks = [1, 2, 10, 100, w, max(1, w // 2)]
        reader = {"auto": False, "steps": [[rng.choice(ks), rng.choice([0, 1, 1, 2, 5])]
                                           for _ in range(rng.randint(1, 20))]}
    tapes = {}
    if rng.random() < 0.4:
        tapes["send_cap"] = {"v": [rng.choice([0, 0, 1, 2, 7, 100, -1])
                                   for _ in range(rng.randint(1, 12))], "cycle": False}
    if rng.random() < 0.35:
        tapes["recv_cap"] = {"v": [rng.choice([0, 1, 2, 5, 17, 40])
                                   for _ in range(rng.randint(1, 10))],
                             "cycle": rng.random() < 0.5}
    if rng.random() < 0.25:
        tapes["delay"] = [rng.choice([0, 0, 1, 2]) for _ in range(rng.randint(1, 8))]
    if rng.random() < 0.15:
        tapes["defer"] = [rng.choice([0, 1]) for _ in range(10)]
    if rng.random() < 0.1:
        tapes["spurious"] = [rng.choice([0, 1]) for _ in range(6)]
    return {
        "property": ID, "version": 1,
        "knobs": {"no_keep_alive": nka, "window": window},
        "req": req,
        "handler": {"kind": hkind, "finish_at": finish_at, "resp": resp, "resp_n": resp_n,
                    "status": status,
                    "app_conn": app_conn, "app_conn_via": app_conn_via,
                    "sleep": rng.choice([0, 0, 1, 2, 5]),
                    "flush_wait": rng.random() < 0.6},
        "second": second, "split_gap": rng.choice([0, 1, 1, 2, 4]),
        "after_grace": rng.choice([0, 8, 8]),
        "cuts": cuts, "gaps": gaps, "reader": reader, "tapes": tapes,
    }


def _etag_of(hspec):
    """The ETag RequestHandler.finish() computes for the buffered response body."""
    import hashlib
    body = b"B:" + fill(max(0, int(hspec.get("resp_n", 0))), 3)
    return '"%s"' % hashlib.sha1(body).hexdigest()


def _request_bytes(req, hspec=None):
    method, version, conn = req["method"], req["version"], req.get("conn")
    hs = [("Host", "h")]
    if hspec is not None and hspec.get("status") == "etag":
        hs.append(("If-None-Match", _etag_of(hspec)))
    toks = _tokens(conn)
    if conn:
        hs.append(("Connection", conn))
    if "te" in toks:
        hs.append(("TE", "trailers"))
    if "upgrade" in toks:
        hs.append(("Upgrade", "x-none"))
    body = fill(max(0, int(req.get("body_n", 0))), 7) if req["framing"] != "none" else b""
    sizes = None
    if req["framing"] == "cl":
        hs.append(("Content-Length", str(len(body))))
    elif req["framing"] == "chunked":
        hs.append(("Transfer-Encoding", "chunked"))
        sizes = [max(1, int(c)) for c in req.get("chunks", [])] or [len(body) or 1]
    return build_request(method, version, hs, body, chunked_sizes=sizes)


def simplify(scn):
    """Extra shrink candidates the generic shrinker cannot reach (None, strings, dict fields)."""
    import copy

    def alt(path, value):
        c = copy.deepcopy(scn)
        cur = c
        for k in path[:-1]:
            cur = cur[k]
        if path[-1] in cur and cur[path[-1]] == value:
            return None
        cur[path[-1]] = value
        return c
    cands = [alt(("knobs", "window"), None), alt(("knobs", "no_keep_alive"), False),
             alt(("reader",), {"auto": False, "steps": []}), alt(("tapes",), {}),
             alt(("req", "method"), "GET"), alt(("req", "framing"), "none"),
             alt(("req", "conn"), None), alt(("req", "chunks"), []),
             alt(("handler", "resp"), "buffered"), alt(("handler", "kind"), "buffered"),
             alt(("handler", "flush_wait"), False), alt(("second",), "after"),
             alt(("handler", "status"), 200), alt(("handler", "app_conn"), None),
             alt(("handler", "app_conn_via"), "set"),
             alt(("cuts",), []), alt(("gaps",), [])]
    conn = scn["req"].get("conn")
    if conn:
        cands.append(alt(("req", "conn"), conn.lower()))
    for c in cands:
        if c is not None:
            yield c


def validate(scn):
    try:
        req = scn["req"]
        h = scn["handler"]
        if req["version"] not in VERSIONS or req["method"] not in METHODS:
            return False
        if req["framing"] not in FRAMINGS:
            return False
        if req.get("conn") not in CONN_11 + CONN_10:
            return False
        if req["version"] == "1.0" and req["framing"] == "none" and \
                req["method"] not in ("GET", "HEAD"):
            return False
        if (h["kind"], h["finish_at"]) not in HANDLERS + LATE_HANDLERS or h["resp"] not in RESPS:
            return False
        if h["finish_at"].startswith("late") and h.get("status") == "etag":
            return False
        n = int(req.get("body_n", 0))
        if n < 0 or n > 5000:
            return False
        if h["finish_at"] in ("prepare", "data"):
            if req["framing"] == "none" or n < 1:
                return False
            if h["finish_at"] == "data" and n <= 2 * SERVER_CHUNK:
                return False
        if not all(isinstance(c, int) and c >= 0 for c in req.get("chunks", [])):
            return False
        if scn.get("second") not in SECONDS:
            return False
        w = scn["knobs"].get("window")
        if w is not None and (not isinstance(w, int) or w < 1):
            return False
        if not (0 <= int(h.get("sleep", 0)) <= 64 and 0 <= int(h.get("resp_n", 0)) <= 5000):
            return False
        if h.get("status", 200) not in (200, 204, 304, "etag"):
            return False
        if h.get("app_conn") not in [None] + APP_CONN:
            return False
        if h.get("app_conn_via", "set") not in ("default", "set"):
            return False
        if h.get("status") == "etag" and (req["method"] not in ("GET", "HEAD")
                                          or h["resp"] != "buffered"):
            return False
        if not (0 <= int(scn.get("split_gap", 0)) <= 64 and 0 <= int(scn.get("after_grace", 0)) <= 64):
            return False
        rd = scn.get("reader") or {}
        for s in rd.get("steps", ()):
            if not (isinstance(s, list) and len(s) == 2 and all(isinstance(x, int) for x in s)
                    and s[0] >= 0 and 0 <= s[1] <= 64):
                return False
        if not all(isinstance(c, int) for c in scn.get("cuts", ())):
            return False
        if not all(isinstance(g, int) and 0 <= g <= 64 for g in scn.get("gaps", ())):
            return False
        return True
    except Exception:
        return False


# ----------------------------------------------------------------------------

def make_app(env, hspec, trace, rapp_box):
    from tornado.web import Application, RequestHandler, stream_request_body
    from tornado import gen

    log = env.log
    resp_n = max(0, int(hspec.get("resp_n", 0)))
    body = fill(resp_n, 3)
    streamed = hspec.get("resp") == "streamed"
    sleep_u = int(hspec.get("sleep", 0))
    finish_at = hspec.get("finish_at", "end")
    flush_wait = bool(hspec.get("flush_wait", True))
    status = hspec.get("status", 200)
    app_conn = hspec.get("app_conn")
    app_conn_via = hspec.get("app_conn_via", "set")

    def app_headers(h):
        if app_conn and app_conn_via == "set" and not h._headers_written:
            h.set_header("Connection", app_conn)

    class Base(RequestHandler):
        SUPPORTED_METHODS = ("GET", "HEAD", "POST", "PUT")

        def set_default_headers(self):
            if app_conn and app_conn_via == "default":
                self.set_header("Connection", app_conn)

    async def respond(h):
        if h._finished or trace["responding"]:
            return
        trace["responding"] = True
        rapp = rapp_box[0]
        rec = rapp.records[0] if rapp.records else None
        trace["body_read_at_finish"] = bool(rec is not None and "F" in rec.events)
        trace["data_seen_at_finish"] = trace["data_bytes"]
        log.ev("respond", finish_at, trace["body_read_at_finish"])
        app_headers(h)
        if status in (204, 304):
            # a response that cannot have a body: status line + headers only
            h.set_status(status)
            if streamed:
                f = h.flush()
                if flush_wait:
                    await f
            if sleep_u:
                await gen.sleep(sleep_u * UNIT)
            h.finish()
        elif streamed:
            half = len(body) // 2
            h.write(b"S:" + body[:half])
            f = h.flush()
            if flush_wait:
                await f
            if sleep_u:
                await gen.sleep(sleep_u * UNIT)
            h.write(body[half:])
            h.finish()
        else:
            if sleep_u:
                await gen.sleep(sleep_u * UNIT)
            h.finish(b"B:" + body)

    late = finish_at.startswith("late")
    total_len = len(b"S:") + len(body)

    async def start_early(h):
        """late_*: put the start of the response on the wire before the body is read."""
        if trace["started"] or h._finished:
            return
        trace["started"] = True
        rapp = rapp_box[0]
        rec = rapp.records[0] if rapp.records else None
        trace["body_read_at_start"] = bool(rec is not None and "F" in rec.events)
        log.ev("start_early", finish_at, trace["body_read_at_start"])
        app_headers(h)
        if status in (204, 304):
            h.set_status(status)
        else:
            if not streamed:
                # a Content-Length response written in pieces
                h.set_header("Content-Length", str(total_len))
            h.write(b"S:" + body[:len(body) // 2])
        f = h.flush()
        if flush_wait:
            await f

    async def finish_late(h):
        if h._finished or trace["responding"]:
            return
        if not trace["started"]:
            await start_early(h)
        trace["responding"] = True
        rapp = rapp_box[0]
        rec = rapp.records[0] if rapp.records else None
        trace["body_read_at_finish"] = bool(rec is not None and "F" in rec.events)
        log.ev("finish_late", finish_at, trace["body_read_at_finish"])
        if sleep_u:
            await gen.sleep(sleep_u * UNIT)
        if status not in (204, 304):
            h.write(body[len(body) // 2:])
        h.finish()

    class Buffered(Base):

        async def _go(self):
            trace["data_bytes"] = len(self.request.body or b"")
            await respond(self)

        get = head = post = put = _go

    @stream_request_body
    class Streaming(Base):

        async def prepare(self):
            if finish_at == "prepare":
                await respond(self)
            elif finish_at == "late_prepare":
                await start_early(self)

        async def data_received(self, chunk):
            trace["data_bytes"] += len(chunk)
            trace["data_calls"] += 1
            if finish_at == "data":
                await respond(self)
            elif finish_at == "late_data":
                await start_early(self)

        async def _go(self):
            if late:
                await finish_late(self)
            else:
                await respond(self)

        get = head = post = put = _go

    class Second(RequestHandler):
        def get(self):
            trace["second_ran"] += 1
            self.finish(SECOND_BODY)

    first = Buffered if hspec.get("kind") == "buffered" else Streaming
    return Application([("/p", first), ("/two", Second)])


def run(scn, full_log=False):
    req = scn["req"]
    hspec = scn["handler"]
    knobs = scn["knobs"]
    method, version, conn = req["method"], req["version"], req.get("conn")
    framing = req["framing"]
    nka = bool(knobs.get("no_keep_alive"))
    second = scn.get("second", "after")
    viol = []
    probes = {}

    def bad(rule, msg, key=None):
        viol.append({"rule": rule, "key": key or rule, "msg": msg})

    def probe(name, n=1):
        probes[name] = probes.get(name, 0) + n

    head, rb = _request_bytes(req, hspec)
    data = head + rb
    if second == "together":
        data += SECOND_REQ
    cuts = scn.get("cuts", [])
    gaps = scn.get("gaps", [])
    reader = scn.get("reader") or {}
    split_gap = int(scn.get("split_gap", 1))
    grace = int(scn.get("after_grace", 8))
    delay_tape = (scn.get("tapes") or {}).get("delay", ())
    scripted = (int(hspec.get("sleep", 0)) + total_gap_units(len(data), cuts, gaps) + split_gap
                + sum(s[1] for s in reader.get("steps", ()) if not reader.get("auto", True))
                + 4 * sum(abs(int(x)) for x in delay_tape if isinstance(x, int)) + grace)
    cap = CAP_UNITS + scripted
    trace = {"started": False, "body_read_at_start": None,
             "responding": False, "body_read_at_finish": None, "data_seen_at_finish": 0,
             "data_bytes": 0, "data_calls": 0, "second_ran": 0}
    res = {}
    rapp_box = [None]

    with SimEnv(scn.get("tapes"), max_iters=400_000, full_log=full_log) as env:
        async def main():
            app = make_app(env, hspec, trace, rapp_box)
            server, ls, rapp = httprig.start_server(env, app, no_keep_alive=nka,
                                                    chunk_size=SERVER_CHUNK)
            rapp_box[0] = rapp
            peer, ssock = httprig.connect(env, ls, window=knobs.get("window"))
            methods = [method] + (["GET"] if second in ("together", "split") else [])
            cl = Client(env, peer, ssock, methods)
            cl.install_tap()
            cl.start_reader(reader)
            rr = cl.rr
            nseg = send_segments(peer, data, cuts, gaps)
            second_sent = second == "together"
            if second == "split":
                peer.send(SECOND_REQ, gap=split_gap)
                second_sent = True
                nseg += 1
            res["nseg"] = nseg
            await cl.wait_until(lambda: rr.n_final >= 1 or cl.ended() or rr.error is not None, cap)
            res["first_complete_before_eof"] = rr.n_final >= 1
            if second == "after" and rr.n_final >= 1 and rr.error is None:
                if grace:
                    await cl.wait_until(lambda: cl.ended(), grace + scripted)
                if not cl.ended() and not peer.epipe:
                    rr.expect("GET")
                    peer.send(SECOND_REQ)
                    second_sent = True
                    env.log.ev("second_sent")
            if second_sent:
                await cl.wait_until(lambda: rr.n_final >= 2 or cl.ended()
                                    or rr.error is not None, cap)
            eof_before_second = cl.ended() and rr.n_final < 2
            await cl.wait_until(lambda: cl.ended(), (cap if rr.n_final < 2 else 64 + scripted))
            cl.drain()
            await env.loop.idle()
            cl.drain()
            res["ended"] = cl.ended()
            res["rst"] = bool(peer.rx.rst)
            res["second_sent"] = second_sent
            res["rr"], res["src"] = cl.final_reader()
            res["records"] = [(r.method, r.target, "H" in r.events, r.conn_id, "F" in r.events)
                              for r in rapp.records]
            await httprig.shutdown(server)
            await env.loop.idle()

        status = env.run(main())
        if status in ("step_cap", "time_cap", "hang"):
            bad("live." + status, f"{status} after {env.loop.iterations} iterations")
        elif status != "done":
            raise RuntimeError(f"C03 harness: main ended with {status}: "
                               f"{getattr(env, 'main_exception', None)!r}")
        st = env.stats()
        log_head, log_full = env.log.head, env.log.full

    outcome = None
    rr = res.get("rr")
    if rr is not None:
        outcome = _judge(scn, res, trace, bad, probe)
    st["probes"].update(probes)
    faults = st["faults"]
    r1 = rr.finals()[0] if rr is not None and rr.finals() else None
    nontrivial = bool(r1 is not None and res.get("second_sent")
                      and (res.get("nseg", 1) >= 2 or faults.get("partial_send", 0) > 0
                           or faults.get("short_read", 0) > 0 or hspec.get("resp") == "streamed"))
    return {"violations": viol, "nontrivial": nontrivial, "stats": st,
            "log_head": log_head, "log_full": log_full, "outcome": outcome}


def _judge(scn, res, trace, bad, probe):
    req = scn["req"]
    hspec = scn["handler"]
    method, version, conn = req["method"], req["version"], req.get("conn")
    framing = req["framing"]
    nka = bool(scn["knobs"].get("no_keep_alive"))
    second = scn.get("second", "after")
    finish_at = hspec.get("finish_at", "end")
    early = finish_at in ("prepare", "data")
    rr = res["rr"]
    ended = res["ended"]
    finals = rr.finals()
    r1 = finals[0] if finals else None
    r2 = finals[1] if len(finals) > 1 else None
    recs = res["records"]
    ctx = (f"{method} HTTP/{version} Connection={conn!r} body={framing} no_keep_alive={nka} "
           f"app_connection={hspec.get('app_conn')!r} "
           f"handler={hspec.get('kind')}/{finish_at} response={hspec.get('resp')} second={second}")
    outcome = {"responses": [r.summary() for r in finals], "ended": ended, "src": res["src"],
               "error": [rr.error[0], rr.error_at] if rr.error else None,
               "conn_hdr": (r1.get("connection") or b"").decode("latin1") if r1 else None,
               "records": [list(r) for r in recs]}
    if r1 is None or r1.header_end is None:
        bad("first.no_response", f"{ctx}: no parseable first response "
            f"(error {rr.error}, ended {ended})", "first.no_response")
        return outcome
    if rr.error is not None:
        bad("first.unparseable", f"{ctx}: response stream violates the grammar: {rr.error}",
            "first.unparseable/" + rr.error[0])
        return outcome
    # measured cross-check of the generator's claim "the handler finished before the body was read"
    if trace["body_read_at_finish"] is not None and trace["body_read_at_finish"] == early:
        bad("harness.early_finish_mismatch", f"{ctx}: generator says early={early}, measured "
            f"body_read_at_finish={trace['body_read_at_finish']}")
        return outcome

    allowed = allowed_by_request(version, conn, method, framing)
    self_delim = r1.delim != EOF
    body_read = not early
    keep = allowed and not nka and self_delim and body_read
    if not allowed:
        why = why_not_allowed(version, conn)
    elif nka:
        why = "no_keep_alive"
    elif not body_read:
        why = "early_finish"
    elif not self_delim:
        why = "response_not_delimited"
    else:
        why = None
    ctoks = r1.tokens("connection")
    second_reached = any(r[1] == "/two" and r[2] for r in recs)
    probe("keep_expected" if keep else "close_expected")
    probe("delim_" + str(r1.delim))
    app_conn = hspec.get("app_conn")
    app_ka = "keep-alive" in _tokens(app_conn)
    if app_conn:
        probe("app_connection_header")
        probe("app_connection_header_" + ("keep_expected" if keep else "close_expected"))
    if r1.code in (204, 304):
        probe("status_%d" % r1.code + ("_etag" if hspec.get("status") == "etag" else ""))
        if keep:
            probe("keep_expected_after_bodyless_%d" % r1.code)
    if why:
        probe("why_" + why.split("/")[0])
    if res["rst"]:
        probe("connection_reset")
    if res["src"] == "tap":
        probe("judged_on_server_written_bytes")
    if early:
        probe("early_finish_" + finish_at)
    if finish_at.startswith("late"):
        probe("respond_early_finish_late")
        if trace["body_read_at_start"] is False:
            probe("response_started_before_body_read")
            if keep:
                probe("keep_expected_response_started_before_body_read")
    if second_reached:
        probe("second_reached_app")
    if res["second_sent"]:
        probe("second_sent_" + second)

    if keep:
        second_ok = r2 is not None and r2.complete and r2.code == 200 and \
            bytes(r2.body) == SECOND_BODY
        if res["second_sent"]:
            if not second_ok:
                if ended:
                    bad("keep.eof_before_second",
                        f"{ctx}: the connection should persist but EOF came before the second "
                        f"response (first response Connection: {ctoks})",
                        f"keep.eof_before_second/{version}/{(conn or 'none').lower()}")
                else:
                    bad("keep.second_unanswered",
                        f"{ctx}: connection open but the second request was not answered",
                        f"keep.second_unanswered/{second}")
            else:
                probe("second_answered_on_kept_connection")
                two = [r for r in recs if r[1] == "/two" and r[2]]
                if not two or two[0][3] != recs[0][3]:
                    bad("keep.second_other_connection", f"{ctx}: records {recs}")
        elif ended:
            bad("keep.eof_before_second",
                f"{ctx}: the connection should persist but was closed after the first response "
                f"(first response Connection: {ctoks})",
                f"keep.eof_before_second/{version}/{(conn or 'none').lower()}")
        return outcome

    # ---- the connection must close
    if not ended:
        bad("close.no_eof",
            f"{ctx}: the connection must close after the first response ({why}) but stays open "
            f"(response delimited by {r1.delim}, Connection: {ctoks}); second request answered: "
            f"{r2 is not None and r2.complete}", f"close.no_eof/{why}")
    if second_reached:
        # two different situations: the connection was (wrongly) kept open, so the next request
        # is served as usual; or it was closed and a request is executed nevertheless
        sub = "kept_open" if (not ended or r2 is not None) else "after_close"
        bad("close.second_reached_app",
            f"{ctx}: the request after the last one of the connection ({why}) reached the "
            f"application ({sub}; second response sent: {r2 is not None}): records "
            f"{[r[:3] for r in recs]}", f"close.second_reached_app/{sub}")
    if version == "1.1" and b"close" not in ctoks:
        bad("close.no_connection_close_header",
            f"{ctx}: HTTP/1.1 client was not told 'Connection: close' ({why}); response has "
            f"Connection: {ctoks}", f"close.no_connection_close_header/{why}")
    if b"keep-alive" in ctoks:
        bad("close.keep_alive_acknowledged",
            f"{ctx}: 'Connection: {r1.get('connection').decode('latin1')}' sent on a connection "
            f"that has to close ({why})" + (" - the header value was set by the application"
                                            if app_ka else ""),
            f"close.keep_alive_acknowledged/{why}" + ("/app_header" if app_ka and version == "1.0"
                                                      and why != "early_finish" else ""))
    return outcome
