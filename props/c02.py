"""C02 - HTTP responses are well-framed and carry exactly what the handler wrote.

Real HTTPServer -> HTTP1ServerConnection -> web.Application -> a RequestHandler
that interprets a generated *program* of output operations.  A raw client sends
the request (segmented), reads through a receive window from 1 byte, possibly
slowly, and a second request follows on the same connection.  Oracle: the strict
response reader of ref/http_response_check.py over the captured bytes + EOF, and
a small model of the program for status / header multimap / body.
"""

import email.utils
import hashlib
import http.client
import json
import re

from sim.env import SimEnv, UNIT
from props import httprig
from props._h2common import (Client, GzipClock, SECOND_BODY, SECOND_REQ, build_request, fill,
                             send_segments, total_gap_units)
from ref.http_response_check import NOBODY, CL, CHUNKED, EOF, decode_content

ID = "C02"
LEVEL = "exploration"
QUICK_N = 10000
THOROUGH_N = 1000000
CHUNK = 500
RULE = ("gen(seed): program of <=10 output ops (set_status/set_header/add_header/clear_header/"
        "write bytes|str|dict/flush awaited or not/finish[chunk]/raise HTTPError|Exception/sleep), "
        "request GET|HEAD|POST x HTTP/1.0 [keep-alive] | 1.1 [close] x If-None-Match x "
        "compress_response x Accept-Encoding, second request together/after/none, request "
        "segmentation, client window 1B..64K, slow-reader schedule, send_cap/recv_cap/delay/defer "
        "tapes. non-trivial = the run executed >=1 flush before finish, or a partial send fired, or "
        "the request was HEAD / HTTP/1.0 or the response status 204/304 (measured on the run); "
        "distinct = distinct scenario hash")
COMPONENTS = {
    "real": ["tornado.web.RequestHandler/Application/GZipContentEncoding",
             "tornado.http1connection.HTTP1Connection/HTTP1ServerConnection",
             "tornado.httpserver.HTTPServer", "tornado.tcpserver.TCPServer (add_socket)",
             "tornado.iostream.IOStream", "tornado.httputil.HTTPHeaders", "asyncio Future/Task"],
    "stub": ["event loop poller+clock (sim.loop.SimLoop)", "sockets/network (sim.net)",
             "HTTP client (sim.net.RawPeer + ref.http_response_check.ResponseReader)",
             "gzip mtime clock"],
}
ASSUMPTIONS = [
    "the strict response reader (ref/http_response_check.py) is the definition of 'a strict "
    "HTTP/1.1 client parser delimits unambiguously' (RFC 9112 section 6.3 order)",
    "programs that set Content-Length/Transfer-Encoding/Connection by hand are 'dirty': framing "
    "invariants only; manual Content-Length only via set_header with a decimal value, manual "
    "Transfer-Encoding only on HTTP/1.1 requests without manual Content-Length (other uses make the "
    "handler, not Tornado, the author of the malformed message)",
    "whether GZipContentEncoding compresses is not modelled (C29 not claimed): the body is decoded "
    "per the response's own Content-Encoding, which must be absent unless gzip was accepted",
    "after RST (server closed with unread request bytes) the client-side capture is replaced by the "
    "bytes the server socket accepted: TCP discards unread data on reset, Tornado does not",
    "liveness cap: 4096 units (4 s) of virtual time beyond all scripted delays",
]

# statuses a handler may set: only 1xx, 204 and 304 cannot have a body (RFC 9112 6.3); everything
# else - including 205, 206, 226 and unregistered codes - is framed like a 200.  (1xx as a *final*
# status is out of scope: C14-C16 own the 101 path, and a strict client treats 1xx as interim.)
CODES = [200, 201, 202, 203, 204, 205, 206, 226, 299, 304, 400, 403, 404, 410, 418, 451, 500, 503,
         599]
CODE_PICK = [200, 200, 201, 204, 204, 304, 304, 404, 500] + CODES
ERR_CODES = [400, 403, 404, 410, 418, 500, 503, 599]
REASONS = [None, None, None, "Custom", "Very OK", "Café", "bad<b>", "", "a\r\nX-Evil: 1"]
NAMES = ["X-A", "x-b", "Vary", "Content-Type", "Etag", "Content-Language", "X-A"]
DIRTY_NAMES = ["Content-Length", "Transfer-Encoding", "Connection"]
VALUES = ["v1", "two words", "text/plain", "application/octet-stream", "image/svg+xml",
          "\"tag1\"", "en", "café", 7, "Accept-Language", ""]
SIZES = [0, 1, 2, 10, 100, 500, 1000, 1023, 1024, 1025, 2047, 2048, 2049, 3000]
WINDOWS = [1, 2, 3, 7, 16, 64, 256, 1024, 4096, None]
WINDOW_PICK = WINDOWS + [None, None, 4096, 64]
CAP_UNITS = 4096
SERVER_HDR = None  # filled lazily: "TornadoServer/<version>"

_REASON_OK = re.compile(r"(?:[\t ]|[\x21-\x7e]|[\x80-\xff])+")


# ----------------------------------------------------------------------------
# chunk materialisation (shared by handler and model)

def chunk_value(op):
    kind = op.get("kind")
    n = max(0, min(int(op.get("n", 0)), 70000))
    seed = int(op.get("seed", 0))
    if kind == "b":
        return fill(n, seed)
    if kind == "s":
        s = fill(n, seed, b"abcdefghij klmnop<>&\"'\n").decode("latin1")
        if seed & 1:
            s += "é✓"
        return s
    if kind == "d":
        return {"k": fill(min(n, 200), seed, b"abc</\"").decode("latin1"), "n": n}
    return None


def chunk_bytes(v):
    """What RequestHandler.write documents: str -> utf8, dict -> JSON."""
    if isinstance(v, dict):
        return json.dumps(v).replace("</", "<\\/").encode("utf8")
    if isinstance(v, str):
        return v.encode("utf8")
    return v


# ----------------------------------------------------------------------------
# generator

BIG_SIZES = [5000, 20000, 65535, 65536, 65537, 70000]


def _gen_write(rng, small, big=False):
    sizes = [0, 1, 2, 10, 40] if small else SIZES
    n = rng.choice(sizes)
    if big and rng.random() < 0.4:
        n = rng.choice(BIG_SIZES)
    if n > 3 and rng.random() < 0.5:
        n = max(0, n + rng.randint(-2, 2))
    k = rng.random()
    kind = "b" if k < 0.6 else "s" if k < 0.85 else "d"
    return {"kind": kind, "n": n, "seed": rng.getrandbits(16)}


def gen(rng, tier, index):
    thorough = tier == "thorough"
    window = rng.choice(WINDOW_PICK)
    small = window is not None and window <= 7
    big = thorough and not small and rng.random() < 0.08
    ops = []
    # --- status / headers
    if rng.random() < 0.35:
        ops.append({"op": "status", "code": rng.choice(CODE_PICK), "reason": rng.choice(REASONS)})
    for _ in range(rng.choice([0, 0, 1, 1, 2, 3])):
        k = rng.random()
        name = rng.choice(NAMES)
        if k < 0.45:
            ops.append({"op": "set", "name": name, "value": rng.choice(VALUES)})
        elif k < 0.8:
            ops.append({"op": "add", "name": name, "value": rng.choice(VALUES)})
        else:
            ops.append({"op": "clear", "name": name})
    # --- body
    shape = rng.random()
    nbody = rng.choice([0, 1, 1, 2, 3, 4]) if shape < 0.8 else rng.randint(3, 6)
    for _ in range(nbody):
        k = rng.random()
        if k < 0.5:
            ops.append(dict(op="write", **_gen_write(rng, small, big)))
        elif k < 0.8:
            ops.append({"op": "flush", "wait": rng.random() < 0.5})
        elif k < 0.93:
            ops.append({"op": "sleep", "dt": rng.choice([0, 1, 1, 2, 5])})
        else:
            name = rng.choice(NAMES)
            ops.append({"op": rng.choice(["set", "add", "clear"]), "name": name,
                        "value": rng.choice(VALUES)})
    if rng.random() < 0.75:
        fin = {"op": "finish", "kind": None}
        if rng.random() < 0.4:
            fin.update(_gen_write(rng, small))
        ops.append(fin)
    # --- an op that raises
    if rng.random() < 0.14:
        pos = rng.randint(0, len(ops))
        if rng.random() < 0.6:
            ops.insert(pos, {"op": "raise", "http": rng.choice(ERR_CODES),
                             "reason": rng.choice([None, None, "Custom"])})
        else:
            ops.insert(pos, {"op": "raise", "http": 0, "reason": None})
    # --- ops after finish
    if ops and ops[-1]["op"] == "finish" and rng.random() < 0.12:
        for _ in range(rng.randint(1, 2)):
            k = rng.random()
            if k < 0.3:
                ops.append(dict(op="write", **_gen_write(rng, True)))
            elif k < 0.5:
                ops.append({"op": "flush", "wait": False})
            elif k < 0.7:
                ops.append({"op": "sleep", "dt": rng.choice([1, 2])})
            elif k < 0.85:
                ops.append({"op": "set", "name": "X-A", "value": "late"})
            else:
                ops.append({"op": "finish", "kind": None})
    # --- request
    method = rng.choice(["GET", "GET", "GET", "HEAD", "HEAD", "POST"])
    version = rng.choice(["1.0", "1.0", "1.1", "1.1", "1.1"])
    if version == "1.0":
        conn = rng.choice([None, "keep-alive", "keep-alive"])
    else:
        conn = rng.choice([None, None, "close"])
    # --- dirty: framing headers set by hand
    if rng.random() < 0.18:
        k = rng.random()
        body_len = sum(len(chunk_bytes(chunk_value(o))) for o in ops
                       if o["op"] in ("write", "finish") and o.get("kind"))
        pos = rng.randint(0, max(0, min(len(ops), 3)))
        if k < 0.6:
            v = rng.choice([body_len, body_len, body_len + 1, max(0, body_len - 1), 0, 5])
            ops.insert(pos, {"op": "set", "name": "Content-Length", "value": str(v)})
        elif k < 0.8:
            ops.insert(pos, {"op": "set", "name": "Connection",
                             "value": rng.choice(["close", "keep-alive", "Keep-Alive"])})
        elif version == "1.1":
            cand = ops[:pos] + [{"op": "set", "name": "Transfer-Encoding", "value": "chunked"}] \
                + ops[pos:]
            if _te_ok(cand, version):
                ops = cand
    ops = ops[:12]
    compress = rng.random() < 0.4
    ae = rng.random() < 0.6
    inm = rng.choice([None, None, "match", "match", "other", "star", "weak", "list"])
    body = fill(rng.choice([0, 1, 20, 200]), rng.getrandbits(8)) if method == "POST" else b""
    second = rng.choice(["together", "after", "after", "none"])
    # --- request segmentation
    head, rb = build_request(method, version, _req_headers(method, version, conn, ae, "x", body),
                             body)
    total = len(head) + len(rb) + (len(SECOND_REQ) if second == "together" else 0)
    mode = rng.random()
    cuts = []
    if mode < 0.35:
        pass
    elif mode < 0.5:
        cuts = list(range(1, min(total, 40)))
    else:
        interesting = [len(head) - 2, len(head) - 1, len(head), len(head) + len(rb),
                       len(head) + len(rb) + 1, 1, total - 1]
        for _ in range(rng.randint(1, 4)):
            cuts.append(rng.choice(interesting) if rng.random() < 0.5 else rng.randint(1, total))
    gaps = [rng.choice([0, 1, 1, 2, 3]) for _ in range(rng.randint(1, 4))]
    # --- reader
    est = 400 + sum(o.get("n", 0) for o in ops if o["op"] in ("write", "finish"))
    lim = 1000 if thorough else 120
    if window is not None and est / window > lim:
        window = next(w for w in WINDOWS if w is None or est / w <= lim)
    reader = {"auto": True, "steps": []}
    if rng.random() < 0.3:
        w = window or 65536
        ks = [1, 2, 10, 100, 1000, w, max(1, w // 2)]
        nsteps = rng.randint(1, 30)
        reader = {"auto": False,
                  "steps": [[rng.choice(ks), rng.choice([0, 1, 1, 2, 5])] for _ in range(nsteps)]}
    # --- tapes
    tapes = {}
    if rng.random() < 0.45:
        vals = [rng.choice([0, 0, 1, 2, 7, 100, 1000, -1]) for _ in range(rng.randint(1, 14))]
        if est > 1500 and window is None:
            vals = [v if v == 0 or v < 0 or v >= 64 else v * 64 for v in vals]
        tapes["send_cap"] = {"v": vals, "cycle": rng.random() < 0.4 and est < 1200 and
                             all(v == 0 or abs(v) >= 7 or est < 300 for v in vals)}
    if rng.random() < 0.3:
        tapes["recv_cap"] = {"v": [rng.choice([0, 1, 2, 5, 17]) for _ in range(rng.randint(1, 10))],
                             "cycle": rng.random() < 0.5}
    if rng.random() < 0.25:
        tapes["delay"] = [rng.choice([0, 0, 1, 2]) for _ in range(rng.randint(1, 10))]
    if rng.random() < 0.15:
        tapes["defer"] = [rng.choice([0, 1]) for _ in range(10)]
    if rng.random() < 0.1:
        tapes["spurious"] = [rng.choice([0, 1]) for _ in range(6)]
    return {
        "property": ID, "version": 1,
        "knobs": {"compress": compress, "window": window},
        "req": {"method": method, "version": version, "conn": conn, "ae": ae, "inm": inm,
                "body": "hex:" + body.hex()},
        "prog": ops,
        "second": second,
        "cuts": cuts, "gaps": gaps,
        "reader": reader,
        "tapes": tapes,
    }


NO_SHRINK = ()


def _te_ok(prog, version):
    """A hand-set Transfer-Encoding is only generated where Tornado itself decides to chunk
    (HTTP/1.1, first flush before any finish/raise, no hand-set Content-Length): anywhere else
    the handler, not Tornado, is the author of a header that contradicts the body."""
    te = [i for i, o in enumerate(prog) if o.get("op") in ("set", "add")
          and o.get("name") == "Transfer-Encoding"]
    if not te:
        return True
    if version != "1.1":
        return False
    if any(o.get("name") == "Content-Length" for o in prog):
        return False
    for i, o in enumerate(prog):
        if o.get("op") in ("finish", "raise"):
            return False
        if o.get("op") == "flush":
            return i > te[0]
    return False
_OPS = {"status", "set", "add", "clear", "write", "flush", "finish", "raise", "sleep"}


def validate(scn):
    try:
        req = scn["req"]
        if req["method"] not in ("GET", "HEAD", "POST") or req["version"] not in ("1.0", "1.1"):
            return False
        if req.get("conn") not in (None, "keep-alive", "close"):
            return False
        if req.get("inm") not in (None, "match", "other", "star", "weak", "list"):
            return False
        if scn.get("second") not in ("together", "after", "none"):
            return False
        w = scn["knobs"].get("window")
        if w is not None and (not isinstance(w, int) or w < 1):
            return False
        names = set(NAMES) | set(DIRTY_NAMES)
        for o in scn["prog"]:
            if not isinstance(o, dict) or o.get("op") not in _OPS:
                return False
            k = o["op"]
            if k == "status" and o.get("code") not in CODES:
                return False
            if k in ("set", "add", "clear") and o.get("name") not in names:
                return False
            if k in ("set", "add") and not isinstance(o.get("value"), (str, int)):
                return False
            if k in ("write",) and o.get("kind") not in ("b", "s", "d"):
                return False
            if k == "finish" and o.get("kind") not in (None, "b", "s", "d"):
                return False
            if k == "raise" and o.get("http") not in [0] + ERR_CODES:
                return False
            if k == "sleep" and not (0 <= int(o.get("dt", 0)) <= 64):
                return False
            if k in ("set", "add") and o["name"] == "Content-Length" and \
                    not str(o["value"]).isdigit():
                return False
        if not _te_ok(scn["prog"], req["version"]):
            return False
        rd = scn.get("reader") or {}
        for s in rd.get("steps", ()):
            if not (isinstance(s, list) and len(s) == 2 and all(isinstance(x, int) for x in s)
                    and s[0] >= 0 and 0 <= s[1] <= 64):
                return False
        if not all(isinstance(c, int) for c in scn.get("cuts", ())):
            return False
        if not all(isinstance(g, int) and 0 <= g <= 64 for g in scn.get("gaps", ())):
            return False
        return True
    except Exception:
        return False


def simplify(scn):
    """Extra shrink candidates the generic shrinker cannot reach (None, strings, dict fields)."""
    import copy

    def alt(path, value):
        c = copy.deepcopy(scn)
        cur = c
        for k in path[:-1]:
            cur = cur[k]
        if cur.get(path[-1], value) == value and path[-1] in cur:
            return None
        cur[path[-1]] = value
        return c
    cands = [alt(("knobs", "window"), None), alt(("knobs", "compress"), False),
             alt(("reader",), {"auto": False, "steps": []}), alt(("tapes",), {}),
             alt(("req", "inm"), None), alt(("req", "ae"), False), alt(("req", "conn"), None),
             alt(("req", "method"), "GET"), alt(("req", "version"), "1.1"),
             alt(("req", "body"), "hex:"), alt(("second",), "none"), alt(("cuts",), []),
             alt(("gaps",), [])]
    for i, o in enumerate(scn.get("prog", [])):
        if o.get("op") == "status" and o.get("reason") is not None:
            c = copy.deepcopy(scn)
            c["prog"][i]["reason"] = None
            cands.append(c)
        if o.get("op") in ("write", "finish") and o.get("kind") in ("s", "d"):
            c = copy.deepcopy(scn)
            c["prog"][i]["kind"] = "b"
            cands.append(c)
    for c in cands:
        if c is not None:
            yield c


def _req_headers(method, version, conn, ae, inm_value, body):
    hs = [("Host", "h")]
    if conn:
        hs.append(("Connection", conn))
    if ae:
        hs.append(("Accept-Encoding", "gzip"))
    if inm_value:
        hs.append(("If-None-Match", inm_value))
    if method == "POST":
        hs.append(("Content-Length", str(len(body))))
    return hs


# ----------------------------------------------------------------------------
# the model of a program

class ModelRaise(Exception):
    def __init__(self, kind, http=None, reason=None):
        Exception.__init__(self, kind)
        self.kind = kind
        self.http = http
        self.reason = reason


def _norm(name):
    return "-".join(w.capitalize() for w in name.split("-"))


class MHeaders:
    """HTTPHeaders as documented: Http-Header-Case names, set replaces, add
    appends; deleting a missing name raises KeyError.  (Before /repo commit
    1c2830b deleting a name whose last mutation was an ``add`` onto an existing
    name also raised KeyError; that defect is fixed and no longer modelled.)"""

    def __init__(self):
        self.d = {}
        self.valid = set()

    def copy(self):
        c = MHeaders()
        c.d = {k: list(v) for k, v in self.d.items()}
        c.valid = set(self.valid)
        return c

    def has(self, name):
        return _norm(name) in self.d

    def set(self, name, value):
        n = _norm(name)
        self.d[n] = [value]
        self.valid.add(n)

    def add(self, name, value):
        n = _norm(name)
        if n in self.d:
            self.valid.discard(n)
            self.d[n].append(value)
        else:
            self.set(n, value)

    def get(self, name, default=None):
        n = _norm(name)
        if n not in self.d:
            return default
        self.valid.add(n)
        return ",".join(self.d[n])

    def delete(self, name):
        n = _norm(name)
        if n not in self.d:
            raise ModelRaise("KeyError")
        self.valid.discard(n)
        del self.d[n]


def _conv(value):
    return str(value) if isinstance(value, int) else value


class Model:
    def __init__(self, method, compress, ae, inm):
        self.method = method
        self.compress = compress
        self.ae = ae
        self.inm_matches = inm in ("match", "star", "weak", "list")
        self.H = MHeaders()
        self.H.set("Server", "@server")
        self.H.set("Content-Type", "text/html; charset=UTF-8")
        self.H.set("Date", "@date")
        self.status = 200
        self.reason = "OK"
        self.buf = []
        self.written = False
        self.finished = False
        self.snapshot = None
        self.body = bytearray()      # identity bytes handed to the connection (GET view)
        self.etag = None
        self.flushes_before_finish = 0
        self.dirty = False
        self.all_written = bytearray()  # every byte passed to write() before finish/raise

    # -- ops
    def set_status(self, code, reason):
        self.status = code
        if reason is not None:
            if "<" in reason or _REASON_OK.fullmatch(reason) is None:
                reason = "Unknown"
            self.reason = reason
        else:
            self.reason = http.client.responses.get(code, "Unknown")

    def write(self, v):
        if self.finished:
            raise ModelRaise("RuntimeError")
        if isinstance(v, dict):
            self.H.set("Content-Type", "application/json; charset=UTF-8")
        b = chunk_bytes(v)
        self.buf.append(b)
        self.all_written += b

    def clear_header(self, name):
        if self.H.has(name):
            self.H.delete(name)

    def flush(self, finishing=False):
        chunk = b"".join(self.buf)
        self.buf = []
        if not self.written:
            self.written = True
            if self.compress:
                if self.H.has("Vary"):
                    self.H.set("Vary", self.H.get("Vary") + ", Accept-Encoding")
                else:
                    self.H.set("Vary", "Accept-Encoding")
                if self.ae:
                    self.H.get("Content-Type")
            self.snapshot = (self.status, self.reason, self.H.copy())
        elif self.finished:
            return
        st = self.snapshot[0]
        if (st in (204, 304) or 100 <= st < 200) and self.method != "HEAD" and chunk:
            # such a response has no body: the only acceptable outcomes are that the bytes are
            # refused (the op raises, the connection is closed) - never that they are sent
            raise ModelRaise("HTTPOutputError")
        self.body += chunk

    def finish(self, v):
        if self.finished:
            raise ModelRaise("RuntimeError")
        if v is not None:
            self.write(v)
        if not self.written:
            if self.status == 200 and self.method in ("GET", "HEAD") and not self.H.has("Etag"):
                h = hashlib.sha1()
                for part in self.buf:
                    h.update(part)
                self.etag = '"%s"' % h.hexdigest()
                self.H.set("Etag", self.etag)
                self.H.get("Etag")
                if self.inm_matches:
                    self.buf = []
                    self.set_status(304, None)
            if self.status in (204, 304) or 100 <= self.status < 200:
                if self.buf:
                    raise ModelRaise("AssertionError")
                for h in ("Content-Encoding", "Content-Language", "Content-Type"):
                    self.clear_header(h)
        self.flush(True)
        self.finished = True


def run_model(req, prog, compress):
    """Returns a dict describing what a correct server sends for request 1."""
    m = Model(req["method"], compress, req.get("ae"), req.get("inm"))
    raised = None
    total_sleep = 0
    for i, op in enumerate(prog):
        k = op["op"]
        if k == "sleep":
            total_sleep += int(op.get("dt", 0))
        if m.finished and raised is None:
            # the response is final; later ops cannot change it (they still run)
            continue
        if raised is not None:
            continue
        try:
            if k == "status":
                m.set_status(op["code"], op.get("reason"))
            elif k == "set":
                if op["name"] in DIRTY_NAMES:
                    m.dirty = True
                m.H.set(op["name"], _conv(op["value"]))
            elif k == "add":
                if op["name"] in DIRTY_NAMES:
                    m.dirty = True
                m.H.add(op["name"], _conv(op["value"]))
            elif k == "clear":
                m.clear_header(op["name"])
            elif k == "write":
                m.write(chunk_value(op))
            elif k == "flush":
                if not m.finished:
                    m.flushes_before_finish += 1
                m.flush(False)
            elif k == "finish":
                m.finish(chunk_value(op) if op.get("kind") else None)
            elif k == "raise":
                if op.get("http"):
                    raise ModelRaise("HTTPError", op["http"], op.get("reason"))
                raise ModelRaise("ValueError")
        except ModelRaise as e:
            raised = (i, e)
    if raised is None and not m.finished:
        try:
            m.finish(None)   # auto-finish
        except ModelRaise as e:
            raised = (len(prog), e)
    out = {"dirty": m.dirty, "sleep": total_sleep, "etag": m.etag,
           "flushes_before_finish": m.flushes_before_finish, "raised": None}
    if raised is not None:
        i, e = raised
        out["raised"] = (i, e.kind)
        if not m.written:
            code = e.http if e.kind == "HTTPError" else 500
            out["kind"] = "error"
            out["status"] = code
            return out
        out["kind"] = "partial"
        out["status"], out["reason"], hdrs = m.snapshot
        out["headers"] = hdrs.d
        out["written"] = bytes(m.all_written)
        return out
    out["kind"] = "normal"
    out["status"], out["reason"], hdrs = m.snapshot
    out["headers"] = hdrs.d
    out["body"] = bytes(m.body)
    return out


# ----------------------------------------------------------------------------
# handlers

def make_app(env, prog, trace, compress):
    from tornado.web import Application, RequestHandler, HTTPError
    from tornado import gen

    log = env.log

    class ProgramHandler(RequestHandler):
        SUPPORTED_METHODS = ("GET", "HEAD", "POST")

        async def _go(self):
            conn = self.request.connection
            for i, op in enumerate(prog):
                k = op["op"]
                st = conn.stream
                busy = st is not None and not st.closed() and st.writing()
                if busy:
                    trace["ops_while_write_pending"] += 1
                log.ev("op", i, k, busy)
                try:
                    if k == "status":
                        self.set_status(op["code"], op.get("reason"))
                    elif k == "set":
                        self.set_header(op["name"], op["value"])
                    elif k == "add":
                        self.add_header(op["name"], op["value"])
                    elif k == "clear":
                        self.clear_header(op["name"])
                    elif k == "write":
                        self.write(chunk_value(op))
                    elif k == "flush":
                        if not self._finished:
                            trace["flushes_before_finish"] += 1
                        f = self.flush()
                        if op.get("wait"):
                            if not f.done():
                                trace["flush_waited"] += 1
                            await f
                    elif k == "finish":
                        if busy:
                            trace["finish_with_pending_write"] += 1
                        if op.get("kind"):
                            self.finish(chunk_value(op))
                        else:
                            self.finish()
                    elif k == "raise":
                        if op.get("http"):
                            raise HTTPError(op["http"], reason=op.get("reason"))
                        raise ValueError("program raised")
                    elif k == "sleep":
                        if busy:
                            trace["sleep_while_write_pending"] += 1
                        await gen.sleep(int(op.get("dt", 0)) * UNIT)
                except Exception as e:
                    if trace["raised"] is None:
                        trace["raised"] = (i, type(e).__name__, bool(self._finished))
                        log.ev("op_raised", i, type(e).__name__)
                    raise

        get = head = post = _go

    class SecondHandler(RequestHandler):
        def get(self):
            trace["second_ran"] += 1
            self.finish(SECOND_BODY)

    return Application([("/p", ProgramHandler), ("/two", SecondHandler)],
                       compress_response=bool(compress))


def _gzip_len(data):
    import gzip
    from io import BytesIO
    b = BytesIO()
    f = gzip.GzipFile(mode="w", fileobj=b, compresslevel=6)
    f.write(data)
    f.close()
    return len(b.getvalue())


def _dates(w0, w1):
    return {email.utils.formatdate(t, usegmt=True) for t in range(int(w0), int(w1) + 1)}


# ----------------------------------------------------------------------------

def run(scn, full_log=False):
    import tornado
    req = scn["req"]
    prog = scn["prog"]
    knobs = scn["knobs"]
    method, version = req["method"], req["version"]
    compress = bool(knobs.get("compress"))
    second = scn.get("second", "none")
    viol = []
    probes = {}

    def bad(rule, msg, key=None):
        viol.append({"rule": rule, "key": key or rule, "msg": msg})

    def probe(name, n=1):
        probes[name] = probes.get(name, 0) + n

    mo = run_model(req, prog, compress)
    # request bytes
    inm = req.get("inm")
    etag = mo.get("etag") or '"0000"'
    inm_value = {None: None, "match": etag, "other": '"deadbeef"', "star": "*",
                 "weak": "W/" + etag, "list": '"zzz", ' + etag}[inm]
    body = bytes.fromhex(req.get("body", "hex:")[4:]) if method == "POST" else b""
    head, rb = build_request(method, version,
                             _req_headers(method, version, req.get("conn"), req.get("ae"),
                                          inm_value, body), body)
    data = head + rb
    if second == "together":
        data += SECOND_REQ
    cuts = scn.get("cuts", [])
    gaps = scn.get("gaps", [])
    reader = scn.get("reader") or {}
    scripted = (mo["sleep"] + total_gap_units(len(data), cuts, gaps)
                + sum(s[1] for s in reader.get("steps", ()) if not reader.get("auto", True))
                + 8 * len((scn.get("tapes") or {}).get("delay", ())) * 4)
    cap = CAP_UNITS + scripted
    trace = {"raised": None, "flushes_before_finish": 0, "flush_waited": 0,
             "ops_while_write_pending": 0, "finish_with_pending_write": 0,
             "sleep_while_write_pending": 0, "second_ran": 0}
    res = {}

    with SimEnv(scn.get("tapes"), max_iters=400_000, full_log=full_log) as env, GzipClock(env):
        async def main():
            app = make_app(env, prog, trace, compress)
            server, ls, rapp = httprig.start_server(env, app)
            peer, ssock = httprig.connect(env, ls, window=knobs.get("window"))
            methods = [method] + (["GET"] if second == "together" else [])
            cl = Client(env, peer, ssock, methods)
            cl.install_tap()
            cl.start_reader(reader)
            w0 = env.loop.wall()
            send_segments(peer, data, cuts, gaps)
            rr = cl.rr
            await cl.wait_until(lambda: rr.n_final >= 1 or cl.ended() or rr.error is not None, cap)
            second_sent = second == "together"
            if (second == "after" and rr.n_final >= 1 and rr.error is None
                    and not cl.ended()):
                rr.expect("GET")
                peer.send(SECOND_REQ)
                second_sent = True
                env.log.ev("second_sent")
            if second_sent:
                await cl.wait_until(lambda: rr.n_final >= 2 or cl.ended()
                                    or rr.error is not None, cap)
            # anything else the server still has to say (stray bytes, a late close)
            await cl.wait_until(lambda: cl.ended(), 64 + scripted)
            cl.drain()
            await env.loop.idle()
            cl.drain()
            res["ended"] = cl.ended()
            res["rst"] = bool(peer.rx.rst)
            res["w0"], res["w1"] = w0, env.loop.wall()
            res["second_sent"] = second_sent
            res["rr"], res["src"] = cl.final_reader()
            res["records"] = [(r.method, r.target, "H" in r.events) for r in rapp.records]
            res["received"] = len(peer.received)
            res["tap"] = len(cl.tap)
            await httprig.shutdown(server)
            await env.loop.idle()

        status = env.run(main())
        if status in ("step_cap", "time_cap", "hang"):
            bad("live." + status, f"{status} after {env.loop.iterations} iterations")
        elif status != "done":
            raise RuntimeError(f"C02 harness: main ended with {status}: "
                               f"{getattr(env, 'main_exception', None)!r}")
        err_records = [r for r in env.errors()]
        st = env.stats()
        log_head, log_full = env.log.head, env.log.full

    rr = res.get("rr")
    outcome = None
    if rr is not None:
        outcome = _judge(scn, mo, res, trace, err_records, bad, probe, tornado.version)
    # ---- probes / nontrivial
    faults = st["faults"]
    for k in ("flushes_before_finish", "flush_waited", "ops_while_write_pending",
              "finish_with_pending_write", "sleep_while_write_pending"):
        if trace[k]:
            probe(k, trace[k])
    if trace["raised"] is not None:
        probe("op_raised")
    if mo["dirty"]:
        probe("dirty_program")
    st["probes"].update(probes)
    r1 = rr.finals()[0] if rr is not None and rr.finals() else None
    code1 = r1.code if r1 is not None else None
    nontrivial = bool(trace["flushes_before_finish"] >= 1 or faults.get("partial_send", 0) > 0
                      or method == "HEAD" or version == "1.0" or code1 in (204, 304))
    return {"violations": viol, "nontrivial": nontrivial, "stats": st,
            "log_head": log_head, "log_full": log_full, "outcome": outcome}


def _judge(scn, mo, res, trace, err_records, bad, probe, tver):
    req = scn["req"]
    method, version = req["method"], req["version"]
    compress = bool(scn["knobs"].get("compress"))
    second = scn.get("second", "none")
    rr = res["rr"]
    ended = res["ended"]
    finals = rr.finals()
    r1 = finals[0] if finals else None
    r2 = finals[1] if len(finals) > 1 else None
    ctx = f"{method}/{version}" + ("/ka" if req.get("conn") == "keep-alive" else "") + \
        ("/close" if req.get("conn") == "close" else "")
    raised_obs = trace["raised"] is not None and not trace["raised"][2]
    logged_err = any(r[0] in ("tornado.application", "tornado.general") for r in err_records)
    # a raise excuses an error response / truncation only when it is *expected*: predicted by the
    # model, or (dirty programs, whose rejections are not modelled) observed
    raised = mo["raised"] is not None or (mo["dirty"] and (raised_obs or logged_err))
    flushed = trace["flushes_before_finish"] > 0
    outcome = {"responses": [r.summary() for r in finals], "ended": ended, "src": res["src"],
               "error": [rr.error[0], rr.error_at] if rr.error else None,
               "model": mo["kind"], "raised": trace["raised"]}

    # ---- probes
    if r1 is not None:
        probe("delim_" + str(r1.delim))
        if r1.why_nobody:
            probe("nobody_" + r1.why_nobody)
        if r1.get("content-encoding"):
            probe("gzip_response")
        if r1.code == 304 and mo.get("etag"):
            probe("etag_304")
    if r2 is not None and r2.complete:
        probe("second_answered")
    if res["rst"]:
        probe("connection_reset")
    if res["src"] == "tap":
        probe("judged_on_server_written_bytes")
    if mo["kind"] == "error":
        probe("model_error_response")
    if mo["kind"] == "partial":
        probe("model_raise_after_flush")

    # ---- 1. grammar
    if rr.error is not None:
        kind, detail = rr.error
        cur = rr.in_progress()
        prev = None
        for r in rr.responses:
            if r.complete and r.end is not None and r.end <= rr.error_at:
                prev = r
        at_start = kind in ("status_line", "unsolicited_bytes", "status_line_no_sp_after_code") \
            and cur is None
        if at_start and prev is not None and prev.delim == NOBODY:
            gz = "/gzip" if prev.get("content-encoding") else ""
            fl = "/flushed" if flushed and prev.index == 0 else ""
            bad("nobody.body_bytes",
                f"{ctx}: bytes follow a response that cannot have a body "
                f"({prev.why_nobody}, status {prev.code}): {detail[:24]!r}",
                f"nobody.body_bytes/{prev.why_nobody}{gz}{fl}")
        elif at_start and prev is not None:
            bad("frame.bytes_after_response",
                f"{ctx}: bytes after a complete {prev.delim}-delimited response are not the start "
                f"of a response: {detail[:24]!r}",
                f"frame.bytes_after_response/{prev.delim}")
        else:
            d = cur.delim if cur is not None else "start"
            bad("frame.malformed", f"{ctx}: {kind} at offset {rr.error_at}: {detail[:40]!r}",
                f"frame.malformed/{kind}/{d}")
        return outcome

    # ---- 2. one response per answered request, unambiguously delimited
    if r1 is None:
        if rr.partial_bytes() == 0:
            if not (raised and ended):
                stc = str(mo["status"]) if mo.get("status") in (204, 304) else "other"
                bad("frame.no_response", f"{ctx}: no response bytes (expected status "
                    f"{mo.get('status')}; handler raised: {trace['raised']}); connection "
                    f"{'closed' if ended else 'open'}", "frame.no_response/" +
                    ("closed" if ended else "open") + "/" + stc)
        elif not ended:
            bad("frame.incomplete_open", f"{ctx}: header block never completed, connection open",
                "frame.incomplete_open/headers")
        elif not raised:
            bad("frame.truncated", f"{ctx}: EOF inside the header block", "frame.truncated/headers")
        return outcome
    if not r1.complete:
        if r1.delim == EOF and not ended:
            fl = "flushed" if flushed else "unflushed"
            bad("frame.eof_delimited_open",
                f"{ctx}: response has neither Content-Length nor chunked coding "
                f"(Connection: {r1.get('connection')!r}) but the connection stays open: the client "
                f"cannot find the end of the body",
                f"frame.eof_delimited_open/{version}" +
                ("/ka" if req.get("conn") == "keep-alive" else "") + f"/{fl}")
            return outcome
        if not ended:
            bad("frame.incomplete_open",
                f"{ctx}: {r1.delim}-delimited body incomplete ({len(r1.body)} bytes) and the "
                f"connection stays open", f"frame.incomplete_open/{r1.delim}")
            return outcome
        if not raised:
            bad("frame.truncated",
                f"{ctx}: EOF inside a {r1.delim}-delimited body after {len(r1.body)} bytes "
                f"(Content-Length {r1.content_length})", f"frame.truncated/{r1.delim}")
            return outcome
        probe("truncated_after_raise")
    # r1 is complete (or legitimately truncated after a raise)
    kept = not ended
    if r1.complete and res["second_sent"]:
        if kept and (r2 is None or not r2.complete):
            bad("second.unanswered",
                f"{ctx}: connection kept open after response 1 but request 2 got no complete "
                f"response", "second.unanswered")
        elif r2 is not None and r2.complete:
            if r2.code != 200 or bytes(r2.body) != SECOND_BODY:
                bad("second.wrong", f"{ctx}: response 2 is {r2.code} {bytes(r2.body)[:20]!r}")
        elif r2 is not None and not r2.complete and ended and rr.incomplete():
            bad("frame.truncated", f"{ctx}: EOF inside response 2", "frame.truncated/second")
    elif rr.incomplete() and r1.complete:
        bad("frame.bytes_after_response", f"{ctx}: partial bytes after response 1",
            "frame.bytes_after_response/partial")

    # ---- 3. content
    if mo["dirty"]:
        return outcome
    hdrs = r1.multimap()
    if r1.get("content-encoding") is not None:
        if not (compress and req.get("ae")):
            bad("clean.content_encoding_not_accepted",
                f"{ctx}: Content-Encoding {r1.get('content-encoding')!r} although the client did "
                f"not accept it")
    if mo["kind"] == "error":
        if r1.code != mo["status"]:
            bad("raised.status", f"{ctx}: op {mo['raised']} raised before any flush: expected "
                f"status {mo['status']}, got {r1.code}", "raised.status")
        return outcome
    if mo["kind"] == "partial":
        if r1.code != mo["status"]:
            bad("raised.status", f"{ctx}: status {r1.code}, flushed status was {mo['status']}",
                "raised.status/after_flush")
        if r1.delim != NOBODY:
            dec, _ = decode_content(r1.body, r1.get("content-encoding"))
            if dec is None or not mo["written"].startswith(dec):
                bad("raised.body_not_prefix", f"{ctx}: body after a raise is not a prefix of what "
                    f"the handler wrote ({len(r1.body)} bytes)")
        return outcome
    if not r1.complete:
        return outcome
    # normal, clean program
    if trace["raised"] is not None and not trace["raised"][2]:
        bad("clean.op_rejected", f"{ctx}: op {trace['raised'][0]} raised {trace['raised'][1]} "
            f"although the program is valid", "clean.op_rejected/" + trace["raised"][1])
        return outcome
    if r1.code != mo["status"]:
        bad("clean.status", f"{ctx}: status {r1.code}, expected {mo['status']}",
            f"clean.status/{mo['status']}")
        return outcome
    if r1.reason != mo["reason"].encode("utf8"):
        bad("clean.reason", f"{ctx}: reason {r1.reason!r}, expected {mo['reason']!r}")
    exp = {k: list(v) for k, v in mo["headers"].items()}
    skip = {"Content-Length", "Transfer-Encoding", "Connection", "Date", "Content-Encoding"}
    got = {k: v for k, v in hdrs.items() if k not in skip}
    exp = {k: [("TornadoServer/" + tver) if x == "@server" else x for x in v]
           for k, v in exp.items() if k not in skip}
    if got != exp:
        diff = sorted(k for k in set(got) | set(exp) if got.get(k) != exp.get(k))
        bad("clean.headers", f"{ctx}: header fields differ for {diff}: got "
            f"{ {k: got.get(k) for k in diff} }, expected { {k: exp.get(k) for k in diff} }",
            "clean.headers/" + diff[0])
    dates = hdrs.get("Date", [])
    if len(dates) != 1 or dates[0] not in _dates(res["w0"], res["w1"]):
        bad("clean.date", f"{ctx}: Date {dates!r} not within the run's wall-clock span")
    # body
    want = mo["body"]
    enc = r1.get("content-encoding")
    if r1.delim == NOBODY:
        if method == "HEAD" and r1.content_length is not None and r1.code not in (204, 304):
            n = _gzip_len(want) if enc else len(want)
            if enc and mo["flushes_before_finish"]:
                pass  # streamed gzip: no Content-Length is produced
            elif r1.content_length != n:
                bad("head.content_length",
                    f"{ctx}: Content-Length {r1.content_length} on the HEAD response, a GET would "
                    f"carry {n} bytes" + (" (gzip)" if enc else ""),
                    "head.content_length" + ("/gzip" if enc else ""))
            else:
                probe("head_content_length_checked")
    else:
        dec, whole = decode_content(r1.body, enc)
        if dec is None or not whole:
            bad("clean.body_encoding", f"{ctx}: gzip body does not decode to a complete stream")
        elif dec != want:
            n = next((i for i, (a, b) in enumerate(zip(dec, want)) if a != b),
                     min(len(dec), len(want)))
            bad("clean.body", f"{ctx}: body differs from what the handler wrote: {len(dec)} bytes "
                f"vs {len(want)} expected, first difference at {n}",
                "clean.body/" + r1.delim)
        else:
            probe("body_compared")
    return outcome
