"""C34 - conditions and events wake exactly the right waiters.

Real tornado.locks.Condition / Event on the SimLoop, driven op by op together
with ref.models_sync.ConditionModel / EventModel (see props/_syncrig.py for
the shared machinery: timeout specs, gaps, expiry observation, comparison).

Condition: wait([timeout]) / notify(n) / notify_all.  The model is exact:
notify(n) wakes the first min(n, live) waiters in arrival order with True; a
waiter is live until its future carries False (timer ran).

Event: wait([timeout]) / set / clear.  A wait without timeout returns the inner
future (resolved synchronously by set()); with a timeout it returns
gen.with_timeout's future, resolved one iteration after set() - or by the
timer.  Model: set strictly before the deadline => must succeed; never set
before the timer was seen to have run => TimeoutError; set at/after the
deadline but before the timer ran => either (timers may be late).
Event._waiters iteration order is permuted through the OrderedSet hook.
"""

from sim.env import SimEnv
from props import _syncrig as R
from ref.models_sync import ConditionModel, EventModel, PENDING, OK, WOKEN, EITHER, TIMEOUT

ID = "C34"
LEVEL = "exploration"
QUICK_N = 40000
THOROUGH_N = 1600000
CHUNK = 500
RULE = ("gen(seed): object kind (Condition | Event), 3..24 ops (wait [abs deadline | timedelta | "
        "zero | past], notify(n in 0..4), notify_all / set, clear), a gap before every op (same "
        "callback | one iteration | idle | advance to a pending deadline -1/0/+1 | advance d), "
        "lateness tape, Event._waiters permutation; swarm weights per run. non-trivial = measured "
        "in the generated part of the run: >=2 waits blocked AND >=1 blocked wait woken by "
        "notify/set AND >=1 wait timed out; distinct = distinct scenario hash")
COMPONENTS = {
    "real": ["tornado.locks.Condition/Event/_TimeoutGarbageCollector", "tornado.gen.with_timeout/"
             "chain_future", "tornado.ioloop.IOLoop.add_timeout/remove_timeout",
             "tornado.platform.asyncio.BaseAsyncIOLoop.call_at", "asyncio.Future/Handle/TimerHandle"],
    "stub": ["event loop clock + timer dispatch (sim.loop.SimLoop)", "time.time (SimEnv proxy)",
             "iteration order of Event._waiters (tornado._verif.OrderedSet, permuted)"],
}
ASSUMPTIONS = [
    "a condition waiter counts as timed out from the moment its future carries False, not from "
    "its deadline: a notify at/after the deadline but before the timer callback ran may wake it",
    "Event.wait with timeout: set() at/after the deadline but before the timer callback was "
    "observed to have run may legally complete the wait or raise TimeoutError",
    "no order is demanded among waiters woken by one Event.set(); timeouts observed within one "
    "gap are an unordered group",
    "'no residue' is observed publicly (a later notify/set changes no future, repr(condition) "
    "shows no waiters after notify_all) and, where the attribute exists, as len(Event._waiters) "
    "== number of model waiters still blocked whenever the loop is idle",
]


def gen(rng, tier, index):
    kind = rng.choice(["cond", "event"])
    nops = rng.randint(3, 24)
    if tier == "thorough" and rng.random() < 0.2:
        nops = rng.randint(20, 40)
    p_to = rng.choice([0.3, 0.6, 0.6, 0.85, 1.0])
    p_wait = rng.choice([0.45, 0.55, 0.7])
    mix = rng.choice(R.GAP_MIXES)
    burst_at = rng.randrange(nops) if (kind == "cond" and rng.random() < 0.015) else -1
    ops = []
    used = set()
    tn = 0
    waiting = 0
    for i in range(nops):
        g = R.gen_gap(rng, mix) if i else ["none"]
        if g[0] == "adv":
            tn += g[1]
        elif g[0] == "dl":
            fut = [x for x in used if x >= tn]
            if fut:
                tn = min(fut)
        if i == burst_at:
            ops.append({"op": "burst", "gap": g})
            continue
        r = rng.random()
        if r < p_wait and waiting < 6:
            ops.append({"op": "wait", "t": R.gen_timeout(rng, p_to, used, tn), "gap": g})
            waiting += 1
        elif kind == "cond":
            if rng.random() < 0.2:
                ops.append({"op": "notify_all", "gap": g})
                waiting = 0
            else:
                k = rng.choice([0, 1, 1, 1, 2, 2, 3, 4])
                ops.append({"op": "notify", "n": k, "gap": g})
                waiting = max(0, waiting - k)
        else:
            if rng.random() < 0.55:
                ops.append({"op": "set", "gap": g})
                waiting = 0
            else:
                ops.append({"op": "clear", "gap": g})
    return {"property": ID, "version": 1, "obj": {"kind": kind}, "ops": ops,
            "permute": rng.choice([0, 0, 1, 2, 3, 64, 65, 67]),
            "tapes": R.gen_tapes(rng)}


def validate(scn):
    try:
        kind = scn["obj"]["kind"]
        if kind not in ("cond", "event"):
            return False
        allowed = ("wait", "notify", "notify_all", "burst") if kind == "cond" else \
            ("wait", "set", "clear")
        for op in scn["ops"]:
            if op["op"] not in allowed or not R.valid_gap(op.get("gap")):
                return False
            if op["op"] == "wait" and not R.valid_timeout(op.get("t")):
                return False
            if op["op"] == "notify" and not (isinstance(op.get("n"), int) and 0 <= op["n"] <= 50):
                return False
        return isinstance(scn.get("permute", 0), int) and isinstance(scn.get("tapes", {}), dict)
    except Exception:
        return False


def run(scn, full_log=False):
    from tornado import locks, _verif

    kind = scn["obj"]["kind"]
    viol = []
    probes = {}
    outcome = {}

    with SimEnv(scn.get("tapes"), max_iters=20000, full_log=full_log) as env:
        _verif.OrderedSet.permute = R.permuter(scn.get("permute", 0))
        model = ConditionModel() if kind == "cond" else EventModel()
        rig = R.Rig(env, model, kind, viol, probes)
        bad, probe = rig.bad, rig.probe
        st = {"obj": None}
        mirror = []  # condition waiters in arrival order, dead ones included (probe only)

        def wait(op, now):
            obj = st["obj"]
            has, arg, dl = rig.timeout(op.get("t"))
            wid = rig.new_wid()
            try:
                fut = obj.wait(arg) if has else obj.wait()
            except Exception as e:
                bad(kind + ".wait_raised", f"wait raised {type(e).__name__}: {e}",
                    f"{kind}.wait_raised/{type(e).__name__}")
                return
            s = model.wait(wid, dl, now)
            rig.track(wid, fut)
            rig.after_create(wid)
            if s == PENDING:
                mirror.append(wid)
                probe("wait_blocked")
            else:
                probe("wait_on_set_event")
            env.log.ev("wait", wid, s)

        def notify(op, now):
            obj = st["obj"]
            live = len(model.queue)
            due = [w for w in model.queue if model.enabled(w, now)]
            try:
                if op["op"] == "notify_all":
                    obj.notify_all()
                    woken = model.notify_all()
                else:
                    n = op.get("n", 1)
                    obj.notify(n)
                    woken = model.notify(n)
                    if n > live:
                        probe("notify_more_than_live")
                    if n and not live:
                        probe("notify_with_no_live_waiter")
            except Exception as e:
                bad("cond.notify_raised", f"{op['op']} raised {type(e).__name__}: {e}",
                    f"cond.notify_raised/{type(e).__name__}")
                return
            env.log.ev("notify", op.get("n"), tuple(woken))
            rig.resolved_by_op(woken)
            if woken:
                dead = 0
                while mirror and mirror[0] != woken[-1]:
                    if mirror[0] not in woken:
                        dead += 1
                    mirror.pop(0)
                if mirror:
                    mirror.pop(0)
                if dead:
                    probe("notify_skips_dead_waiter")
                if len(woken) >= 2:
                    probe("notify_wakes_several")
                if any(w in due for w in woken):
                    probe("notify_wakes_waiter_whose_timer_is_due")
            if due:
                probe("notify_while_timer_due")

        def do_op(op):
            now = rig.now()
            k = op["op"]
            obj = st["obj"]
            if k == "wait":
                wait(op, now)
            elif k in ("notify", "notify_all"):
                notify(op, now)
            elif k == "burst":
                probe("burst_101_zero_timeouts")
                for _ in range(101):
                    wait({"t": ["zero"]}, now)
            elif k == "set":
                unreaped = [w for w in rig.futs if w not in rig.order
                            and model.waiter(w).state in (OK, WOKEN, EITHER, TIMEOUT)]
                if model.value:
                    probe("set_while_set")
                elif unreaped:
                    probe("set_with_unreaped_finished_waiters")
                try:
                    obj.set()
                except Exception as e:
                    bad("event.set_raised", f"set raised {type(e).__name__}: {e}",
                        f"event.set_raised/{type(e).__name__}")
                hit = model.set(now)
                env.log.ev("set", tuple(hit))
                for w in hit:
                    s = model.waiter(w).state
                    if s == EITHER:
                        probe("set_at_or_after_deadline_before_timer_ran")
                    elif s == WOKEN:
                        probe("set_before_deadline_of_timed_wait")
                    else:
                        rig.n_served += 1
            elif k == "clear":
                if any(model.waiter(w).state in (WOKEN, EITHER) for w in rig.open):
                    probe("clear_before_woken_wait_completed")
                try:
                    obj.clear()
                except Exception as e:
                    bad("event.clear_raised", f"clear raised {type(e).__name__}: {e}")
                model.clear()
                env.log.ev("clear")
            if kind == "event" and obj.is_set() != model.value:
                bad("event.is_set", f"is_set() {obj.is_set()} ; model {model.value}")

        def residue_check():
            obj = st["obj"]
            if kind != "event":
                return
            ws = getattr(obj, "_waiters", None)
            if ws is None:
                return
            want = len(model.waiting)
            if len(ws) != want:
                bad("event.residue_internal",
                    f"loop idle: Event._waiters holds {len(ws)} futures, {want} waits are blocked")

        orig_observe = rig.observe

        def observe(idle):
            orig_observe(idle)
            if idle and not viol:
                residue_check()
        rig.observe = observe

        async def main():
            st["obj"] = locks.Condition() if kind == "cond" else locks.Event()
            obj = st["obj"]
            done = await R.drive(rig, scn["ops"], do_op)
            outcome["ops_done"] = done
            outcome["blocked"] = len(rig.blocked)
            outcome["served"] = rig.n_served + rig.n_event_served
            outcome["expired"] = rig.n_expired
            if viol:
                return
            # ---- epilogue
            dls = model.pending_deadlines()
            ep = [{"op": "nop", "gap": ["adv", max(1, (dls[-1] - rig.now() + 1) if dls else 1)]}]
            if kind == "cond":
                ep += [{"op": "notify_all", "gap": ["none"]}]
                await R.drive(rig, ep, do_op)
                if viol:
                    return
                if repr(obj) != "<Condition>":
                    bad("cond.residue_repr", f"after notify_all repr is {repr(obj)}")
                await R.drive(rig, [{"op": "notify", "n": 1, "gap": ["idle"]},
                                    {"op": "nop", "gap": ["idle"]}], do_op)
            else:
                ep += [{"op": "set", "gap": ["none"]}, {"op": "clear", "gap": ["idle"]},
                       {"op": "set", "gap": ["none"]}, {"op": "nop", "gap": ["idle"]}]
                await R.drive(rig, ep, do_op)
            if not viol and rig.open:
                bad(kind + ".waiter_left", f"waiters {rig.open} unresolved after the epilogue")

        status = env.run(main())
        if status != "done":
            bad("harness." + status.split(":")[0],
                f"{status}: {getattr(env, 'main_exception', None)!r}")
        rig.check_order()
        rig.check_logs()
        stt = env.stats()
        stt["probes"].update(probes)
        nontrivial = (outcome.get("blocked", 0) >= 2 and outcome.get("served", 0) >= 1
                      and outcome.get("expired", 0) >= 1)
        return {"violations": viol, "nontrivial": nontrivial, "stats": stt,
                "log_head": env.log.head, "log_full": env.log.full, "outcome": outcome}
