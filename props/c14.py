"""C14 - WebSocket messages arrive intact and in order under every configuration.

Three rigs, chosen per scenario (knobs.mode):
  raw_client  raw frame peer (ref/ws_codec.py) -> real WebSocketHandler on a real HTTPServer
  raw_server  real websocket_connect client -> raw frame peer listening via net.raw_listen
  real        real websocket_connect client <-> real WebSocketHandler
"in" = messages towards the Tornado application that is observed first (server in
raw_client/real, client in raw_server); "out" = messages written by that
application (in `real` mode: by the server, received by the real client).

The raw peer fragments messages at arbitrary points, puts ping/pong frames in the
gaps, sets RSV1 on the first fragment only, runs its own deflate stream under
the *agreed* parameters (the ones in the handshake response), and cuts its byte
stream anywhere (incl. inside frame headers and masks).  Oracle: what each
application was handed equals what the other side sent (type, content, order,
no duplicates); Tornado's frames decode under a strict independent receiver;
pongs echo pings; a connection carrying only valid traffic is still open when
the workload ends.
"""

from ref import ws_codec as W
from sim.env import SimEnv, UNIT  # noqa: F401

from . import _speedups
from . import _wsrig as R

ID = "C14"
LEVEL = "exploration"
QUICK_N = 40000
THOROUGH_N = 1400000
CHUNK = 250
NO_SHRINK = ()
RULE = ("gen(seed): rig mode (raw client peer / raw server peer / real client+server), mask routine "
        "(C / Python), permessage-deflate offer or response (context takeover flags, window bits "
        "9-15, level, mem level, or none), max_message_size = largest incoming message, message "
        "lists both ways over length boundaries 0/125/126/127/65535/65536/70000, text (UTF-8 incl. "
        "astral) and binary, compressible / incompressible / repeated across messages; raw peer: "
        "fragment cut points, control frames in gaps, per-message deflate strategy, masks, byte "
        "stream segmentation pattern (optionally one byte per header octet); application pacing "
        "(sync / async on_message, read loop pauses), window, peer drain rate, recv_cap / send_cap / "
        "defer / spurious / delay / cost tapes. non-trivial = handshake completed AND >=2 messages "
        "delivered in total AND at least one of: a fragmented message, a compressed frame on the "
        "wire, >=2 arrival instants inside one connection's frame bytes, or a fired I/O "
        "perturbation (short read, partial send, stall, deferred readiness); distinct = scenario hash")
COMPONENTS = {
    "real": ["tornado.websocket.WebSocketHandler/WebSocketProtocol13/_PerMessageDeflate*",
             "tornado.websocket.websocket_connect/WebSocketClientConnection",
             "tornado.web.Application", "tornado.httpserver.HTTPServer", "tornado.http1connection",
             "tornado.simple_httpclient", "tornado.tcpclient", "tornado.iostream.IOStream",
             "tornado.util._websocket_mask_python", "tornado/speedups.c websocket_mask (rebuilt)",
             "zlib"],
    "stub": ["event loop poller+clock (SimLoop)", "sockets/network (SimNet)",
             "remote frame peer (props/_wsrig.RawWS + ref/ws_codec.py)", "os.urandom (tape)"],
}
ASSUMPTIONS = [
    "ref/ws_codec.py implements RFC 6455 framing and RFC 7692 correctly (it is the trusted reference)",
    "the raw peer follows the extension parameters of the handshake *response* (agreed parameters)",
    "a sender whose deflate output would exceed the receiver's max_message_size sends that message "
    "uncompressed (the limit applies to the frame as well as to the inflated message)",
    "RFC 6455 5.5.3: a pong may answer only the most recent ping; the oracle requires an in-order "
    "subsequence ending with the last ping",
]

_speedups.ensure()

LENS = [0, 1, 2, 5, 20, 60, 124, 125, 126, 127, 128, 300, 1000]
BIG = [4000, 65535, 65536, 65537, 70000]
STRATS = ["sync", "sync", "sync", "full", "multi", "stored", "final"]


# ---------------------------------------------------------------------------
# generation


def _gen_data(rng, t, n, pool):
    kinds = R.TEXT_KINDS if t == 1 else R.BIN_KINDS
    if pool and rng.random() < 0.3:
        d = dict(rng.choice(pool))
        if d["k"] in kinds and (t == 2 or d["k"] != "utf" or True):
            return d
    d = {"k": rng.choice(kinds), "n": n, "s": rng.getrandbits(12),
         "p": rng.choice([8, 64, 700, 3000])}
    pool.append(d)
    return d


def _gen_ctl_payload(rng, prefix, tiny=False):
    k = rng.random()
    if tiny:
        return "hex:" + prefix.hex()
    if k < 0.3:
        body = b""
    elif k < 0.7:
        body = bytes(rng.getrandbits(8) for _ in range(rng.randint(1, 6)))
    else:
        body = bytes(rng.getrandbits(8) for _ in range(125 - len(prefix)))
    return "hex:" + (prefix + body).hex()


def gen(rng, tier, index):
    thorough = tier == "thorough"
    mode = rng.choice(["raw_client"] * 5 + ["raw_server"] * 3 + ["real"] * 2)
    raw = mode != "real"
    big_run = rng.random() < (0.12 if thorough else 0.025)
    # ---- compression
    deflate = None
    if rng.random() < 0.72:
        params = {}
        if raw:
            if rng.random() < 0.3:
                params["server_max_window_bits"] = rng.randint(9, 15)
            if rng.random() < 0.3:
                params["client_max_window_bits"] = rng.randint(9, 15)
            elif mode == "raw_client" and rng.random() < 0.3:
                params["client_max_window_bits"] = None
            if rng.random() < 0.25:
                params["server_no_context_takeover"] = None
            if rng.random() < (0.25 if mode == "raw_client" else 0.06):
                params["client_no_context_takeover"] = None
        opts = {}
        if rng.random() < 0.4:
            opts["compression_level"] = rng.choice([0, 1, 6, 9])
        if rng.random() < 0.3:
            opts["mem_level"] = rng.choice([1, 4, 8, 9])
        deflate = {"params": params, "opts": opts if rng.random() < 0.93 else None,
                   "peer_level": rng.choice([1, 6, 9]), "peer_mem": rng.choice([1, 8, 9]),
                   "peer_reset": rng.random() < 0.25}
    # ---- messages
    pool = []
    n_in = rng.choice([0, 1, 1, 2, 2, 3, 4, 6])
    n_out = rng.choice([0, 0, 1, 1, 2, 3, 5])
    if n_in + n_out == 0:
        n_in = 2
    big_slot = rng.randrange(n_in + n_out) if big_run else -1

    def length(slot):
        if slot == big_slot:
            return rng.choice(BIG)
        n = rng.choice(LENS)
        if n > 20 and rng.random() < 0.2:
            n += rng.randint(-3, 3)
        return n

    limit = rng.random() < 0.3
    # with a size limit, control payloads stay empty in most runs (Tornado counts them
    # against max_message_size - see findings/C14-ctl-counted-against-limit)
    tiny = limit and rng.random() < 0.9
    items_in = []
    for i in range(n_in):
        t = rng.choice([1, 2])
        n = length(i)
        m = {"t": t, "d": _gen_data(rng, t, n, pool)}
        if raw:
            m["mk"] = rng.getrandbits(10)
            z = deflate is not None and rng.random() < 0.8
            m["z"] = rng.choice(STRATS) if z else None
            if m["z"] == "final" and rng.random() < 0.85:
                m["z"] = "sync"  # BFINAL blocks stay rare
            cuts = []
            if rng.random() < 0.45:
                ln = m["d"]["n"]
                for _ in range(rng.choice([1, 1, 2, 3, 5])):
                    cuts.append(rng.choice([0, 1, 2, 3, 7, max(1, ln // 2), max(1, ln - 1), 125,
                                            126, 127, rng.randint(0, max(1, ln))]))
            m["cuts"] = cuts
            ctl = []
            inner_p = 0.5 if not (m["z"] and cuts) else 0.05
            if cuts and rng.random() < inner_p:
                every = rng.random() < 0.5
                for g in range(1, len(cuts) + 1):
                    if every or rng.random() < 0.5:
                        op = rng.choice([9, 9, 10])
                        ctl.append([g, op, _gen_ctl_payload(rng, b"", tiny)])
            if rng.random() < 0.3:
                op = rng.choice([9, 9, 10])
                ctl.append([rng.choice([0, len(cuts) + 1]), op, _gen_ctl_payload(rng, b"", tiny)])
            m["ctl"] = ctl
        elif rng.random() < 0.25:
            items_in.append({"c": 9, "p": _gen_ctl_payload(rng, b"A", tiny)})
        items_in.append(m)
    items_out = []
    for i in range(n_out):
        t = rng.choice([1, 2])
        n = length(n_in + i)
        m = {"t": t, "d": _gen_data(rng, t, n, pool), "pause": rng.choice([0, 0, 0, -1, 1, 3]),
             "await": rng.random() < 0.4}
        if rng.random() < 0.2:
            items_out.append({"c": 9, "p": _gen_ctl_payload(rng, b"S" if mode == "real" else b"A", tiny)})
        items_out.append(m)
    total_in = sum(m["d"]["n"] for m in items_in if "d" in m)
    total_out = sum(m["d"]["n"] for m in items_out if "d" in m)
    # ---- granularity: keep the number of I/O events per run around a few hundred
    est = total_in + total_out + 400
    g = max(1, est // 200)  # the smallest chunk used by *cyclic* perturbations
    fine = rng.random() < 0.12  # a few runs go byte by byte regardless (small ones only)
    if fine and est < 1500:
        g = 1
    # ---- segmentation of the raw peer's stream
    seg = {"pat": [], "hdr": rng.random() < 0.2 and total_in < 5000}
    if rng.random() < 0.75:
        gi = max(1, (total_in + 200) // 150) if not (fine and est < 1500) else 1
        for _ in range(rng.randint(1, 6)):
            ln = rng.choice([gi, gi + 1, 2 * gi, 3 * gi + 1, 7 * gi, 13 * gi, 64 * gi, 0, 0])
            seg["pat"].append([ln, rng.choice([0, 1, 1, 2, 5])])
    # ---- tapes
    tapes = {}
    r = rng.random()
    if r < 0.1:
        tapes["recv_cap"] = {"v": [g], "cycle": True}
    elif r < 0.55:
        cyc = rng.random() < 0.6
        lo = g if cyc else 1
        tapes["recv_cap"] = {"v": [rng.choice([0, 0, lo, lo + 1, 2 * lo + 1, 4 * lo, 6 * lo, 10 * lo,
                                               14 * lo, 130 * lo])
                                   for _ in range(rng.randint(1, 10))], "cycle": cyc}
    if rng.random() < 0.3:
        cyc = rng.random() < 0.5
        lo = g if cyc else 1
        v = [rng.choice([0, 0, lo, 2 * lo, 5 * lo, 9 * lo + 1, 100 * lo, -1])
             for _ in range(rng.randint(1, 8))]
        if all(x < 0 for x in v):
            v.append(0)  # an endless EAGAIN is not a legal socket
        tapes["send_cap"] = {"v": v, "cycle": cyc}
    if rng.random() < 0.2:
        tapes["defer"] = [rng.choice([0, 1]) for _ in range(12)]
    if rng.random() < 0.15:
        tapes["spurious"] = [rng.choice([0, 1]) for _ in range(10)]
    if rng.random() < 0.2:
        tapes["delay"] = [rng.choice([0, 1, 3]) for _ in range(10)]
    if rng.random() < 0.1:
        tapes["cost"] = [rng.choice([0, 1]) for _ in range(10)]
    if rng.random() < 0.15:
        tapes["order"] = [rng.choice([0, 1, 65]) for _ in range(10)]
    if rng.random() < 0.5:
        tapes["urandom"] = [rng.choice([0, 1, 255, rng.randint(2, 254)]) for _ in range(6)]
    window = rng.choice([g, 5 * g, 64 * g, 64 * g, 1024 * g, 1024 * g] + [65536] * 6)
    drain = None
    if raw and rng.random() < 0.15:
        drain = [rng.choice([g, 7 * g, 100 * g]), rng.choice([1, 2])]
    knobs = {
        "mode": mode,
        "mask": rng.choice(["c", "python"]),
        "deflate": deflate,
        "limit": limit,
        "pattern": [rng.choice([0, 0, -1, 1, 2, 7]) for _ in range(rng.randint(0, 4))],
        "window": window,
        "drain": drain,
        "client_cb": rng.random() < 0.35,
        "key": rng.getrandbits(8),
    }
    return {"property": ID, "version": 1, "knobs": knobs, "in": items_in, "out": items_out,
            "seg": seg, "tapes": tapes}


def validate(scn):
    try:
        k = scn["knobs"]
        if k["mode"] not in ("raw_client", "raw_server", "real") or k["mask"] not in ("c", "python"):
            return False
        if not isinstance(k.get("window"), int) or k["window"] < 1:
            return False
        d = k.get("drain")
        if d is not None and not (isinstance(d, list) and len(d) == 2 and d[0] >= 1 and d[1] >= 1):
            return False
        for m in list(scn["in"]) + list(scn["out"]):
            if not isinstance(m, dict):
                return False
            if "c" in m:
                if len(R.expand_data(m["p"])) > 125:
                    return False
                continue
            if m["t"] not in (1, 2):
                return False
            data = R.expand_data(m["d"])
            if m["t"] == 1:
                data.decode("utf-8")
            for c in m.get("ctl", ()):
                if not (isinstance(c, list) and len(c) == 3 and c[1] in (9, 10)
                        and len(R.expand_data(c[2])) <= 125):
                    return False
            if any((not isinstance(c, int)) or c < 0 for c in m.get("cuts", ())):
                return False
            if m.get("z") not in (None, "sync", "full", "multi", "stored", "final"):
                return False
        sc = scn.get("tapes", {}).get("send_cap")
        if isinstance(sc, dict) and sc.get("cycle") and sc.get("v") and all(x < 0 for x in sc["v"]):
            return False
        df = k.get("deflate")
        if df is not None and df.get("opts"):
            o = df["opts"]
            if not 0 <= o.get("compression_level", 6) <= 9 or not 1 <= o.get("mem_level", 8) <= 9:
                return False
        if df is not None and not (0 <= df["peer_level"] <= 9 and 1 <= df["peer_mem"] <= 9):
            return False
        if df is not None:
            for kk, v in df["params"].items():
                if kk.endswith("_max_window_bits") and v is not None and not 9 <= v <= 15:
                    return False
        return True
    except Exception:
        return False


# ---------------------------------------------------------------------------
# the run


def _fragments(payload, cuts):
    frags = []
    pos = 0
    for c in cuts:
        frags.append(payload[pos:pos + c])
        pos += c
    frags.append(payload[pos:])
    return frags


def _lenclass(n):
    return "l7" if n < 126 else ("l16" if n < 65536 else "l64")


def run(scn, full_log=False):
    knobs = scn["knobs"]
    mode = knobs["mode"]
    raw = mode != "real"
    viol = []
    probes = {}
    state = {"alive_at_end": None, "handshake": None, "writer_err": None, "phase": "start",
             "pings_sent": [], "upongs_sent": [], "uncompressed_fallback": 0}

    def bad(rule, msg, key=None):
        viol.append({"rule": rule, "key": key or rule, "msg": msg})

    def probe(name, n=1):
        probes[name] = probes.get(name, 0) + n

    # ---- expected messages
    in_items = [m for m in scn["in"] if isinstance(m, dict)]
    out_items = [m for m in scn["out"] if isinstance(m, dict)]
    in_msgs = [(m["t"], R.expand_data(m["d"])) for m in in_items if "c" not in m]
    out_msgs = [(m["t"], R.expand_data(m["d"])) for m in out_items if "c" not in m]
    deflate = knobs.get("deflate")
    topts = deflate["opts"] if deflate is not None else None  # Tornado-side compression_options
    mms = None
    if knobs.get("limit"):
        sizes = [len(d) for _, d in in_msgs] + ([len(d) for _, d in out_msgs] if not raw else [])
        mms = max(sizes) if sizes and max(sizes) > 0 else None
        if mms is not None and not raw and topts is not None:
            # Tornado's own sender always compresses: leave room for zlib's worst case
            # (deflateBound with a small memLevel: n + n/8 + n/64 + 11)
            mms += 64 + mms // 7
    in_feats = []
    app_pings_in = [R.expand_data(m["p"]) for m in in_items if "c" in m]  # real mode: client pings
    app_pings_out = [R.expand_data(m["p"]) for m in out_items if "c" in m]
    if mms is not None and any(len(p) > mms for p in app_pings_in + app_pings_out):
        state["ctl_over_limit"] = True  # their echoes are control frames longer than the limit

    with _speedups.use(knobs.get("mask", "c")) as mask_eff, \
            SimEnv(scn.get("tapes"), max_iters=600_000, max_time=400.0,
                   window=knobs.get("window", 65536), full_log=full_log) as env:
        from tornado.iostream import StreamClosedError
        from tornado.websocket import WebSocketClosedError
        net = env.net
        loop = env.loop
        srec = R.SideRec(env, "server")
        crec = R.SideRec(env, "client")
        box = {"ws": None, "tap": None, "sfd": None, "cfd": None}
        pending_writes = []

        def new_socket(s):
            if box["cfd"] is None:
                box["cfd"] = s._fd
        net.on_socket_created = new_socket

        async def drainer(peer, chunk, interval):
            import asyncio
            while True:
                await peer.wait(lambda: len(peer.rx.rbuf) > 0 or peer.rx.fin or peer.got_rst)
                if peer.got_rst or (peer.rx.fin and not peer.rx.rbuf):
                    peer.consume(0)
                    peer._wake()
                    return
                peer.consume(chunk)
                peer._wake()
                await asyncio.sleep(interval * UNIT)

        async def app_writer(target, items, who):
            """The Tornado application under test writes its messages / pings."""
            for i, m in enumerate(items):
                await R.pace(env, m.get("pause", 0))
                try:
                    if "c" in m:
                        target.ping(R.expand_data(m["p"]))
                        continue
                    data = R.expand_data(m["d"])
                    if m["t"] == 1:
                        fut = target.write_message(data.decode("utf-8"))
                    else:
                        fut = target.write_message(data, binary=True)
                    if m.get("await"):
                        await fut
                    else:
                        pending_writes.append(fut)
                except (WebSocketClosedError, StreamClosedError):
                    state["writer_err"] = (who, i)
                    return

        def send_in(ws, defl):
            """The raw peer puts all its frames on the wire."""
            used_final = False
            for m in in_items:
                if "c" in m:
                    continue
                data = R.expand_data(m["d"])
                z = m.get("z") if defl is not None else None
                payload = data
                prev_final = used_final
                if z:
                    comp = defl.compress(data, z, limit=mms)
                    if comp is None:
                        state["uncompressed_fallback"] += 1
                        z = None
                    else:
                        payload = comp
                        used_final = used_final or z == "final"
                cuts = [c for c in m.get("cuts", ()) if isinstance(c, int) and c >= 0][:40]
                frags = _fragments(payload, cuts)
                ctl = {}
                for c in m.get("ctl", ()):
                    ctl.setdefault(c[0], []).append(c)
                feats = []
                if z:
                    feats.append("z")
                    probe("in_compressed")
                    probe("strategy_" + z)
                if len(frags) > 1:
                    feats.append("frag")
                    probe("in_fragmented")
                    if any(len(f) == 0 for f in frags):
                        probe("zero_length_fragment")
                if any(1 <= g < len(frags) for g in ctl):
                    feats.append("ctl")
                    probe("ctl_between_fragments")
                    if z:
                        probe("ctl_between_compressed_fragments")
                if mms is not None and len(data) == mms:
                    feats.append("lim")
                    probe("in_at_max_message_size")
                if prev_final and z:
                    feats.append("after_bfinal")
                in_feats.append(feats)
                probe("in_len_%d" % len(data) if len(data) in (0, 125, 126, 127, 65535, 65536, 70000)
                      else "in_len_other")
                mk = m.get("mk", 0)
                for j in range(len(frags) + 1):
                    for c in ctl.get(j, ()):
                        p = R.expand_data(c[2])
                        buffered = sum(len(x) for x in frags[:j]) if 1 <= j < len(frags) else 0
                        if mms is not None and len(p) + buffered > mms:
                            state["ctl_over_limit"] = True
                            probe("ctl_plus_buffer_over_limit")
                        ws.send_frame(c[1], p, mask=R.mask_for(mk + 3, j))
                        (state["pings_sent"] if c[1] == 9 else state["upongs_sent"]).append(p)
                    if j < len(frags):
                        op = (1 if m["t"] == 1 else 2) if j == 0 else 0
                        ws.send_frame(op, frags[j], fin=(j == len(frags) - 1),
                                      rsv=W.RSV1 if (z and j == 0) else 0,
                                      mask=R.mask_for(mk, j))
                for g in sorted(ctl):
                    if g > len(frags):
                        for c in ctl[g]:
                            p = R.expand_data(c[2])
                            if mms is not None and len(p) > mms:
                                state["ctl_over_limit"] = True
                                probe("ctl_plus_buffer_over_limit")
                            ws.send_frame(c[1], p, mask=R.mask_for(mk + 3, g))
                            (state["pings_sent"] if c[1] == 9 else state["upongs_sent"]).append(p)

        async def finish_raw(ws, rec, n_app_pings):
            """Wait for everything to be delivered, then observe liveness and close."""
            peer = ws.peer
            state["phase"] = "wait_in"
            await rec.wait(lambda: len(rec.messages) >= len(in_msgs) or rec.closed)
            state["phase"] = "wait_out"
            await ws.wait(lambda: len(ws.rx.messages()) >= len(out_msgs) or bool(ws.rx.errors))
            state["phase"] = "wait_pong"
            np = len(state["pings_sent"])
            if np:
                last = state["pings_sent"][-1]

                def answered():
                    pg = [e[1] for e in ws.rx.events if e[0] == "pong"]
                    return bool(pg) and pg[-1] == last and len(pg) >= 1 and \
                        len(rec.pings) >= np
                await ws.wait(lambda: answered() or bool(ws.rx.errors))
            nup = len(state["upongs_sent"])
            state["phase"] = "wait_app_pong"
            await rec.wait(lambda: len(rec.pongs) >= n_app_pings + nup or rec.closed
                           or peer.ended())
            state["phase"] = "settle"
            for f in pending_writes:
                try:
                    await f
                except WebSocketClosedError:
                    state["writer_err"] = ("late", -1)
            await loop.idle()
            ws.pump()
            state["alive_at_end"] = (not peer.ended() and rec.closed == 0
                                     and ws.rx.close_idx is None)
            state["phase"] = "closing"
            if not peer.closed:
                ws.send_frame(W.OP_CLOSE, W.close_payload(1000))
            await peer.wait_eof()
            ws.pump()
            peer.close()
            await rec.wait(lambda: rec.closed)
            state["phase"] = "done"

        def choose_response(offers):
            if deflate is None:
                return None
            if not any(name == "permessage-deflate" for name, _ in offers):
                return None
            return dict(deflate["params"])

        async def main_raw_client():
            server, ls = R.start_ws_server(env, srec, compression=topts,
                                           pattern=knobs.get("pattern"), max_message_size=mms)
            peer, ssock = net.raw_connect(ls, window=knobs.get("window", 65536))
            box["sfd"] = ssock._fd
            dr = knobs.get("drain")
            dtask = None
            if dr:
                peer.auto = False
                dtask = loop.create_task(drainer(peer, dr[0], dr[1]))
            ws = R.RawWS(env, peer, "client", scn.get("seg"))
            box["ws"] = ws
            offer = dict(deflate["params"]) if deflate is not None else None
            ok = await ws.handshake_client(offer, knobs.get("key", 1))
            state["handshake"] = ok
            if not ok:
                peer.close()
                await R.stop_server(server)
                return
            ws.make_receiver()
            ws.start_reader()
            defl = None
            if deflate is not None:
                defl = ws.make_deflater(deflate["peer_level"], deflate["peer_mem"],
                                        deflate["peer_reset"])
            await srec.wait(lambda: srec.opened or srec.closed)
            writer = loop.create_task(app_writer(srec.handler, out_items, "server"))
            send_in(ws, defl)
            await writer
            await finish_raw(ws, srec, len(app_pings_out))
            await R.stop_server(server)
            if dtask is not None:
                await dtask

        async def main_raw_server():
            started = loop.create_future()

            async def script(ws):
                ok = await ws.handshake_server(choose_response)
                state["handshake"] = ok
                if ok:
                    ws.make_receiver()
                    ws.start_reader()
                    defl = None
                    if ws.pmd is not None:
                        defl = ws.make_deflater(deflate["peer_level"], deflate["peer_mem"],
                                                deflate["peer_reset"])
                    send_in(ws, defl)
                else:
                    ws.peer.close()
                if not started.done():
                    started.set_result(ok)

            def factory(peer):
                dr = knobs.get("drain")
                if dr:
                    peer.auto = False
                    box["dtask"] = loop.create_task(drainer(peer, dr[0], dr[1]))
                ws = R.RawWS(env, peer, "server", scn.get("seg"))
                box["ws"] = ws
                box["script"] = loop.create_task(script(ws))

            net.raw_listen(R.HOST, 81, factory)
            with R.client_class_patch(crec):
                fut = R.client_connect(env, crec, port=81, compression=topts,
                                       max_message_size=mms,
                                       callback_mode=knobs.get("client_cb", False))
            try:
                conn = await fut
            except Exception as e:
                state["handshake"] = False
                state["connect_error"] = type(e).__name__
                return
            crec.conn = conn
            crec.opened = 1
            await started
            reader = None
            if not knobs.get("client_cb"):
                reader = loop.create_task(R.client_read_loop(env, crec, conn,
                                                             knobs.get("pattern")))
            writer = loop.create_task(app_writer(conn, out_items, "client"))
            await writer
            await finish_raw(box["ws"], crec, len(app_pings_out))
            if reader is not None:
                await reader
            if box.get("dtask") is not None:
                await box["dtask"]

        async def main_real():
            server, ls = R.start_ws_server(env, srec, compression=topts,
                                           pattern=knobs.get("pattern"), max_message_size=mms)
            tap = box["tap"] = R.WireTap(env)
            with R.client_class_patch(crec):
                fut = R.client_connect(env, crec, port=80,
                                       compression={} if topts is not None else None,
                                       max_message_size=mms,
                                       callback_mode=knobs.get("client_cb", False))
            try:
                conn = await fut
            except Exception as e:
                state["handshake"] = False
                state["connect_error"] = type(e).__name__
                return
            state["handshake"] = True
            crec.conn = conn
            crec.opened = 1
            await srec.wait(lambda: srec.opened or srec.closed)
            reader = None
            if not knobs.get("client_cb"):
                reader = loop.create_task(R.client_read_loop(env, crec, conn,
                                                             knobs.get("pattern")))
            w1 = loop.create_task(app_writer(conn, in_items, "client"))
            w2 = loop.create_task(app_writer(srec.handler, out_items, "server"))
            await w1
            await w2
            for m in in_items:
                if "c" not in m:
                    in_feats.append(["z"] if topts is not None else [])
            state["phase"] = "wait_in"
            await srec.wait(lambda: len(srec.messages) >= len(in_msgs) or srec.closed)
            state["phase"] = "wait_out"
            await crec.wait(lambda: len(crec.messages) >= len(out_msgs) or crec.closed)
            state["phase"] = "wait_pong"
            await crec.wait(lambda: len(crec.pongs) >= len(app_pings_in) or crec.closed)
            await srec.wait(lambda: len(srec.pongs) >= len(app_pings_out) or srec.closed)
            state["phase"] = "settle"
            for f in pending_writes:
                try:
                    await f
                except WebSocketClosedError:
                    state["writer_err"] = ("late", -1)
            await loop.idle()
            state["alive_at_end"] = srec.closed == 0 and crec.closed == 0
            state["phase"] = "closing"
            conn.close(1000)
            await crec.wait(lambda: crec.closed)
            await srec.wait(lambda: srec.closed)
            if reader is not None:
                await reader
            await R.stop_server(server)
            state["phase"] = "done"

        main = {"raw_client": main_raw_client, "raw_server": main_raw_server,
                "real": main_real}[mode]
        status = env.run(main())
        net.send_tap = None

        # ------------------------------------------------------------ oracle
        ws = box["ws"]
        if ws is not None:
            ws.pump()
        tor_in = crec if mode == "raw_server" else srec  # application receiving "in"
        hung = status in ("hang", "time_cap")
        phase = state["phase"]
        alive = state["alive_at_end"]
        if ws is not None and ws.rx is not None:
            cl = [e for e in ws.rx.events if e[0] == "close"]
            state["tornado_close"] = (cl[0][1], bytes(cl[0][2][:30])) if cl else None

        def fstr(feats_list, i):
            """Feature signature of message i, reduced to the part that identifies the
            kind of case (so that keys stay stable while a scenario is shrunk)."""
            f = feats_list[i] if i < len(feats_list) else []
            if "z" in f and "frag" in f and "ctl" in f:
                f = ["z", "frag", "ctl"]
            elif "after_bfinal" in f:
                f = ["z", "after_bfinal"]
            return "+".join(f)

        def prefix_check(direction, exp, got, feats_list):
            """Everything handed over so far must be a prefix of what was sent."""
            n = min(len(exp), len(got))
            for i in range(n):
                if got[i] != exp[i]:
                    if i > 0 and got[i] == exp[i - 1] and got[i][1]:
                        rule = direction + ".duplicate"
                    elif got[i][1] == exp[i][1]:
                        rule = direction + ".wrong_type"
                    else:
                        rule = direction + ".corrupt"
                    f = fstr(feats_list, i)
                    bad(rule, f"message {i}: got type {got[i][0]} {len(got[i][1])} bytes "
                              f"{got[i][1][:16]!r}.., sent type {exp[i][0]} {len(exp[i][1])} bytes "
                              f"{exp[i][1][:16]!r}.. (features {f or '-'})", f"{rule}/{mode}/{f}")
                    return False
            if len(got) > len(exp):
                bad(direction + ".extra", f"{len(got)} messages delivered, {len(exp)} sent",
                    f"{direction}.extra/{mode}")
                return False
            return True

        if state["handshake"] is not True:
            why = ws.why if ws is not None else ""
            bad("handshake.failed", f"mode {mode}: handshake did not complete ({why} "
                                    f"{state.get('connect_error', '')}) status {status}",
                f"handshake.failed/{mode}/{why or state.get('connect_error', '')}")
        else:
            out_feats = []
            zout = (ws.pmd is not None) if raw else (topts is not None)
            zf = []
            if zout:
                zf.append("z")
                if raw and ws.pmd.sender_args("server" if mode == "raw_client" else "client")[1]:
                    zf.append("nct")  # Tornado was told not to use context takeover
            for t, d in out_msgs:
                out_feats.append(zf + [_lenclass(len(d))])
            got_in = list(tor_in.messages)
            rx = ws.rx if raw else None
            if raw:
                got_out = rx.messages()
                if rx.errors:
                    idx, code = rx.errors[0]
                    fr = ws.frames[idx][0] if idx < len(ws.frames) else None
                    nmsg = len(got_out)
                    bad("out.protocol_error",
                        f"frame {idx} from Tornado is not acceptable to a conforming receiver: "
                        f"{code} {fr.brief() if fr else ''} (while receiving message {nmsg}, "
                        f"features {fstr(out_feats, nmsg) or '-'})",
                        f"out.protocol_error/{mode}/{code.split(':')[0]}/{'+'.join(zf)}")
            else:
                got_out = list(crec.messages)
            # 1. nothing wrong, duplicated or invented was handed over (always checked)
            ok_in = prefix_check("in", in_msgs, got_in, in_feats)
            ok_out = prefix_check("out", out_msgs, got_out, out_feats)
            for rec in (srec, crec):
                if rec.bad_types:
                    bad("deliver.bad_type", f"{rec.name} application was handed {rec.bad_types[:3]}",
                        f"deliver.bad_type/{mode}")
            # 2. pongs on the wire echo the pings
            if raw:
                pg = [e[1] for e in rx.events if e[0] == "pong"]
                sent = state["pings_sent"]
                j = 0
                okseq = True
                for p in pg:
                    while j < len(sent) and sent[j] != p:
                        j += 1
                    if j >= len(sent):
                        okseq = False
                        break
                    j += 1
                if not okseq:
                    bad("pong.not_an_echo", f"pong payloads {[x[:8] for x in pg][:6]} are not an "
                                            f"in-order echo of the pings sent", f"pong.not_an_echo/{mode}")
                if len(pg) == len(sent) and sent:
                    probe("every_ping_answered")
            # 3. completeness: one verdict, by how the run ended
            if not viol:
                miss_in = len(got_in) < len(in_msgs)
                miss_out = len(got_out) < len(out_msgs)
                if alive is True:
                    # workload complete and connection open: the control-frame callbacks must match
                    if raw:
                        if tor_in.pings != state["pings_sent"]:
                            bad("ping.delivery", f"on_ping saw {len(tor_in.pings)} payloads, "
                                                 f"{len(state['pings_sent'])} pings were sent (or content differs)",
                                f"ping.delivery/{mode}")
                        want = sorted(state["upongs_sent"] + app_pings_out)
                        if sorted(tor_in.pongs) != want:
                            bad("pong.delivery", f"on_pong saw {len(tor_in.pongs)} payloads, expected "
                                                 f"{len(want)}", f"pong.delivery/{mode}")
                    else:
                        if srec.pings != app_pings_in or crec.pongs != app_pings_in:
                            bad("ping.delivery", "client pings not delivered / echoed exactly",
                                f"ping.delivery/{mode}/client")
                        if crec.pings != app_pings_out or srec.pongs != app_pings_out:
                            bad("ping.delivery", "server pings not delivered / echoed exactly",
                                f"ping.delivery/{mode}/server")
                    if miss_in or miss_out:  # cannot happen: the waits above guarantee it
                        bad("harness.inconsistent", f"alive but in {len(got_in)}/{len(in_msgs)} "
                                                    f"out {len(got_out)}/{len(out_msgs)}")
                    if hung:
                        bad("valid.hang", f"workload delivered, then run status {status} in phase "
                                          f"{phase} (closing handshake never completed)",
                            f"valid.hang/{mode}/{phase}")
                elif hung and alive is None:
                    # quiescent with the connection open and something still owed
                    if miss_in:
                        i = len(got_in)
                        f = fstr(in_feats, i)
                        bad("in.lost", f"message {i} of {len(in_msgs)} ({len(in_msgs[i][1])} bytes, "
                                       f"type {in_msgs[i][0]}, features {f or '-'}) never delivered; "
                                       f"connection still open (status {status}, phase {phase})",
                            f"in.lost/{mode}/{f}")
                    elif miss_out:
                        i = len(got_out)
                        f = fstr(out_feats, i)
                        bad("out.lost", f"message {i} of {len(out_msgs)} ({len(out_msgs[i][1])} bytes, "
                                        f"features {f or '-'}) never reached the peer; connection still "
                                        f"open (status {status}, phase {phase})", f"out.lost/{mode}/{f}")
                    elif phase == "wait_pong":
                        bad("pong.missing", "the last ping was never answered (or on_ping not called)",
                            f"pong.missing/{mode}")
                    elif phase == "wait_app_pong":
                        bad("pong.delivery", "a pong sent by the peer never reached on_pong",
                            f"pong.delivery/{mode}")
                    else:
                        bad("valid.hang", f"run status {status} in phase {phase}",
                            f"valid.hang/{mode}/{phase}")
                elif status in ("done", "hang", "time_cap"):
                    # Tornado ended the connection although only valid traffic was carried
                    if state.get("ctl_over_limit"):
                        # a control frame (<=125 bytes, legal) was longer than max_message_size, or
                        # longer than what was left of it next to the fragments already buffered
                        pend = (f"in message {len(got_in)} of {len(in_msgs)} pending" if miss_in else
                                f"out message {len(got_out)} of {len(out_msgs)} pending" if miss_out
                                else "all messages delivered")
                        bad("valid.aborted", f"Tornado closed the connection (close frame: "
                                             f"{state.get('tornado_close')}) although only valid traffic "
                                             f"was carried; a control frame plus the buffered fragments "
                                             f"exceeded max_message_size={mms}; {pend}",
                            f"valid.aborted/{mode}/ctl_over_limit")
                    elif miss_in:
                        i = len(got_in)
                        f = fstr(in_feats, i)
                        bad("in.aborted", f"message {i} of {len(in_msgs)} ({len(in_msgs[i][1])} bytes, "
                                          f"type {in_msgs[i][0]}, features {f or '-'}) never delivered: "
                                          f"Tornado closed the connection "
                                          f"(close frame from Tornado: {state.get('tornado_close')})",
                            f"in.aborted/{mode}/{f}")
                    elif miss_out:
                        i = len(got_out)
                        f = fstr(out_feats, i)
                        bad("out.aborted", f"message {i} of {len(out_msgs)} never reached the peer: "
                                           f"Tornado closed the connection ({f})",
                            f"out.aborted/{mode}/{f}")
                    else:
                        bad("valid.aborted", f"all messages delivered but Tornado closed the connection "
                                             f"before the peer did (phase {phase})",
                            f"valid.aborted/{mode}")
            if state["writer_err"] is not None and not viol:
                bad("valid.write_failed", f"write_message raised WebSocketClosedError "
                                          f"{state['writer_err']}", f"valid.write_failed/{mode}")
            # 4. independent look at the wire in real<->real mode
            tap = box["tap"]
            if tap is not None and not raw:
                for masked in (True, False):
                    if masked:
                        fd = box["cfd"]
                    else:
                        fds = sorted(f for f in tap.by_fd if f != box["cfd"])
                        fd = fds[0] if fds else None
                    if fd is None:
                        continue
                    head, frames, trailing = tap.frames_after_head(fd)
                    inf = W.Inflater(15, False) if topts is not None else None
                    rxw = W.Receiver(inf, expect_masked=masked)
                    for f in frames:
                        rxw.frame(f)
                    who = "client" if masked else "server"
                    if rxw.errors:
                        bad("wire.protocol_error", f"{who} frame {rxw.errors[0]}",
                            f"wire.protocol_error/{mode}/{who}/{rxw.errors[0][1].split(':')[0]}")
                    exp = in_msgs if masked else out_msgs
                    if not rxw.errors and rxw.messages() != exp[:len(rxw.messages())]:
                        bad("wire.mismatch", f"{who} wire carries other messages than were written",
                            f"wire.mismatch/{mode}/{who}")
                    if any(e[0] == "msg" and e[4] for e in rxw.events):
                        probe("out_compressed" if not masked else "in_compressed")
                    for fm in rxw.len_forms:
                        probe("out_len_form_%d" % fm)
            if raw:
                if rx.inflater is not None and any(e[0] == "msg" and e[4] for e in rx.events):
                    probe("out_compressed")
                for fm in rx.len_forms:
                    probe("out_len_form_%d" % fm)
        if status == "step_cap":
            bad("run.step_cap", f"{loop.iterations} iterations, phase {state['phase']}")
        elif status.startswith("error"):
            bad("harness.main_raised", f"{status}: {getattr(env, 'main_exception', None)!r} "
                                       f"phase {state['phase']}")
        # ERROR records / loop exceptions are observations here, not C14 verdicts
        for r in env.errors():
            probe("error_logged:%s:%s" % (r[0], r[3]))
        for m, e in env.loop_errors:
            probe("loop_error:%s" % e)

        # ------------------------------------------------------------ stats
        st = env.stats()
        for _, d in out_msgs:
            probe("out_len_%d" % len(d) if len(d) in (0, 125, 126, 127, 65535, 65536, 70000)
                  else "out_len_other")
        probe("mask_" + mask_eff)
        probe("mode_" + mode)
        if ws is not None:
            if ws.pmd is not None:
                probe("deflate_agreed")
                b = ws.pmd.brief()
                if b[0] or b[1]:
                    probe("no_context_takeover_agreed")
                if (b[2] or 15) < 15 or (b[3] or 15) < 15:
                    probe("window_bits_lt_15_agreed")
            elif deflate is not None:
                probe("deflate_declined")
            if ws.seg.hdr_cuts:
                probe("cut_inside_frame_header", ws.seg.hdr_cuts)
            if ws.seg.nsegs > ws.sent_frames + 1:
                probe("multi_segment_stream")
        elif topts is not None:
            probe("deflate_agreed")
        if state["uncompressed_fallback"]:
            probe("uncompressed_fallback_at_limit", state["uncompressed_fallback"])
        if srec.max_in_flight or crec.in_flight or any(
                isinstance(x, int) and x for x in knobs.get("pattern") or ()):
            probe("async_on_message")
        if st["faults"].get("zero_window_stall"):
            probe("backpressure_stall")
        for _, d in in_msgs + out_msgs:
            if b"\xf0" in d[:4000]:
                probe("astral_text")
                break
        st["probes"].update(probes)
        delivered = len(srec.messages) + len(crec.messages)
        if raw and ws is not None and ws.rx is not None:
            delivered += len(ws.rx.messages())
        perturbed = any(st["faults"].get(k) for k in
                        ("short_read", "partial_send", "zero_window_stall", "readiness_deferred",
                         "send_eagain", "delay"))
        nontrivial = bool(state["handshake"] is True and delivered >= 2 and (
            probes.get("in_fragmented") or probes.get("in_compressed")
            or probes.get("out_compressed") or probes.get("multi_segment_stream") or perturbed))
        outcome = {"status": status, "phase": state["phase"], "in": len(tor_in.messages),
                   "out": (len(ws.rx.messages()) if raw and ws is not None and ws.rx is not None
                           else len(crec.messages)),
                   "mask": mask_eff, "alive": state["alive_at_end"]}
        return {"violations": viol, "nontrivial": nontrivial, "stats": st,
                "log_head": env.log.head, "log_full": env.log.full, "outcome": outcome}
