"""Decision tapes and the event log.

A run never draws from a PRNG.  Every choice point asks ``Tapes.draw(name)``;
the tape for that name is a finite list of integers (optionally cycling); an
exhausted or absent tape yields the benign default.  The scenario generator is
the only place where a PRNG exists.
"""

import hashlib


class Tapes:
    """``spec``: name -> list[int]  or  {"v": list[int], "cycle": bool}."""

    __slots__ = ("vals", "cyc", "pos", "fired", "sig")

    def __init__(self, spec=None):
        self.vals = {}
        self.cyc = {}
        self.pos = {}
        self.fired = {}  # name -> number of non-default draws
        self.sig = hashlib.sha256()  # schedule signature: non-default decisions
        for k, v in (spec or {}).items():
            if isinstance(v, dict):
                self.vals[k] = list(v.get("v", ()))
                self.cyc[k] = bool(v.get("cycle"))
            else:
                self.vals[k] = list(v)
                self.cyc[k] = False
            self.pos[k] = 0

    def draw(self, name, default=0):
        t = self.vals.get(name)
        if not t:
            return default
        i = self.pos[name]
        if i >= len(t):
            if not self.cyc[name]:
                return default
            i = 0
        self.pos[name] = i + 1
        v = t[i]
        if v != default:
            self.fired[name] = self.fired.get(name, 0) + 1
            self.sig.update(b"%s:%d:%d;" % (name.encode(), i, v))
        return v

    def consumed(self):
        return dict(self.pos)


class EventLog:
    """Append-only log of simulated events; digest is the run's identity.

    Fields must be plain ints / strs / bytes / exact floats / None / tuples of
    those: never object reprs, ids or addresses.
    """

    __slots__ = ("h", "n", "head", "keep", "full")

    def __init__(self, keep=300, full=False):
        self.h = hashlib.sha256()
        self.n = 0
        self.keep = keep
        self.head = []
        self.full = [] if full else None

    def ev(self, *fields):
        self.h.update(repr(fields).encode())
        self.n += 1
        if self.n <= self.keep:
            self.head.append(fields)
        if self.full is not None:
            self.full.append(fields)

    def digest(self):
        return self.h.hexdigest()


def jsonable(x):
    """Turn log tuples into something json.dump accepts (bytes -> hex str)."""
    if isinstance(x, (bytes, bytearray, memoryview)):
        return "hex:" + bytes(x).hex()
    if isinstance(x, (tuple, list)):
        return [jsonable(i) for i in x]
    if isinstance(x, dict):
        return {str(k): jsonable(v) for k, v in x.items()}
    if isinstance(x, (set, frozenset)):
        return sorted(jsonable(i) for i in x)
    if isinstance(x, (int, float, str, bool)) or x is None:
        return x
    return repr(x)
