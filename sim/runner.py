"""Batch runner, shrinking, replay files, evidence, known findings.

Property modules (props/cXX.py) provide:

  ID, LEVEL, RULE (text), COMPONENTS ({"real": [...], "stub": [...]}),
  QUICK_N, THOROUGH_N,
  gen(rng, tier, index) -> scenario            (JSON-able dict)
  expand(scenario) -> iterable of scenarios    (optional: fault enumeration)
  run(scenario, full_log=False) -> result dict:
      {"violations": [{"rule":..., "key":..., "msg":...}, ...],
       "nontrivial": bool, "stats": SimEnv.stats()-like dict,
       "log_head": [...] (optional)}

Everything a run does is a pure function of its scenario.
"""

import concurrent.futures
import faulthandler
import gc
import hashlib
import json
import multiprocessing
import os
import random
import sys
import time
import traceback
from collections import Counter

from .tape import jsonable

VERIF = os.path.dirname(os.path.dirname(os.path.abspath(__file__)))
CHUNK_WALL = int(os.environ.get("VERIF_CHUNK_WALL", "600"))


def scen_hash(scn):
    return hashlib.sha256(json.dumps(scn, sort_keys=True).encode()).hexdigest()


def sub_rng(verif_seed, prop_id, index, stream=""):
    h = hashlib.sha256(f"{verif_seed}:{prop_id}:{index}:{stream}".encode()).digest()
    return random.Random(int.from_bytes(h[:8], "big"))


def code_fingerprint():
    import subprocess
    try:
        head = subprocess.run(["git", "-C", "/repo", "rev-parse", "HEAD"],
                              capture_output=True, text=True, timeout=20).stdout.strip()
        diff = subprocess.run(["git", "-C", "/repo", "diff", "HEAD", "--", "tornado"],
                              capture_output=True, timeout=20).stdout
        return head + ("+" + hashlib.sha256(diff).hexdigest()[:12] if diff else "")
    except Exception:
        return "unknown"


# ----------------------------------------------------------------------------
# worker side


def _scenarios_for(mod, verif_seed, tier, index):
    rng = sub_rng(verif_seed, mod.ID, index)
    base = mod.gen(rng, tier, index)
    exp = getattr(mod, "expand", None)
    if exp is None:
        yield base
    else:
        yield from exp(base)


def run_chunk(modname, verif_seed, tier, indices, max_viol=6):
    """Run all scenarios for the given seed indices; return aggregate."""
    faulthandler.dump_traceback_later(CHUNK_WALL, exit=True)
    mod = __import__(modname, fromlist=["x"])
    agg = {
        "evaluations": 0, "nontrivial": {}, "faults": Counter(), "probes": Counter(),
        "sim_time": 0.0, "digests": set(), "sigs": set(), "violations": [],
        "samples": [], "iterations": 0, "errors": [], "nviol": 0, "keys": Counter(),
    }
    n = 0
    for idx in indices:
        try:
            for scn in _scenarios_for(mod, verif_seed, tier, idx):
                n += 1
                if n % 64 == 0:
                    gc.collect()
                res = mod.run(scn)
                agg["evaluations"] += 1
                st = res.get("stats", {})
                if st.get("breaches"):
                    raise RuntimeError(f"seam breach in run: {st['breaches']}")
                agg["faults"].update(st.get("faults", {}))
                agg["probes"].update(st.get("probes", {}))
                agg["sim_time"] += st.get("sim_time", 0.0)
                agg["iterations"] += st.get("iterations", 0)
                d = st.get("digest")
                if d:
                    agg["digests"].add(d[:16])
                sg = st.get("sig")
                if not scn.get("tapes") and not st.get("faults", {}).get("preemption"):
                    # the schedule is explicit in the scenario (op/exit/signal order), not
                    # drawn from tapes: the scenario itself identifies the interleaving
                    sg = "scn:" + scen_hash(scn)[:16]
                if sg:
                    agg["sigs"].add(sg)
                if res.get("nontrivial"):
                    agg["nontrivial"][scen_hash(scn)[:16]] = 1
                if len(agg["samples"]) < 2 and res.get("nontrivial"):
                    agg["samples"].append({"seed_index": idx, "scenario": scn,
                                           "log_head": jsonable(res.get("log_head", [])[:40]),
                                           "outcome": jsonable(res.get("outcome"))})
                if res["violations"]:
                    agg["nviol"] += 1
                    # keep at most 2 scenarios per violation key (not per chunk), so a
                    # frequent known finding cannot crowd out a different violation
                    keep = False
                    for v in res["violations"]:
                        k = v.get("key", v["rule"])
                        if agg["keys"][k] < 2:
                            keep = True
                        agg["keys"][k] += 1
                    if keep and len(agg["violations"]) < 200:
                        agg["violations"].append({"seed_index": idx, "scenario": scn,
                                                  "violations": res["violations"]})
        except Exception:
            agg["errors"].append({"seed_index": idx, "trace": traceback.format_exc()})
            if len(agg["errors"]) > 3:
                break
    faulthandler.cancel_dump_traceback_later()
    agg["digests"] = list(agg["digests"])
    agg["sigs"] = list(agg["sigs"])
    agg["faults"] = dict(agg["faults"])
    agg["probes"] = dict(agg["probes"])
    agg["keys"] = dict(agg["keys"])
    return agg


# ----------------------------------------------------------------------------
# shrinking


def _paths(obj, prefix=()):
    """Yield (path, value) for every list and every scalar in a JSON doc."""
    if isinstance(obj, dict):
        for k in sorted(obj):
            yield from _paths(obj[k], prefix + (k,))
    elif isinstance(obj, list):
        yield prefix, obj
        for i, v in enumerate(obj):
            yield from _paths(v, prefix + (i,))
    else:
        yield prefix, obj


def _get(obj, path):
    for p in path:
        obj = obj[p]
    return obj


def _set(obj, path, value):
    obj = json.loads(json.dumps(obj))
    cur = obj
    for p in path[:-1]:
        cur = cur[p]
    cur[path[-1]] = value
    return obj


def shrink(mod, scn, rule, budget_runs=1500, budget_s=90.0):
    """Delta-debug ``scn`` while a violation with the same rule persists."""
    t0 = time.time()
    runs = [0]
    noshrink = set(getattr(mod, "NO_SHRINK", ()))
    validate = getattr(mod, "validate", None)

    def fails(c):
        if runs[0] >= budget_runs or time.time() - t0 > budget_s:
            return False
        if validate is not None and not validate(c):
            return False
        runs[0] += 1
        try:
            r = mod.run(c)
        except Exception:
            return False
        return any(v["rule"] == rule for v in r["violations"])

    cur = scn
    changed = True
    while changed and runs[0] < budget_runs and time.time() - t0 < budget_s:
        changed = False
        # 1. remove list elements (ddmin-ish: halves, then singles)
        for path, val in list(_paths(cur)):
            if not isinstance(val, list) or not val:
                continue
            if path and path[0] in noshrink:
                continue
            try:
                lst = _get(cur, path)
            except (KeyError, IndexError, TypeError):
                continue
            if not isinstance(lst, list):
                continue
            n = len(lst)
            chunk = max(1, n // 2)
            while chunk >= 1 and lst:
                i = 0
                while i < len(lst):
                    cand_l = lst[:i] + lst[i + chunk:]
                    cand = _set(cur, path, cand_l) if path else cand_l
                    if fails(cand):
                        cur = cand
                        lst = cand_l
                        changed = True
                    else:
                        i += chunk
                if chunk == 1:
                    break
                chunk = max(1, chunk // 2)
        # 2. simplify scalars
        for path, val in list(_paths(cur)):
            if isinstance(val, list) or not path or path[0] in noshrink:
                continue
            try:
                val = _get(cur, path)
            except (KeyError, IndexError, TypeError):
                continue
            cands = []
            if isinstance(val, bool):
                if val:
                    cands = [False]
            elif isinstance(val, int):
                cands = [c for c in (0, 1, val // 2, val - 1) if 0 <= c < val]
                if val < 0:
                    cands = [0]
            elif isinstance(val, str) and val.startswith("hex:") and len(val) > 6:
                h = val[4:]
                half = (len(h) // 4) * 2
                cands = ["hex:" + h[:half], "hex:" + h[2:], "hex:" + h[:-2]]
            seen = set()
            for c in cands:
                key = json.dumps(c)
                if key in seen:
                    continue
                seen.add(key)
                cand = _set(cur, path, c)
                if fails(cand):
                    cur = cand
                    changed = True
                    break
        custom = getattr(mod, "simplify", None)
        if custom is not None:
            for cand in custom(cur):
                if fails(cand):
                    cur = cand
                    changed = True
    return cur, runs[0]


# ----------------------------------------------------------------------------
# known findings


def load_known():
    p = os.path.join(VERIF, "known_findings.json")
    try:
        with open(p) as f:
            doc = json.load(f)
    except FileNotFoundError:
        return []
    return [e for e in doc.get("findings", []) if e.get("status", "open") == "open"]


def match_known(known, prop_id, viol):
    for e in known:
        if e["property"] == prop_id and e["key"] == viol.get("key", viol["rule"]):
            return e
    return None


# ----------------------------------------------------------------------------
# replay files


def write_replay(mod, scn, viol, res, orig_index, verif_seed, tier, shrink_runs):
    d = os.path.join(VERIF, "replays")
    os.makedirs(d, exist_ok=True)
    digest = res.get("stats", {}).get("digest", "")
    safe_rule = viol["rule"].replace("/", "_").replace(" ", "_")
    name = f"{mod.ID}-{safe_rule}-{scen_hash(scn)[:12]}.json"
    path = os.path.join(d, name)
    doc = {
        "property": mod.ID,
        "violation": viol,
        "all_violations": res["violations"],
        "expected_digest": digest,
        "scenario": scn,
        "found": {"verif_seed": verif_seed, "tier": tier, "seed_index": orig_index,
                  "shrink_runs": shrink_runs},
        "code": code_fingerprint(),
        "log_head": jsonable(res.get("log_head", [])[:120]),
        "replay_cmd": f"./check {mod.ID} --replay {path}",
    }
    with open(path, "w") as f:
        json.dump(doc, f, indent=1, sort_keys=True)
    return path


def replay(mod, path):
    with open(path) as f:
        doc = json.load(f)
    scn = doc["scenario"]
    res = mod.run(scn, full_log=True)
    want = doc.get("violation", {})
    got = [v for v in res["violations"] if v["rule"] == want.get("rule")]
    same_digest = res.get("stats", {}).get("digest") == doc.get("expected_digest")
    print(f"replay property={mod.ID} rule={want.get('rule')} reproduced={bool(got)} "
          f"digest_match={same_digest}")
    for v in res["violations"]:
        print(f"  violation rule={v['rule']} key={v.get('key')} : {v['msg']}")
    if os.environ.get("VERIF_VERBOSE"):
        for e in res.get("log_full", res.get("log_head", [])):
            print("   ", e)
    if got:
        known = load_known()
        k = match_known(known, mod.ID, got[0])
        if k is not None:
            print(f"KNOWN-FINDING: property={mod.ID} {k['what']}")
            return 0
        print(f"VIOLATION property={mod.ID} replay={path}")
        return 1
    return 0


# ----------------------------------------------------------------------------
# parent side


def run_check(mod, tier, verif_seed, count=None, jobs=None):
    t0 = time.time()
    modname = mod.__name__
    if count is None:
        count = mod.QUICK_N if tier == "quick" else mod.THOROUGH_N
    jobs = jobs or min(16, os.cpu_count() or 1)
    per = max(1, min(getattr(mod, "CHUNK", 50), (count + jobs - 1) // jobs))
    chunks = [list(range(i, min(i + per, count))) for i in range(0, count, per)]
    total = {
        "evaluations": 0, "nontrivial": {}, "faults": Counter(), "probes": Counter(),
        "sim_time": 0.0, "digests": set(), "sigs": set(), "violations": [],
        "samples": [], "iterations": 0, "errors": [], "nviol": 0, "keys": Counter(),
    }
    ctx = multiprocessing.get_context("fork")
    harness_error = None
    try:
        with concurrent.futures.ProcessPoolExecutor(max_workers=jobs, mp_context=ctx) as ex:
            futs = [ex.submit(run_chunk, modname, verif_seed, tier, ch) for ch in chunks]
            for f in futs:
                a = f.result(timeout=CHUNK_WALL + 60)
                total["evaluations"] += a["evaluations"]
                total["nontrivial"].update(a["nontrivial"])
                total["faults"].update(a["faults"])
                total["probes"].update(a["probes"])
                total["sim_time"] += a["sim_time"]
                total["iterations"] += a["iterations"]
                total["digests"].update(a["digests"])
                total["sigs"].update(a["sigs"])
                total["violations"].extend(a["violations"])
                total["nviol"] += a["nviol"]
                total["keys"].update(a["keys"])
                total["errors"].extend(a["errors"])
                if len(total["samples"]) < 3:
                    total["samples"].extend(a["samples"][: 3 - len(total["samples"])])
    except Exception as e:  # broken pool, watchdog kill, timeout
        harness_error = f"{type(e).__name__}: {e}"

    if total["errors"] and harness_error is None:
        harness_error = "exception inside run(): " + total["errors"][0]["trace"]

    # --- violations: group by key, shrink one representative per key
    known = load_known()
    by_key = {}
    for v in total["violations"]:
        for vv in v["violations"]:
            by_key.setdefault(vv.get("key", vv["rule"]), (v, vv))
    reported = []
    known_hits = []
    shrink_budget = 60.0 if tier == "quick" else 180.0
    for key in sorted(by_key):
        v, vv = by_key[key]
        k = match_known(known, mod.ID, vv)
        if k is not None and not os.environ.get("VERIF_SHRINK_KNOWN"):
            known_hits.append((k, None))
            continue
        small, nruns = shrink(mod, v["scenario"], vv["rule"], budget_s=shrink_budget)
        res = mod.run(small)
        same = [x for x in res["violations"] if x["rule"] == vv["rule"]]
        if not same:  # shrinking lost it (should not happen): fall back
            small = v["scenario"]
            res = mod.run(small)
            same = [x for x in res["violations"] if x["rule"] == vv["rule"]] or [vv]
        final = same[0]
        k = match_known(known, mod.ID, final)
        if k is not None:
            known_hits.append((k, None))
            continue
        path = write_replay(mod, small, final, res, v["seed_index"], verif_seed, tier, nruns)
        reported.append((final, path))

    wall = time.time() - t0
    samples = total["samples"]
    if not samples:
        # always give the reader something concrete
        scn = next(iter(_scenarios_for(mod, verif_seed, tier, 0)))
        samples = [{"seed_index": 0, "scenario": scn}]
    n_nontrivial = len(total["nontrivial"])
    evidence = {
        "property_id": mod.ID,
        "tier": tier,
        "seed": int(verif_seed),
        "level": mod.LEVEL,
        "coverage": {
            "evaluations": total["evaluations"],
            "distinct_nontrivial": n_nontrivial,
            "rule": mod.RULE,
            "samples": jsonable(samples),
            "seeds": {"verif_seed": int(verif_seed), "count": count},
            "runs_per_hour": int(total["evaluations"] / wall * 3600) if wall > 0 else 0,
            "sim_time_s": round(total["sim_time"], 3),
            "loop_iterations": total["iterations"],
            "faults_fired": dict(sorted(total["faults"].items())),
            "probes": dict(sorted(total["probes"].items())),
            "distinct_digests": len(total["digests"]),
            "distinct_schedule_signatures": len(total["sigs"]),
            "schedule_signature_measure": "sha256 over the sequence of non-default tape decisions "
                                          "(tape name, position, value) of a run; for runs whose "
                                          "schedule is explicit in the scenario instead of tapes, "
                                          "the scenario hash",
            "components": getattr(mod, "COMPONENTS", {}),
            "known_findings": sorted({k["key"] for k, _ in known_hits}),
            "runs_with_violation": total["nviol"],
            "violation_keys": dict(sorted(total["keys"].items())),
            "exhaustive": False,
        },
        "assumptions": list(getattr(mod, "ASSUMPTIONS", [])),
        "wall_s": round(wall, 2),
        "violations": len(reported),
    }
    if harness_error is None:
        os.makedirs(os.path.join(VERIF, "evidence"), exist_ok=True)
        with open(os.path.join(VERIF, "evidence", f"{mod.ID}.json"), "w") as f:
            json.dump(evidence, f, indent=1, sort_keys=True)

    print(f"check {mod.ID} tier={tier} seed={verif_seed} evaluations={total['evaluations']} "
          f"nontrivial={n_nontrivial} wall={wall:.1f}s "
          f"faults={sum(total['faults'].values())} violations={len(reported)} "
          f"known={len(known_hits)}")
    seen_known = set()
    for k, _ in known_hits:
        if k["key"] in seen_known:
            continue
        seen_known.add(k["key"])
        print(f"KNOWN-FINDING: property={mod.ID} {k['what']}")
    for final, path in reported:
        print(f"  {final['rule']} [{final.get('key')}]: {final['msg']}")
        print(f"VIOLATION property={mod.ID} replay={path}")
    if harness_error is not None:
        print(f"HARNESS-ERROR property={mod.ID}: {harness_error}", file=sys.stderr)
        return 2
    if total["evaluations"] == 0:
        print(f"HARNESS-ERROR property={mod.ID}: nothing ran", file=sys.stderr)
        return 2
    return 1 if reported else 0


# ----------------------------------------------------------------------------
# determinism self-test support


def _digest_chunk(modname, verif_seed, tier, indices, twice):
    mod = __import__(modname, fromlist=["x"])
    out = []
    for idx in indices:
        for k, scn in enumerate(_scenarios_for(mod, verif_seed, tier, idx)):
            if k >= 3:
                break
            r = mod.run(scn)
            d = r["stats"]["digest"] + "|" + ",".join(sorted(v["rule"] for v in r["violations"]))
            if twice:
                r2 = mod.run(scn)
                d2 = r2["stats"]["digest"] + "|" + ",".join(sorted(v["rule"] for v in r2["violations"]))
                if d2 != d:
                    d = "NONDET:" + d + "!=" + d2
            out.append((idx, k, scen_hash(scn)[:12], d))
    return out


def digests(mod, tier, verif_seed, count, jobs):
    """Print one line per scenario: index, scenario hash, run digest (run twice)."""
    modname = mod.__name__
    idxs = list(range(count))
    if jobs <= 1:
        rows = _digest_chunk(modname, verif_seed, tier, idxs, True)
    else:
        ctx = multiprocessing.get_context("fork")
        per = max(1, count // (jobs * 3))
        chunks = [idxs[i:i + per] for i in range(0, count, per)]
        rows = []
        with concurrent.futures.ProcessPoolExecutor(max_workers=jobs, mp_context=ctx) as ex:
            for part in ex.map(_digest_chunk, [modname] * len(chunks), [verif_seed] * len(chunks),
                               [tier] * len(chunks), chunks, [True] * len(chunks)):
                rows.extend(part)
    bad = 0
    for idx, k, sh, d in rows:
        if d.startswith("NONDET"):
            bad += 1
        print(idx, k, sh, d)
    return 1 if bad else 0
