"""SimEnv: one simulated world for one run.

Creates the SimLoop/SimNet, installs the module-global proxies through which
Tornado reaches time, randomness and sockets, captures logging, runs a main
coroutine to quiescence, and restores everything afterwards.
"""

import asyncio
import gc
import logging
import os as _os
import random as _random
import socket as _socket
import sys
import time as _time
import re
import types

from .loop import SimLoop, SimStepCap, UNIT, T0, WALL0  # noqa: F401
from .net import SimNet, SocketModuleProxy
from .tape import Tapes, EventLog


_ADDR = re.compile(r"0x[0-9a-fA-F]+")


class ModProxy(types.ModuleType):
    """Module stand-in: overrides first, everything else from the real one."""

    def __init__(self, real, **overrides):
        super().__init__(real.__name__)
        self.__dict__["_real"] = real
        self.__dict__.update(overrides)

    def __getattr__(self, name):
        return getattr(self.__dict__["_real"], name)


class _LogCapture(logging.Handler):
    def __init__(self, env):
        super().__init__(level=logging.DEBUG)
        self.env = env

    def emit(self, record):
        try:
            msg = record.getMessage()
        except Exception:  # pragma: no cover
            msg = str(record.msg)
        exc = None
        if record.exc_info and record.exc_info[0] is not None:
            exc = record.exc_info[0].__name__
        rec = (record.name, record.levelname, msg, exc)
        self.env.records.append(rec)
        if self.env.alive:
            # messages may contain addresses/reprs: only stable parts are logged
            self.env.log.ev("log", record.name, record.levelname, exc)


_PATCH_TIME = ("tornado.ioloop", "tornado.httputil", "tornado.web",
               "tornado.simple_httpclient", "tornado.httpclient")


class SimEnv:
    def __init__(self, tapes_spec=None, *, max_iters=200_000, max_time=None,
                 window=65536, full_log=False, urandom_seed=0, allow=()):
        self.tapes = Tapes(tapes_spec)
        self.log = EventLog(full=full_log)
        self.loop = SimLoop(self.tapes, self.log, max_iters=max_iters, max_time=max_time)
        self.net = SimNet(self.loop, self.tapes, self.log, default_window=window)
        self.records = []  # (logger, level, message, exc type name)
        self.loop_errors = []  # asyncio exception-handler contexts
        self.alive = False
        self._saved = []
        self._urandom_ctr = urandom_seed
        self._handler = _LogCapture(self)
        self._loggers = []
        self._gc_was = None
        self.main_task = None
        self.random_values = None  # optional list feeding random.random()
        self.allow = set(allow)  # seam guards to leave open: "threads", "fork", "select"
        self.breaches = []

    # -- deterministic stand-ins ----------------------------------------
    def _time(self):
        return self.loop.wall()

    def _urandom(self, n):
        v = self.tapes.draw("urandom")
        self._urandom_ctr += 1
        if v:
            return bytes([(v + i) & 0xFF for i in range(n)])
        c = self._urandom_ctr
        return bytes([(c * 73 + i * 151 + 17) & 0xFF for i in range(n)])

    def _random(self):
        v = self.tapes.draw("random", 128)
        return v / 256.0

    def _patch(self, modname, attr, value):
        mod = sys.modules.get(modname)
        if mod is None:
            __import__(modname)
            mod = sys.modules[modname]
        self._saved.append((mod, attr, getattr(mod, attr)))
        setattr(mod, attr, value)

    # -- lifecycle ----------------------------------------------------------
    def __enter__(self):
        self._gc_was = gc.isenabled()
        gc.disable()
        timep = ModProxy(_time, time=self._time, monotonic=self.loop.time)
        for m in _PATCH_TIME:
            self._patch(m, "time", timep)
        self._patch("tornado.tcpclient", "socket", SocketModuleProxy(self.net))
        self._patch("tornado.websocket", "os", ModProxy(_os, urandom=self._urandom))
        self._patch("tornado.web", "os", ModProxy(_os, urandom=self._urandom))
        self._patch("tornado.ioloop", "random", ModProxy(_random, random=self._random))
        from tornado import _verif
        self._saved.append((_verif.OrderedSet, "permute", _verif.OrderedSet.permute))
        for name in ("tornado.application", "tornado.general", "tornado.access", "asyncio"):
            lg = logging.getLogger(name)
            self._loggers.append((lg, lg.level, lg.propagate, list(lg.handlers)))
            lg.handlers = [self._handler]
            lg.setLevel(logging.DEBUG)
            lg.propagate = False
        self.loop.set_exception_handler(self._on_loop_error)
        self._install_guards()
        self.alive = True
        return self

    # -- seam integrity: the real facilities must not be reached during a run
    def _breach(self, what):
        def guard(*a, **k):
            self.breaches.append(what)
            raise RuntimeError(f"seam breach: real {what} reached inside a simulated run")
        return guard

    def _install_guards(self):
        import select as _select
        import subprocess as _subprocess
        import threading as _threading
        g = [(_socket, "socket", "socket.socket"), (_socket, "socketpair", "socket.socketpair"),
             (_socket, "create_connection", "socket.create_connection"),
             (_time, "sleep", "time.sleep"), (_subprocess, "Popen", "subprocess.Popen")]
        if "threads" not in self.allow:
            g.append((_threading.Thread, "start", "threading.Thread.start"))
        if "fork" not in self.allow:
            g.append((_os, "fork", "os.fork"))
        if "select" not in self.allow:
            g.append((_select, "select", "select.select"))
        for obj, attr, what in g:
            self._saved.append((obj, attr, getattr(obj, attr)))
            setattr(obj, attr, self._breach(what))

    def _on_loop_error(self, loop, context):
        exc = context.get("exception")
        msg = context.get("message") or ""
        # asyncio formats callbacks with argument reprs (heap addresses): keep the stable part
        stable = _ADDR.sub("0x?", msg.split("(")[0])[:80]
        self.loop_errors.append((msg, type(exc).__name__ if exc else None))
        if self.alive:
            self.log.ev("loop_error", stable, type(exc).__name__ if exc else None)

    def __exit__(self, *a):
        self.alive = False
        loop = self.loop
        try:
            # cancel whatever is left so nothing leaks into the next run
            for _ in range(3):
                try:
                    tasks = [t for t in asyncio.all_tasks(loop) if not t.done()]
                except RuntimeError:
                    tasks = []
                if not tasks:
                    break
                for t in tasks:
                    t.cancel()
                loop.max_iters = loop.iterations + 2000
                loop.max_time = None
                loop._idle_waiters.clear()
                # drop timers: nothing after the verdict matters
                for h in list(loop._scheduled):
                    h.cancel()
                loop.run_until_quiescent()
        except BaseException:
            pass
        try:
            from tornado.ioloop import IOLoop
            IOLoop._ioloop_for_asyncio.pop(loop, None)
            IOLoop._pending_tasks.clear()
        except Exception:
            pass
        try:
            loop._ready.clear()
            loop._scheduled.clear()
            loop.close()
        except Exception:
            pass
        for mod, attr, old in reversed(self._saved):
            setattr(mod, attr, old)
        self._saved = []
        for lg, level, prop, handlers in self._loggers:
            lg.handlers = handlers
            lg.setLevel(level)
            lg.propagate = prop
        self._loggers = []
        if self._gc_was:
            gc.enable()
        return False

    # -- running --------------------------------------------------------------
    def run(self, main):
        """Run coroutine ``main`` until the world is quiescent.

        Returns a status string: "done", "hang" (quiescent but main pending),
        "step_cap", "time_cap", or "error:<ExcType>" if main raised.
        """
        loop = self.loop
        task = loop.create_task(main, name="main")
        self.main_task = task
        task.add_done_callback(lambda t: t.exception() if not t.cancelled() else None)
        try:
            loop.run_forever()
        except SimStepCap:
            return "step_cap"
        if loop.time_capped:
            return "time_cap"
        if not task.done():
            return "hang"
        if task.cancelled():
            return "error:CancelledError"
        if task.exception() is not None:
            self.main_exception = task.exception()
            return "error:" + type(task.exception()).__name__
        return "done"

    def errors(self, logger=None, level=logging.ERROR):
        lv = {"DEBUG": 10, "INFO": 20, "WARNING": 30, "ERROR": 40, "CRITICAL": 50}
        return [r for r in self.records
                if lv.get(r[1], 0) >= level and (logger is None or r[0] == logger)]

    def stats(self):
        loop = self.loop
        faults = dict(loop.faults)
        for k, v in self.tapes.fired.items():
            faults.setdefault("tape:" + k, v)
        return {
            "iterations": loop.iterations,
            "sim_time": loop.sim_elapsed(),
            "faults": faults,
            "probes": dict(loop.probes),
            "sig": self.tapes.sig.hexdigest()[:16],
            "digest": self.log.digest(),
            "events": self.log.n,
            "breaches": list(self.breaches),
        }
