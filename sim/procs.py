"""Scripted processes and signals for tornado.process (DESIGN 3.6; C41, C42).

tornado.process reaches the operating system only through its module globals
``os``, ``subprocess``, ``sys``, ``signal``, ``multiprocessing``, ``time`` and
through ``asyncio.get_event_loop().add_signal_handler`` (owned by SimLoop).
``Installed`` replaces those globals by delegating proxies whose
fork / wait / waitpid / _exit / kill / urandom / getpid / Popen / sys.exit /
cpu_count are answered by a ``ProcWorld`` - a scripted process table - and
puts everything back afterwards.  Nothing here forks, waits, spawns or
signals for real; the real entry points are guarded while a world is
installed (a guard that fires is a harness error, never a verdict).

A "process" is an *invocation of the code under test in a role*: the parent
role sees every ``os.fork()`` return a fake child pid; the child role of the
k-th fork is the same invocation, with the same script, in which the k-th
``os.fork()`` returns 0.  Module state a real fork would copy
(``tornado.process._task_id``, ``Subprocess._initialized/_waiting``, the
state of the global ``random`` generator that ``_reseed_random`` reseeds) is
saved on install and restored on removal; ``reset_process_state()`` gives a
fresh copy between roles.

Wait statuses are real Linux wait statuses (``code << 8`` for exit(code),
``signo | 0x80*core`` for death by signal), because the code under test
decodes them with the real ``os.WIFSIGNALED/WEXITSTATUS/WTERMSIG``;
``decode_status`` is the independent decoder used by oracles.

Wait-history script (``ProcWorld(events=...)``), consumed by ``os.wait()``:

  ["x", j, code]          the j-th live worker (fork order, modulo) exited with ``code``
  ["s", j, signo, core]   the j-th live worker was killed by ``signo`` (core flag)
  ["f", status]           a child nobody here forked (fresh foreign pid) is reported
  ["t", j, status]        the pid of the j-th already reaped worker is reported again
                          (pid reused by a foreign child); falls back to "f"
  ["e"]                   fault: os.wait() fails with ECHILD although workers are in the
                          caller's table (SIGCHLD ignored / somebody else reaped them all);
                          every scripted worker is gone afterwards

When the script is exhausted ``os.wait()`` raises ``ChildProcessError(ECHILD)``
if no scripted child is alive (what the kernel would do) and ``ScriptEnd``
otherwise (the caller would block forever: the history is over).

``reuse`` tape: one int per fork/spawn; non-zero r hands out the (r-1)-th
previously reaped pid again instead of a fresh one (legal pid reuse).
"""

import errno
import multiprocessing as _mp
import os as _os
import random as _random
import signal as _signal
import subprocess as _subprocess
import sys as _sys
import time as _time
from collections import Counter

from .env import ModProxy

PID_BASE = 3001
FOREIGN_BASE = 9001


class SeamBreach(RuntimeError):
    """A real process facility (or an unsupported one) was reached during a run."""


class ScriptEnd(BaseException):
    """The scripted history is over: a real ``os.wait()`` would block forever."""


class ProcessExit(BaseException):
    """``os._exit(code)`` was called in the simulated process."""

    def __init__(self, code):
        super().__init__(code)
        self.code = code


# ---- wait statuses -------------------------------------------------------------

def exit_status(code):
    return (code & 0xFF) << 8


def signal_status(signo, core=False):
    return (signo & 0x7F) | (0x80 if core else 0)


def decode_status(status):
    """-> ("exit", code) | ("signal", signo) | ("other", status); independent of os.W*."""
    low = status & 0x7F
    if low == 0:
        return ("exit", (status >> 8) & 0xFF)
    if low == 0x7F:
        return ("other", status)
    return ("signal", low)


def returncode_of(status):
    """What subprocess / Tornado report for a wait status: code, or -signo."""
    k, v = decode_status(status)
    if k == "exit":
        return v
    if k == "signal":
        return -v
    raise ValueError(status)


def event_ok(ev):
    """Shape check for one wait-history event (scenarios get mutilated by the shrinker)."""
    if not isinstance(ev, list) or not ev or not all(isinstance(x, int) for x in ev[1:]):
        return False
    k = ev[0]
    if k == "x":
        return len(ev) == 3 and ev[1] >= 0 and 0 <= ev[2] <= 255
    if k == "s":
        return len(ev) == 4 and ev[1] >= 0 and 1 <= ev[2] <= 64
    if k == "f":
        return len(ev) == 2 and status_ok(ev[1])
    if k == "t":
        return len(ev) == 3 and ev[1] >= 0 and status_ok(ev[2])
    if k == "e":
        return len(ev) == 1
    return False


def status_ok(st):
    """exit(code) -> code << 8; killed by signal 1..64 -> signo (| 0x80 core dumped)."""
    if not isinstance(st, int) or isinstance(st, bool) or not 0 <= st <= 0xFF00:
        return False
    if st & 0xFF == 0:
        return True
    return st < 0x100 and 1 <= (st & 0x7F) <= 64


# ---- the scripted process table ----------------------------------------------------

class FakePopen:
    """What ``subprocess.Popen(...)`` returns inside a world.  No pipes."""

    def __init__(self, world, pid, args, kwargs):
        self._world = world
        self.pid = pid
        self.args = args[0] if args else kwargs.get("args")
        self.returncode = None
        self.stdin = self.stdout = self.stderr = None
        self.entry = world.procs[pid]  # [wait status or None, reaped] of *this* incarnation

    # simulation-side view of this child (pids may be reused, entries are not)
    def sim_exit(self, status):
        if self.entry[0] is not None or self.entry[1]:
            return False
        self.entry[0] = status
        self._world.ev("child_exit", self.pid, status)
        return True

    def sim_running(self):
        return self.entry[0] is None and not self.entry[1]

    def sim_zombie(self):
        return self.entry[0] is not None and not self.entry[1]

    def sim_reaped(self):
        return self.entry[1]

    def poll(self):
        return self.returncode

    def wait(self, timeout=None):
        raise SeamBreach("blocking Popen.wait() reached inside a simulated run")

    def communicate(self, *a, **k):
        raise SeamBreach("Popen.communicate() reached inside a simulated run")

    def send_signal(self, sig):
        self._world.kill(self.pid, sig)

    def terminate(self):
        self._world.kill(self.pid, _signal.SIGTERM)

    def kill(self):
        self._world.kill(self.pid, _signal.SIGKILL)


class ProcWorld:
    """One simulated process' view of its children.  Everything is scripted."""

    def __init__(self, log=None, *, events=(), reuse=(), child_at=None, cpus=1,
                 pid=2000, urandom_seed=0):
        self.log = log
        self.events = list(events)
        self.ev_pos = 0
        self.skipped_events = 0
        self.reuse = list(reuse)
        self.child_at = child_at  # index of the fork() call that returns 0
        self.cpus = cpus
        self.pid = pid
        self.next_pid = PID_BASE
        self.next_foreign = FOREIGN_BASE
        self.allocs = 0  # fork + spawn calls (index into the reuse tape)
        # fork/wait side
        self.forks = []  # value returned by each fork() call
        self.live = []  # worker pids forked and not yet reaped, fork order
        self.reaped = []  # pids reaped and not handed out again
        self.in_child = False
        self.trace = []  # ("fork", pid) | ("wait", pid, status, kind) | ("wait_echild",) | ...
        self.exit_calls = []  # codes passed to sys.exit
        # Popen/waitpid side: pid -> [status or None, reaped]
        self.procs = {}
        self.popen_calls = []
        self.waitpid_calls = 0
        self.urandom_calls = 0
        self._urandom_ctr = urandom_seed
        self.faults = Counter()

    def ev(self, *fields):
        if self.log is not None:
            self.log.ev(*fields)

    # -- pids ------------------------------------------------------------------
    def _alloc_pid(self):
        k = self.allocs
        self.allocs += 1
        r = self.reuse[k] if k < len(self.reuse) else 0
        if r and self.reaped:
            self.faults["pid_reused"] += 1
            return self.reaped.pop((r - 1) % len(self.reaped))
        pid = self.next_pid
        self.next_pid += 1
        return pid

    # -- os.fork / os.wait ------------------------------------------------------
    def fork(self):
        k = len(self.forks)
        if not self.in_child and self.child_at is not None and k == self.child_at:
            self.in_child = True
            self.forks.append(0)
            self.trace.append(("fork", 0))
            self.ev("fork", k, 0)
            # the child has no children of its own
            self.live = []
            return 0
        pid = self._alloc_pid()
        self.forks.append(pid)
        self.live.append(pid)
        self.trace.append(("fork", pid))
        self.ev("fork", k, pid)
        return pid

    def wait(self):
        while self.ev_pos < len(self.events) and not self.in_child:
            ev = self.events[self.ev_pos]
            self.ev_pos += 1
            kind = ev[0]
            if kind == "e":
                self.faults["wait_echild_with_workers"] += 1
                self.reaped.extend(self.live)
                self.live = []
                self.trace.append(("wait_error", "ECHILD"))
                self.ev("wait_error", "ECHILD")
                raise ChildProcessError(errno.ECHILD, "No child processes")
            if kind in ("x", "s"):
                if not self.live:
                    self.skipped_events += 1
                    continue
                pid = self.live.pop(ev[1] % len(self.live))
                self.reaped.append(pid)
                if kind == "x":
                    status = exit_status(ev[2])
                    self.faults["child_exit_nonzero" if ev[2] else "child_exit_zero"] += 1
                else:
                    status = signal_status(ev[2], bool(ev[3]))
                    self.faults["child_killed_by_signal"] += 1
                what = "worker"
            elif kind == "t" and self.reaped:
                pid = self.reaped[ev[1] % len(self.reaped)]
                status = ev[2]
                what = "stale"
                self.faults["wait_stale_pid"] += 1
            else:
                pid = self.next_foreign
                self.next_foreign += 1
                status = ev[-1]
                what = "foreign"
                self.faults["wait_foreign_pid"] += 1
            self.trace.append(("wait", pid, status, what))
            self.ev("wait", pid, status, what)
            return pid, status
        if self.in_child or not self.live:
            self.trace.append(("wait_echild",))
            self.ev("wait_echild")
            raise ChildProcessError(errno.ECHILD, "No child processes")
        self.trace.append(("wait_blocks",))
        self.ev("wait_blocks")
        raise ScriptEnd()

    # -- subprocess.Popen / os.waitpid / os.kill -----------------------------------
    def Popen(self, *args, **kwargs):
        for name in ("stdin", "stdout", "stderr"):
            if kwargs.get(name) is not None:
                raise SeamBreach(f"Popen({name}=...) pipes are not simulated")
        pid = self._alloc_pid()
        self.procs[pid] = [None, False]
        self.popen_calls.append(pid)
        self.ev("popen", pid)
        return FakePopen(self, pid, args, kwargs)

    def child_exit(self, pid, status):
        """The simulated child terminates (it stays a zombie until waited for)."""
        p = self.procs.get(pid)
        if p is None or p[0] is not None or p[1]:
            return False
        p[0] = status
        self.ev("child_exit", pid, status)
        return True

    def running(self, pid):
        p = self.procs.get(pid)
        return p is not None and p[0] is None and not p[1]

    def zombie(self, pid):
        p = self.procs.get(pid)
        return p is not None and p[0] is not None and not p[1]

    def was_reaped(self, pid):
        p = self.procs.get(pid)
        return p is not None and p[1]

    def kill(self, pid, sig):
        self.ev("kill", pid, int(sig))
        if self.running(pid):
            if int(sig) != 0:
                self.child_exit(pid, signal_status(int(sig)))
            return
        if self.zombie(pid):
            return
        raise ProcessLookupError(errno.ESRCH, "No such process")

    def waitpid(self, pid, options=0):
        self.waitpid_calls += 1
        if pid <= 0:
            raise SeamBreach("os.waitpid(pid<=0) is not scripted")
        p = self.procs.get(pid)
        if p is None or p[1]:
            self.ev("waitpid", pid, "ECHILD")
            raise ChildProcessError(errno.ECHILD, "No child processes")
        if p[0] is None:
            if not (options & _os.WNOHANG):
                raise SeamBreach("blocking os.waitpid() on a running child")
            self.ev("waitpid", pid, 0)
            return (0, 0)
        p[1] = True
        self.reaped.append(pid)
        self.ev("waitpid", pid, p[0])
        return (pid, p[0])

    # -- odds and ends ---------------------------------------------------------------
    def urandom(self, n):
        self.urandom_calls += 1
        self._urandom_ctr += 1
        c = self._urandom_ctr + (7 if self.in_child else 0) + len(self.forks) * 13
        return bytes([(c * 73 + i * 151 + 17) & 0xFF for i in range(n)])

    def getpid(self):
        return self.pid + (1 + len(self.forks) if self.in_child else 0)

    def sys_exit(self, code=None):
        self.exit_calls.append(code)
        self.trace.append(("sys_exit", code if isinstance(code, int) or code is None
                           else repr(code)))
        self.ev("sys_exit", code if isinstance(code, int) or code is None else repr(code))
        raise SystemExit(code)

    def os_exit(self, code):
        self.trace.append(("_exit", code))
        self.ev("_exit", code)
        raise ProcessExit(code)

    def cpu_count(self):
        self.faults["cpu_count_consulted"] += 1
        return self.cpus


# ---- installation ---------------------------------------------------------------------

_GUARDED_OS = ("fork", "forkpty", "wait", "waitpid", "wait3", "wait4", "waitid", "_exit",
               "kill", "killpg", "posix_spawn", "posix_spawnp", "execv", "execve", "system")
_GUARDED_SIGNAL = ("signal", "set_wakeup_fd", "raise_signal", "setitimer", "alarm")


class Installed:
    """Context manager: tornado.process sees ``world`` instead of the OS.

    ``inst.world`` may be swapped between roles (``inst.use(world)``).
    ``breaches``: a list (e.g. ``env.breaches``) that receives the name of any
    real facility that was reached; the runner turns a non-empty list into a
    harness error.
    """

    def __init__(self, world, breaches=None):
        self.world = world
        self.breaches = breaches if breaches is not None else []
        self._saved = []
        self._rand_state = None
        self._proc_state = None

    def use(self, world):
        self.world = world
        return world

    def _guard(self, what):
        def guard(*a, **k):
            self.breaches.append(what)
            raise SeamBreach(f"seam breach: real {what} reached inside a simulated run")
        return guard

    def _set(self, obj, attr, value):
        self._saved.append((obj, attr, getattr(obj, attr)))
        setattr(obj, attr, value)

    def __enter__(self):
        import tornado.process as tp
        self.tp = tp
        w = self  # proxies look the world up at call time
        osp = ModProxy(
            _os,
            fork=lambda: w.world.fork(),
            wait=lambda: w.world.wait(),
            waitpid=lambda pid, options=0: w.world.waitpid(pid, options),
            kill=lambda pid, sig: w.world.kill(pid, sig),
            _exit=lambda code: w.world.os_exit(code),
            urandom=lambda n: w.world.urandom(n),
            getpid=lambda: w.world.getpid(),
            cpu_count=lambda: w.world.cpu_count(),
            sysconf=self._unsupported("os.sysconf"),
            pipe=self._unsupported("os.pipe (Subprocess.STREAM is not simulated)"),
            forkpty=self._unsupported("os.forkpty"),
            wait3=self._unsupported("os.wait3"),
            wait4=self._unsupported("os.wait4"),
        )
        subp = ModProxy(_subprocess, Popen=lambda *a, **k: w.world.Popen(*a, **k))
        sysp = ModProxy(_sys, exit=lambda code=None: w.world.sys_exit(code))
        sigp = ModProxy(_signal, **{n: self._unsupported("signal." + n) for n in _GUARDED_SIGNAL})
        mpp = ModProxy(_mp, cpu_count=lambda: w.world.cpu_count())
        timep = ModProxy(_time, time=lambda: 1_700_000_000.0,
                         sleep=self._unsupported("time.sleep"))
        # module state a fork would copy / a run would leave behind
        self._proc_state = (tp._task_id, tp.Subprocess._initialized, tp.Subprocess._waiting)
        self._rand_state = _random.getstate()
        try:
            for attr, val in (("os", osp), ("subprocess", subp), ("sys", sysp), ("signal", sigp),
                              ("multiprocessing", mpp), ("time", timep)):
                self._set(tp, attr, val)
            # guards on the real things (SimEnv guards fork/Popen too; harmless to nest)
            for name in _GUARDED_OS:
                if hasattr(_os, name):
                    self._set(_os, name, self._guard("os." + name))
            for name in _GUARDED_SIGNAL:
                if hasattr(_signal, name):
                    self._set(_signal, name, self._guard("signal." + name))
            self._set(_subprocess, "Popen", self._guard("subprocess.Popen"))
            self._set(_sys, "exit", self._guard("sys.exit"))
            self._set(_mp, "cpu_count", self._guard("multiprocessing.cpu_count"))
            self.reset_process_state()
        except BaseException:
            self.__exit__(None, None, None)
            raise
        return self

    def _unsupported(self, what):
        def f(*a, **k):
            self.breaches.append(what)
            raise SeamBreach(f"seam breach: {what} reached inside a simulated run")
        return f

    def reset_process_state(self):
        """Fresh copy of the module state, as at interpreter start (between roles)."""
        tp = self.tp
        tp._task_id = None
        tp.Subprocess._initialized = False
        tp.Subprocess._waiting = {}

    def __exit__(self, *a):
        for obj, attr, old in reversed(self._saved):
            setattr(obj, attr, old)
        self._saved = []
        if self._proc_state is not None:
            tp = self.tp
            tp._task_id, tp.Subprocess._initialized, tp.Subprocess._waiting = self._proc_state
            self._proc_state = None
        if self._rand_state is not None:
            _random.setstate(self._rand_state)
            self._rand_state = None
        return False
